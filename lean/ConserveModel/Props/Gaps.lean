import ConserveModel.Props.C03r
import ConserveModel.Proofs.GapCrashTail
import ConserveModel.Props.GapsC10f
import ConserveModel.Props.GapsC16e
import ConserveModel.Props.GapsC14p
import ConserveModel.Props.GapsC02h
/-
Gaps left open by earlier property files, closed (or refuted) here.

§1  C03r — `interrupted_listing_tail_started`: the store a backup leaves when it is killed BETWEEN THE TWO
    MICRO-STEPS OF THE TAIL WRITE (zero-length `BANDTAIL`), or later.  `C03r.interrupted_listing_spec`
    proved `pre = src` only when the tail decodes; here: whenever the tail KEY exists in the killed
    run's store — zero-length or filled — every source entry has been recorded, the store is the
    uninterrupted run's store except for the content of the tail, the version is what "latest complete"
    selects, and restoring it (by id or as latest) returns exactly the source, silently.
    How: a killed run SIMULATES the uninterrupted run until it dies (`Crash.run_twin`), and the tail
    write is the last operation of `backup` (`Crash.backup_eq_before_close`).

    What the readers do with a zero-length tail (model = code): `Band::is_closed` is `is_file(BANDTAIL)`
    — true for a zero-length file, so `isComplete s' n = true`, `last_complete_band` selects `n`, and
    `Stitch` does not continue into the previous version; `Band::check_index_hunks` cannot read the
    hunk count from the tail and skips the count comparison (closed, count unknown), so nothing is
    reported.  The archive is therefore treated as holding a COMPLETE version `n` — rightly, as this
    theorem shows: everything but the tail's content had been written.

§2  C10f — Props/GapsC10f.lean: `backup_completes_any_source : C10f.BackupCompletesAnySourceStatement H` for
    EVERY `H`, source listing and options (general lemma `backup_total_clean`; `backup_total_needs_longNames`:
    the one store hypothesis beyond `StoreOK`/`ArchWF`/no lock that is needed, and it follows from `Conforms`).
§3  C16e — Props/GapsC16e.lean: `restore_archive_confined_distinct : C16e.restore_archive_confined_distinct_Statement`
    (proved, not refuted), from the stronger `restore_archive_confined_ordered` (hypothesis `NoRepeatAfterLink`:
    no apath of a restored symlink is listed again later — the exact line, cf.
    `C16e.restore_archive_confined_any_store_refuted`).
§4  C14p — Props/GapsC14p.lean: `history_kinds_small` (`KindsOK`, `BlocksSmall` over every C13 history, every
    world; the only condition is `srcBytes src < 2^64` for each backup step), `unchanged_statement_after_history`.
§5  C02h — Props/GapsC02h.lean: `backup_keeps_blockRoot` (every world, no hypothesis),
    `backup_any_world_keeps_restore'` (no `blockRoot` hypothesis), `inv_statement_good'`.
All five files are in namespace `Conserve.Gaps`; this file imports the other four.
-/
set_option linter.unusedSimpArgs false
namespace Conserve.Gaps
open Conserve Conserve.Exact Conserve.Inv Conserve.Conf Conserve.Fault Conserve.Crash Conserve.Rng

/-! ## 1. C03r: killed during (or after) the tail write -/

section c03r
open Conserve.C03r

/-- **`interrupted_listing_tail_started`** (the gap of `C03r.interrupted_listing_spec`).  Setting of C03r:
a good archive `s` whose newest version `p` is complete, `backup H o src` of a good source killed before
mutating micro-step `j` — any `j` — without injected faults; `s'` the store it leaves, `sF` the store the
uninterrupted run leaves, `n = newBandOf s` the new version.  IF THE TAIL KEY OF `n` EXISTS IN `s'` —
holding the tail, or zero-length because the run was killed between the two micro-steps of the tail
write — then:

* `s'` and `sF` agree on every key but the tail (so the hunk files, block files, head are exactly those
  of the uninterrupted run; in particular the hunk numbers are the same), and the tail of `s'` is
  zero-length or the tail of `sF`, which states the hunk count;
* EVERY source entry has been recorded: `bandEntries s' n` records `src`, entry by entry and in order,
  and any prefix `pre` of `src` that `bandEntries s' n` records (the `pre` of
  `C03r.interrupted_listing_spec`) is `src` itself; the listing of `n` is these entries and takes nothing
  from the previous version;
* the readers: `Band::open(n)` succeeds (`headOutcome`), `Band::is_closed(n)` answers true (`isComplete`:
  the tail is a file, zero-length or not), `last_complete_band` returns `n`;
* restoring `n` — by id or as the latest complete version — returns exactly `src.map (expectedNode o)`
  and reports nothing. -/
theorem interrupted_listing_tail_started (H : Str → Str) (hinj : Function.Injective H) (hlen : HashLen H)
    (s : Store) (o : BackupOpts) (src : List SrcEntry) (p : Nat) (ho : 0 < o.maxBlockSize) (hsrc : SrcGood src)
    (hsw : C13.SrcSortedWeak src) (hst : Start H src s p) (j : Nat) :
    let s' := ((backup H o src).run (crashWorld s j)).2.store
    let sF := ((backup H o src).run (World.clean s)).2.store
    let n := newBandOf s
    (s'.get? (.bandTail n)).isSome = true →
      -- the store
      (∀ k, k ≠ .bandTail n → s'.get? k = sF.get? k) ∧
      (s'.get? (.bandTail n) = some .empty ∨ s'.get? (.bandTail n) = sF.get? (.bandTail n)) ∧
      (∃ c, sF.get? (.bandTail n) = some (.tail (some c)) ∧ hunkNumsOf s' n = List.range c ∧
        hunkNumsOf sF n = List.range c) ∧
      -- every source entry has been recorded
      Paired (Records H o s') src (bandEntries s' n) ∧
      (∀ pre, pre <+: src → Paired (Records H o s') pre (bandEntries s' n) → pre = src) ∧
      listSpec s' n = bandEntries s' n ∧
      -- the readers
      headOutcome s' n = .ok () ∧ isComplete s' n = true ∧
      (lastCompleteBand.run (World.clean s')).1 = .ok (some n) ∧
      -- the restore
      (restoreOf H n s').1 = .ok (src.map (expectedNode o)) ∧ (restoreOf H n s').2.events = [] ∧
      ((restore H .latestClosed [slash] (fun _ => false)).run (World.clean s')).1
        = .ok (src.map (expectedNode o)) ∧
      ((restore H .latestClosed [slash] (fun _ => false)).run (World.clean s')).2.events = [] := by
  intro s' sF n htail
  obtain ⟨sF', hs, stats, evs, h⟩ := backup_summary (o := o) hinj (fun d => hlen d) ho hsrc hst.good
  have hsF : sF = sF' := h.runs.clean.2.1
  obtain ⟨s2, c, hnone, hF, hcr⟩ :=
    crashed_tail_started (o := o) (fun d => hlen d) ho hsrc hst.good j htail
  have hF' : sF = s2.put (.bandTail n) (.tail (some c)) := hF
  have hcr' : s' = s2.put (.bandTail n) .empty ∨ s' = s2.put (.bandTail n) (.tail (some c)) := hcr
  -- agreement off the tail key
  have hagree : ∀ k, k ≠ .bandTail n → s'.get? k = sF.get? k := by
    intro k hk
    rw [hF']
    rcases hcr' with e | e <;> rw [e] <;> simp [get?_put, hk]
  have htailF : sF.get? (.bandTail n) = some (.tail (some c)) := by rw [hF']; simp [get?_put]
  have hc : c = hs.length := by
    have := h.final.tail
    rw [← hsF, htailF] at this
    simpa using this
  have htail' : s'.get? (.bandTail n) = some .empty ∨ s'.get? (.bandTail n) = sF.get? (.bandTail n) := by
    rcases hcr' with e | e
    · left; rw [e]; simp [get?_put]
    · right; rw [e, hF']
  have hfin : Final H o n s sF hs src := hsF ▸ h.final
  have hnd' : NoDupKeys s' := Prog.run_noDupKeys _ (crashWorld s j) hst.good.st.noDup
  have hn' : UniqueKeys s' := (uniqueKeys_iff_nodup _).2 hnd'
  have hnF : UniqueKeys sF := hfin.st.uniqueKeys
  -- the readers' view
  have hread : bandReadable s' n = true := by
    rw [Crash.bandReadable_congr (hagree _ (by simp)) (hagree _ (by simp))]
    exact final_readable hfin
  have hcomp : isComplete s' n = true := by
    unfold isComplete
    rcases htail' with e | e
    · rw [e]; rfl
    · rw [e, htailF]; rfl
  have hnums : hunkNumsOf s' n = hunkNumsOf sF n := hunkNumsOf_congr hnF hn' fun k => hagree _ (by simp)
  have hown : bandEntries s' n = hs.flatten := by
    unfold bandEntries
    rw [if_pos hread, ownEntries_congr hnF hn' fun k => hagree _ (by simp)]
    exact final_ownEntries hfin h.usable
  have hlist : listSpec s' n = bandEntries s' n := by simp [listSpec, hcomp]
  -- every source entry recorded
  have hlen' : hs.flatten.length = src.length := by
    have := congrArg List.length hfin.shape
    rw [List.length_map, List.length_map] at this
    exact this
  have huniq : ∀ pre, pre <+: src → Paired (Records H o s') pre (bandEntries s' n) → pre = src := by
    intro pre hpre hrec
    apply hpre.eq_of_length
    rw [Paired.length_eq hrec, hown, hlen']
  obtain ⟨pre, hpre, hrec, _, _⟩ := C03r.interrupted_listing_spec H hinj hlen s o src p ho hsrc hsw hst j
  have hpre' : pre = src := huniq pre hpre hrec
  subst hpre'
  have hrec' : Paired (Records H o s') pre (bandEntries s' n) := hrec
  -- the archive is good again
  have hg' : ArchiveGood H pre s' := crashed_archiveGood hinj hlen ho hsrc hsw hst j (fun _ => hread)
  have hhead : headOutcome s' n = .ok () := headOutcome_of_bandReadable hread
  have hmem : n ∈ bandIdsOf s' := by
    rw [Exact.mem_bandIdsOf hg'.st, hagree _ (by simp)]
    exact hfin.bandDir
  have hmax : ∀ b ∈ bandIdsOf s', b ≤ n := by
    intro b hb
    have hb' : b ∈ bandIdsOf sF' := by
      rw [Exact.mem_bandIdsOf h.final.st, ← hsF, ← hagree _ (by simp)]
      exact (Exact.mem_bandIdsOf hg'.st).1 hb
    exact h.bandIds_le hst.good.st b hb'
  -- the restore
  have hnb : NoneBelowSymlink (listSpec s' n) := by
    rw [hlist]
    refine noneBelow_of_src hsrc fun e he => ?_
    obtain ⟨sf, hsf, hr⟩ := paired_mem_right hrec' e he
    exact ⟨sf, hsf, hr.apath.symm, hr.kind.symm⟩
  obtain ⟨h1, h2⟩ := restore_nodes_of_good hg' hread hnb
  have hnodes : (listSpec s' n).map (nodeOf H s') = pre.map (expectedNode o) := by
    rw [hlist]; exact map_nodeOf_records (src := pre) hrec'
  rw [hnodes] at h1
  have hspec := (restore_specified_runs (H := H) hg'.wf hg'.st n).clean
  have hlat := (restore_latest_runs (H := H) hg'.wf hg'.st hmem hmax hhead hcomp).clean
  have hlcb := (lastCompleteBand_runs_newest hg'.st hmem hmax hhead hcomp).clean
  refine ⟨hagree, htail', ⟨c, htailF, ?_, ?_⟩, hrec', huniq, hlist, hhead, hcomp, hlcb.1, h1, h2, ?_, ?_⟩
  · rw [hnums, hc]; exact final_hunkNums hfin
  · rw [hc]; exact final_hunkNums hfin
  · rw [hlat.1, ← hspec.1]; exact h1
  · rw [hlat.2.2, ← hspec.2.2]; exact h2

/-- With the tail key present, "the same is true" of `C03r.interrupted_listing_spec`'s last clause: its
`pre` is the whole source — no matter whether the tail decodes. -/
theorem interrupted_listing_spec_full (H : Str → Str) (hinj : Function.Injective H) (hlen : HashLen H) (s : Store)
    (o : BackupOpts) (src : List SrcEntry) (p : Nat) (ho : 0 < o.maxBlockSize) (hsrc : SrcGood src)
    (hsw : C13.SrcSortedWeak src) (hst : Start H src s p) (j : Nat) :
    let s' := ((backup H o src).run (crashWorld s j)).2.store
    let n := newBandOf s
    ∃ pre, pre <+: src ∧ Paired (Records H o s') pre (bandEntries s' n) ∧
      listSpec s' n = bandEntries s' n ++ oldPart s s' p n ∧
      (isComplete s' n = true → pre = src) := by
  intro s' n
  obtain ⟨pre, hpre, hrec, hlist, _⟩ := C03r.interrupted_listing_spec H hinj hlen s o src p ho hsrc hsw hst j
  refine ⟨pre, hpre, hrec, hlist, fun hc => ?_⟩
  have htail : (s'.get? (.bandTail n)).isSome = true := by
    unfold isComplete at hc
    cases hg : s'.get? (.bandTail n) with
    | none => rw [hg] at hc; cases hc
    | some v => rfl
  exact (interrupted_listing_tail_started H hinj hlen s o src p ho hsrc hsw hst j htail).2.2.2.2.1 pre hpre hrec

/-- **The crash point of the gap exists and is covered**: for every setting of C03r there IS a crash point
`j` — between the two micro-steps of the tail write — at which the killed backup leaves a ZERO-LENGTH
tail; there the new version holds every source entry, is selected as the latest complete version, and
restores exactly the source. -/
theorem interrupted_tail_zero_length (H : Str → Str) (hinj : Function.Injective H) (hlen : HashLen H)
    (s : Store) (o : BackupOpts) (src : List SrcEntry) (p : Nat) (ho : 0 < o.maxBlockSize) (hsrc : SrcGood src)
    (hsw : C13.SrcSortedWeak src) (hst : Start H src s p) :
    ∃ j, let s' := ((backup H o src).run (crashWorld s j)).2.store
      s'.get? (.bandTail (newBandOf s)) = some .empty ∧
      Paired (Records H o s') src (bandEntries s' (newBandOf s)) ∧
      (lastCompleteBand.run (World.clean s')).1 = .ok (some (newBandOf s)) ∧
      ((restore H .latestClosed [slash] (fun _ => false)).run (World.clean s')).1
        = .ok (src.map (expectedNode o)) := by
  obtain ⟨j, hj⟩ := crashed_tail_zero_length (o := o) (fun d => hlen d) ho hsrc hst.good
  refine ⟨j, hj, ?_⟩
  have h := interrupted_listing_tail_started H hinj hlen s o src p ho hsrc hsw hst j
    (by show (Option.isSome ((crashed H o src s j).get? _)) = true; rw [hj]; rfl)
  exact ⟨h.2.2.2.1, h.2.2.2.2.2.2.2.2.1, h.2.2.2.2.2.2.2.2.2.2.2.1⟩

/-! ### Non-vacuity -/

namespace Example1
open C01a.Example C02h.Example C03r.Example

/-- The theorem applies to C03r's example archive (`s1`: the archive a first backup of the example source
left) and source, at every crash point that leaves the tail key. -/
example (j : Nat)
    (htail : (((backup exH {} source).run (crashWorld s1 j)).2.store.get? (.bandTail (newBandOf s1))).isSome = true) :
    let s' := ((backup exH {} source).run (crashWorld s1 j)).2.store
    Paired (Records exH {} s') source (bandEntries s' (newBandOf s1)) ∧
      (restoreOf exH (newBandOf s1) s').1 = .ok (source.map (expectedNode {})) :=
  let h := interrupted_listing_tail_started exH exH_inj hlen s1 {} source 0 (by decide) source_good
    source_sorted.weak s1_start j htail
  ⟨h.2.2.2.1, h.2.2.2.2.2.2.2.2.2.1⟩

/-- … and there is such a crash point with a zero-length tail (`#eval` of the model: `j = 8`). -/
example : ∃ j, ((backup exH {} source).run (crashWorld s1 j)).2.store.get? (.bandTail (newBandOf s1)) = some .empty :=
  let ⟨j, h, _⟩ := interrupted_tail_zero_length exH exH_inj hlen s1 {} source 0 (by decide) source_good
    source_sorted.weak s1_start
  ⟨j, h⟩

end Example1

end c03r

#print axioms interrupted_listing_tail_started
#print axioms interrupted_listing_spec_full
#print axioms interrupted_tail_zero_length

end Conserve.Gaps
