import ConserveModel.Restore
/-
C01 — Backup then restore reproduces the source tree exactly.

This file holds the C01 theorems proved so far on the model of `backup()`/`restore()`:
the building blocks of content fidelity (chunking, time conversion).  The end-to-end
statement `BackupRestoreExactStatement` is kept at full strength below; what is proved of it
is listed in its doc comment.
-/
namespace Conserve.C01
open Conserve

/-- Cutting file content into blocks of at most `n > 0` bytes and concatenating the blocks
gives the content back: large files lose and gain no bytes, for every size (empty, below,
equal to and above the block size, exact multiples). -/
theorem chunks_flatten (n : Nat) (hn : 0 < n) (data : Str) : (chunks n data).flatten = data := by
  induction hlen : data.length using Nat.strongRecOn generalizing data with
  | _ len ih =>
    unfold chunks
    split
    · rename_i h
      rcases h with h | h
      · omega
      · simp [h]
    · rename_i h
      have hne : data ≠ [] := fun e => h (Or.inr e)
      have hpos : 0 < data.length := List.length_pos_iff.mpr hne
      rw [List.flatten_cons, ih (data.drop n).length (by simp [List.length_drop]; omega) (data.drop n) rfl]
      exact List.take_append_drop n data

/-- Every block of a large file is non-empty and at most `n` bytes long. -/
theorem chunks_bounds (n : Nat) (hn : 0 < n) (data : Str) :
    ∀ c ∈ chunks n data, 0 < c.length ∧ c.length ≤ n := by
  induction hlen : data.length using Nat.strongRecOn generalizing data with
  | _ len ih =>
    unfold chunks
    split
    · simp
    · rename_i h
      have hne : data ≠ [] := fun e => h (Or.inr e)
      have hpos : 0 < data.length := List.length_pos_iff.mpr hne
      intro c hc
      rcases List.mem_cons.mp hc with rfl | hc
      · simp [List.length_take]; omega
      · exact ih (data.drop n).length (by simp [List.length_drop]; omega) (data.drop n) rfl c hc

/-- The stored modification time (whole seconds rounded down, non-negative nanoseconds)
reads back to exactly the source's time in nanoseconds, for every time jiff can
represent — before and after the epoch, with and without a fraction. -/
theorem mtime_roundtrip (t : Int)
    (hlo : -377705023201 * nanosPerSec ≤ t) (hhi : t < 253402207201 * nanosPerSec) :
    ∃ sec nanos, mtimeToIndex t = some (sec, nanos) ∧ nanos < 1000000000 ∧
      entryTimeNs sec nanos = some t := by
  have hpos : (0 : Int) < nanosPerSec := by decide
  refine ⟨t.fdiv nanosPerSec, (t.fmod nanosPerSec).toNat, rfl, ?_, ?_⟩
  · have h1 := Int.fmod_lt_of_pos t hpos
    have h0 := Int.fmod_nonneg_of_pos t hpos
    unfold nanosPerSec at *
    omega
  · have h1 := Int.fmod_lt_of_pos t hpos
    have h0 := Int.fmod_nonneg_of_pos t hpos
    have hdm := Int.fmod_add_mul_fdiv t nanosPerSec
    unfold entryTimeNs
    have hn : ¬ ((t.fmod nanosPerSec).toNat ≥ 2147483648) := by unfold nanosPerSec at *; omega
    have hn2 : ¬ ((t.fmod nanosPerSec).toNat > 999999999) := by unfold nanosPerSec at *; omega
    have hs : ¬ (t.fdiv nanosPerSec < -377705023201 ∨ t.fdiv nanosPerSec > 253402207200) := by
      unfold nanosPerSec at *
      omega
    simp only [hn, hn2, hs, if_false]
    congr 1
    have : ((t.fmod nanosPerSec).toNat : Int) = t.fmod nanosPerSec := Int.toNat_of_nonneg h0
    rw [this]
    unfold nanosPerSec at *
    omega

/-- The code before the repair of D3 did not satisfy this: −1.5 s panicked. -/
theorem mtime_truncating_refuted : mtimeToIndexTruncating (-1500000000) = none := by decide

-- non-vacuity: −1.5 s is inside the range and round-trips through the repaired conversion
example : mtimeToIndex (-1500000000) = some (-2, 500000000) := by decide
example : entryTimeNs (-2) 500000000 = some (-1500000000) := by decide

end Conserve.C01
