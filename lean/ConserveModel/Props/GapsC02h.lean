import ConserveModel.Proofs.GapBlockRoot
import ConserveModel.Props.C02h
/-
The "C02h gap": a backup never creates `d/`.

`C02h.backup_any_world_keeps_restore` (Props/C02h.lean) assumes `w.store.get? .blockRoot = some .dir`
and says in its doc comment: "`hroot` is only used to know that `d/` itself is left alone: an existing
directory is kept by `Extends`; that a backup never CREATES `d/` is true but not proved."  This file
proves it and removes the hypothesis.

What the hypothesis was used for, precisely.  `C02h.restore_congr` needs
`s'.get? .blockRoot = s.get? .blockRoot` (a restore starts with `list_blocks`, which lists `d/` and
fails iff `d/` is not a directory; nothing else of the restore looks at `d/` itself).  The original
proof got that equation from `Extends` — which only speaks about keys that ARE there: an existing
directory stays — so it had to assume that `d/` is there.  The missing case is `d/` absent (or a
file): then `Extends` allows the backup to create it (or, for a zero-length file, to fill it).  It does
not: no operation a backup can issue has `d/` as its key (`Rng.FineOp`: the directories created are
`bNNNN`, `bNNNN/i`, `bNNNN/i/DDDDD`, `d/xxx`; the files written are heads, hunks, tails, blocks; nothing
is removed), and `World.exec` changes the store at the key of the operation only
(`GapBlockRoot.exec_sparesKey`) — in every world: faults, crash between the two micro-steps of a write,
dead, `CreateNew` honoured or not.  So the equation holds outright (`backup_keeps_blockRoot`) and
`restore_congr` applies in all cases: when `d/` is missing both restores fail alike at `list_blocks`
(and every block write of the backup failed, the parent of `d/xxx` being missing — not needed for the
proof).

1. `backup_keeps_blockRoot` — every world, nothing assumed: `get? d/` after = before.
   (`backup_keeps_root`, `backup_keeps_header`: likewise the archive directory and `CONSERVE`;
   `delete_keeps_blockRoot`: likewise `delete_bands`, strict or not.)
2. `backup_never_creates_blockRoot`, `backup_never_removes_blockRoot` — the two readings.
3. `backup_any_world_keeps_restore'` — `C02h.backup_any_world_keeps_restore` WITHOUT the `blockRoot`
   hypothesis (all other hypotheses as there).  DONE, not partial, nothing refuted.
4. `InvStatementGood'` / `inv_statement_good'` — `C02h.InvStatementGood` without the `blockRoot`
   hypothesis, over histories of backup attempts.

Helper file: Proofs/GapBlockRoot.lean (`SparesKey`, `exec_sparesKey`, `run_sparesKey`,
`fineOp_spares_blockRoot`, `backup_spares_blockRoot`).
-/
namespace Conserve.Gaps
open Conserve Conserve.Exact Conserve.Hist Conserve.Inv Conserve.Conf Conserve.C02h Conserve.GapBlockRoot

/-! ## 1. `d/` is left alone, in every world -/

/-- **`backup_keeps_blockRoot`: a backup never touches `d/` itself.**  Take ANY world `w` — any store
(well-formed or not), any list of injected faults, any crash point (also between the two micro-steps
of a write), already dead or not, `CreateNew` honoured or not — any hash function, options and source
listing.  After `backup` ran in `w`, however it ended (success, error, panic, killed), the store holds
at the key `d/` exactly what it held before: the same directory, the same (stray) file, or nothing.
In particular a backup never creates `d/`, never removes it, never replaces it.  No hypothesis. -/
theorem backup_keeps_blockRoot (H : Str → Str) (o : BackupOpts) (src : List SrcEntry) (w : World) :
    ((backup H o src).run w).2.store.get? .blockRoot = w.store.get? .blockRoot :=
  run_sparesKey (backup_spares_blockRoot H o src) w

/-- A backup never creates `d/`: absent before, absent after — in every world. -/
theorem backup_never_creates_blockRoot (H : Str → Str) (o : BackupOpts) (src : List SrcEntry) (w : World)
    (h : w.store.get? .blockRoot = none) : ((backup H o src).run w).2.store.get? .blockRoot = none := by
  rw [backup_keeps_blockRoot]; exact h

/-- A backup never removes or replaces `d/`: a directory before, a directory after — in every world
(also one that does not honour `CreateNew`; `Extends` gives this only when it is honoured). -/
theorem backup_never_removes_blockRoot (H : Str → Str) (o : BackupOpts) (src : List SrcEntry) (w : World)
    (h : w.store.get? .blockRoot = some .dir) : ((backup H o src).run w).2.store.get? .blockRoot = some .dir := by
  rw [backup_keeps_blockRoot]; exact h

/-- Likewise a backup never touches the archive directory itself, in every world. -/
theorem backup_keeps_root (H : Str → Str) (o : BackupOpts) (src : List SrcEntry) (w : World) :
    ((backup H o src).run w).2.store.get? .root = w.store.get? .root :=
  run_sparesKey (backup_spares_root H o src) w

/-- Likewise a backup never touches the `CONSERVE` header, in every world. -/
theorem backup_keeps_header (H : Str → Str) (o : BackupOpts) (src : List SrcEntry) (w : World) :
    ((backup H o src).run w).2.store.get? .header = w.store.get? .header :=
  run_sparesKey (backup_spares_header H o src) w

/-- `delete_bands` (strict or as shipped, any versions, any options) never touches `d/` itself
either, in every world and with no hypothesis on the archive (`C05.delete_frame_any_world` has this
for the strict mode). -/
theorem delete_keeps_blockRoot (strict : Bool) (D : List Nat) (o : DeleteOpts) (w : World) :
    ((deleteBands strict D o).run w).2.store.get? .blockRoot = w.store.get? .blockRoot :=
  run_sparesKey (deleteBands_spares_blockRoot strict D o) w

/-! ## 2. `backup_any_world_keeps_restore` without the `blockRoot` hypothesis -/

/-- **`backup_any_world_keeps_restore'` — `C02h.backup_any_world_keeps_restore` with the hypothesis
"`d/` is a directory" REMOVED.**  Take ANY world `w` — any faults, any crash point, dead or not — that
honours `CreateNew`, any options, any source listing.  If the archive `w.store` is a map (no path
twice), version `b` has a directory and a tail, and the blocks its entries name are present and not
zero-length, then after `backup` ran in `w` (however it ended) restoring `b` gives the same result and
reports the same events as before.  `d/` may be a directory, missing, or a file: in the last two cases
the restore fails at `list_blocks`, with the same error before and after
(`backup_keeps_blockRoot`).  Hypotheses, exactly: `w.enforceCreateNew = true`, `NoDupKeys w.store`,
`w.store.get? (.bandDir b) = some .dir`, `isComplete w.store b = true`, `RefsPresent w.store b`. -/
theorem backup_any_world_keeps_restore' (H : Str → Str) (o : BackupOpts) (src : List SrcEntry) (w : World)
    (b : Nat) (he : w.enforceCreateNew = true) (hn : NoDupKeys w.store)
    (hdir : w.store.get? (.bandDir b) = some .dir) (hc : isComplete w.store b = true)
    (hrefs : RefsPresent w.store b) :
    SameRestore H b w.store ((backup H o src).run w).2.store := by
  have hx : Extends w.store ((backup H o src).run w).2.store :=
    Prog.run_extends (backup_createOnly H o src) w he
  refine restore_congr H hn (Prog.run_noDupKeys _ w hn) hc (backup_bandSame H o src w hdir)
    (backup_keeps_blockRoot H o src w) ?_
  intro n es hh e hee a ha
  obtain ⟨v, hv, hne⟩ := hrefs n es hh e hee a ha
  exact blockContent_of_extends hx hv hne

/-- The original theorem is the special case `d/` a directory. -/
theorem backup_any_world_keeps_restore_of' (H : Str → Str) (o : BackupOpts) (src : List SrcEntry) (w : World)
    (b : Nat) (he : w.enforceCreateNew = true) (hn : NoDupKeys w.store)
    (_hroot : w.store.get? .blockRoot = some .dir)
    (hdir : w.store.get? (.bandDir b) = some .dir) (hc : isComplete w.store b = true)
    (hrefs : RefsPresent w.store b) :
    SameRestore H b w.store ((backup H o src).run w).2.store :=
  backup_any_world_keeps_restore' H o src w b he hn hdir hc hrefs

/-! ## 3. Histories of backup attempts, without the `blockRoot` hypothesis -/

/-- `C02h.InvStatementGood` without "`d/` is a directory": the archive is a map, version `b` has a
directory and a tail, and the blocks its entries name are present.  Histories: `C07.Attempt` — backups
with any options, sources, fault lists and crash points. -/
def InvStatementGood' (H : Str → Str) : Prop :=
  ∀ (s : Store) (b : Nat) (hist : List C07.Attempt),
    NoDupKeys s → s.get? (.bandDir b) = some .dir → isComplete s b = true → RefsPresent s b →
    SameRestore H b s (C07.runHistory H hist s)

/-- **The restated property holds**, for every `H`, whatever `d/` is: induction over the attempts, each
step being `backup_any_world_keeps_restore'`. -/
theorem inv_statement_good' (H : Str → Str) : InvStatementGood' H := by
  intro s b hist
  induction hist generalizing s with
  | nil => intro _ _ _ _; exact SameRestore.refl H b s
  | cons a rest ih =>
    intro hn hdir hc hrefs
    let w : World := { store := s, faults := a.faults, crashAt := a.crashAt }
    have hx : Extends s ((backup H a.opts a.src).run w).2.store :=
      Prog.run_extends (backup_createOnly H a.opts a.src) w rfl
    have hsame : BandSame s ((backup H a.opts a.src).run w).2.store b := backup_bandSame H a.opts a.src w hdir
    have h1 := backup_any_world_keeps_restore' H a.opts a.src w b rfl hn hdir hc hrefs
    have hv : VersionOK ((backup H a.opts a.src).run w).2.store b :=
      (VersionOK.mk hc hrefs).of_same hsame (fun n es _ e _ a' _ v hv1 hv2 => hx.keeps hv1 hv2)
    have h2 := ih ((backup H a.opts a.src).run w).2.store (Prog.run_noDupKeys _ w hn)
      (by rw [hsame _ (by simp [Key.isUnder])]; exact hdir) hv.complete hv.refs
    exact h1.trans h2

/-- The version with the hypothesis (`C02h.InvStatementGood`) follows. -/
theorem inv_statement_good_of' (H : Str → Str) : C02h.InvStatementGood H :=
  fun s b hist hn _ hdir hc hrefs => inv_statement_good' H s b hist hn hdir hc hrefs

/-! ## Non-vacuity -/

namespace Example
open C01a.Example C02h.Example

/-- `backup_keeps_blockRoot` on the example archive `C02h.Example.s1` in the world with an injected
fault that is killed before micro-step 9: `d/` is still the directory it was. -/
example : ((backup exH {} source).run { badWorld with store := s1 }).2.store.get? .blockRoot = some .dir :=
  backup_never_removes_blockRoot exH {} source { badWorld with store := s1 } (ci_blockRoot s1_ci)

/-- `backup_any_world_keeps_restore'` applies to `s1`, version 0, and that world (here `d/` exists). -/
example : SameRestore exH 0 s1 ((backup exH {} source).run { badWorld with store := s1 }).2.store :=
  backup_any_world_keeps_restore' exH {} source { badWorld with store := s1 } 0 rfl s1_ci.nodup
    (dir_of_complete s1_ci.dirs s1_version.complete) s1_version.complete s1_version.refs

/-- An archive WITHOUT `d/` (somebody removed it): header, and a complete, empty version 0. -/
def noD : Store :=
  [(.root, .dir), (.header, .header [48, 46, 54]), (.bandDir 0, .dir), (.bandHead 0, .head .ok []),
   (.indexDir 0, .dir), (.bandTail 0, .tail (some 0))]

/-- `noD` is a map. -/
theorem noD_nodup : NoDupKeys noD := by unfold NoDupKeys; decide

/-- `noD` has no `d/`. -/
theorem noD_blockRoot : noD.get? .blockRoot = none := by decide

/-- Version 0 of `noD` has no hunks, so names no blocks. -/
theorem noD_refs : RefsPresent noD 0 := by
  intro n es hh
  have hnone : hunkAt noD 0 n = none := rfl
  rw [hnone] at hh
  cases hh

/-- Version 0 of `noD` has a directory. -/
theorem noD_dir : noD.get? (.bandDir 0) = some .dir := by decide

/-- Version 0 of `noD` has a tail. -/
theorem noD_complete : isComplete noD 0 = true := by decide

/-- The hypotheses of `backup_any_world_keeps_restore'` hold of `noD` — where the hypothesis of the
original theorem fails — in every world: the new theorem covers a case the old one did not. -/
example (w : World) (he : w.enforceCreateNew = true) :
    SameRestore exH 0 noD ((backup exH {} source).run { w with store := noD }).2.store :=
  backup_any_world_keeps_restore' exH {} source { w with store := noD } 0 he noD_nodup noD_dir noD_complete
    noD_refs

/-- … and `d/` is still missing afterwards, in every world. -/
example (w : World) : ((backup exH {} source).run { w with store := noD }).2.store.get? .blockRoot = none :=
  backup_never_creates_blockRoot exH {} source { w with store := noD } noD_blockRoot

/-- The backup on `noD` is not a no-op: in the fault-free world it creates version 1 (directory and
head) and then fails, listing `d/` — the store changed, `d/` did not appear. -/
example :
    let s' := ((backup id {} []).run (World.clean noD)).2.store
    s'.get? (.bandDir 1) = some .dir ∧ s'.get? (.bandHead 1) = some (.head .ok []) ∧
      s'.get? .blockRoot = none := by
  decide +kernel

/-- `InvStatementGood'` applies to `noD`, version 0, for every history of attempts. -/
example (h : List C07.Attempt) : SameRestore exH 0 noD (C07.runHistory exH h noD) :=
  inv_statement_good' exH noD 0 h noD_nodup noD_dir noD_complete noD_refs

/-- `delete_keeps_blockRoot` on C05's example archive, killed before its third mutating micro-step. -/
example : ((deleteBands true [0] {}).run { store := C05.exStore, crashAt := some 2 }).2.store.get? .blockRoot =
    C05.exStore.get? .blockRoot :=
  delete_keeps_blockRoot true [0] {} { store := C05.exStore, crashAt := some 2 }

end Example

#print axioms backup_keeps_blockRoot
#print axioms backup_never_creates_blockRoot
#print axioms backup_never_removes_blockRoot
#print axioms backup_keeps_root
#print axioms backup_keeps_header
#print axioms delete_keeps_blockRoot
#print axioms backup_any_world_keeps_restore'
#print axioms inv_statement_good'

end Conserve.Gaps
