import ConserveModel.Apath
/-
Specification side for paths: the documented order, components, ancestors.
-/
namespace Conserve

/-- Sort key: every directory component flagged 1, the final name flagged 0. -/
def keysOf (o : Str) : List Str → List Str
  | [] => [0 :: o]
  | c :: cs => (1 :: o) :: keysOf c cs

def keys (a : Str) : List Str :=
  match splitSlash a with
  | o :: cs => keysOf o cs
  | [] => []

/-- The documented rule (doc/format.md): split into a directory part and a final name;
compare the directory parts first — component by component, byte-wise — and the names
only if the directories are equal.  A shorter directory part that is a prefix of the
longer sorts first. -/
def docCmp (a b : Str) : Ordering :=
  let pa := splitSlash a
  let pb := splitSlash b
  match compare pa.dropLast pb.dropLast with
  | .eq => compare pa.getLast? pb.getLast?
  | o => o

/-- Components of a path below the root: `/a/b` ↦ [a, b]; `/` ↦ []. -/
def components (a : Str) : List Str :=
  match a with
  | [] => []
  | _ :: rest => if rest.isEmpty then [] else splitSlash rest

/-- `s` is `a` or an ancestor directory of `a`, by whole components. -/
def isAncestorOrSelf (s a : Str) : Bool := (components s).isPrefixOf (components a)

/-- Join pieces with slashes (inverse of `splitSlash`). -/
def joinSlash : List Str → Str
  | [] => []
  | [p] => p
  | p :: q :: ps => p ++ slash :: joinSlash (q :: ps)

end Conserve
