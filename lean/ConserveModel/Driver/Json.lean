import ConserveModel.Basic
import ConserveModel.Json
import ConserveModel.Driver.StoreIO
/-
Line protocol for Json.lean (C13 j).
  jsonhunk s:<hex of the decompressed hunk bytes>
      → `ok <n>`, then one line `entry <text>` per entry (the text form of `IO.showEntry`, the same
        form the harness prints with `absarch::entry_text`), then `rerender same|different`
        (is `renderHunk` of the parsed entries byte-identical to the input?)
      | `reject`
  jsonrender <entry text>;<entry text>;…   (or `-` for the empty list)
      → `s:<hex of renderHunk>`
  jsonhead s:<hex of a BANDHEAD file>  → `ok <start_time> <-|x<hex version>> <-|x<hex flag>,…>`, `rerender same|different` | `reject`
  jsontail s:<hex of a BANDTAIL file>  → `ok <end_time> <-|count>`, `rerender same|different` | `reject`
  jsonstr s:<hex>        → `s:<hex of renderString>`
  jsonparsestr s:<hex>   → `ok s:<hex of the decoded bytes> s:<hex of the rest>` | `reject`
                           (input starts after the opening quote)
-/
namespace Conserve.Json

def handleJson (toks : List String) : Option (List String) :=
  match toks with
  | ["jsonhunk", b] => some <|
    match parseBytes b with
    | none => ["bad-op"]
    | some bytes =>
      match parseHunk bytes with
      | none => ["reject"]
      | some es =>
        [s!"ok {es.length}"] ++ es.map (fun e => "entry " ++ IO.showEntry e) ++
          [if renderHunk es = bytes then "rerender same" else "rerender different"]
  | ["jsonrender", t] => some <|
    if t = "-" then [showStr (renderHunk [])]
    else match (t.splitOn ";").mapM IO.parseEntry with
      | none => ["bad-op"]
      | some es => [showStr (renderHunk es)]
  | ["jsonstr", b] => some <|
    match parseBytes b with
    | none => ["bad-op"]
    | some bytes => [showStr (renderString bytes)]
  | ["jsonparsestr", b] => some <|
    match parseBytes b with
    | none => ["bad-op"]
    | some bytes =>
      match parseStrBody bytes.length bytes with
      | none => ["reject"]
      | some (s, r) => [s!"ok {showStr s} {showStr r}"]
  | ["jsonhead", b] => some <|
    match parseBytes b with
    | none => ["bad-op"]
    | some bytes =>
      match parseHead bytes with
      | none => ["reject"]
      | some h =>
        [s!"ok {h.startTime} {IO.showOpt (fun s => "x" ++ hexEncode s) h.bandFormatVersion} " ++
            (if h.formatFlags.isEmpty then "-" else ",".intercalate (h.formatFlags.map fun f => "x" ++ hexEncode f)),
         if renderHead h = bytes then "rerender same" else "rerender different"]
  | ["jsontail", b] => some <|
    match parseBytes b with
    | none => ["bad-op"]
    | some bytes =>
      match parseTail bytes with
      | none => ["reject"]
      | some t =>
        [s!"ok {t.endTime} {IO.showOpt toString t.indexHunkCount}",
         if renderTail t = bytes then "rerender same" else "rerender different"]
  | _ => none

end Conserve.Json
