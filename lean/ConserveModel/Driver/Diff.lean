import ConserveModel.Basic
import ConserveModel.Diff
/-
Line protocol for Diff.lean (C18).

An entry is 8 tokens, the `EntryTrait` view:
  kind(f|d|l|u) mtimeSec mtimeNanos size-or-`-` mode-or-`-` user(`s:hex`|`-`) group(`s:hex`|`-`)
  target(`s:hex`|`-`)
The instant is mtimeSec·10⁹ + mtimeNanos (nanos may be negative: `subsec_nanosecond()`).

  diffmeta <entryA> <entryB>  → changed | unchanged            (`EntryChange::diff_metadata`)

A listed entry is 9 tokens: apath(`s:hex`) followed by an entry.  On the A (index) side the
time tokens are the RAW stored fields (`mtime`, `mtime_nanos`), size is Σ addr.len; on the B
(source) side size is `-` unless a file and mode is never `-`.
  difflist <0|1> <nA> <A entries…> <nB> <B entries…>
      → one line `<apath> <unchanged|added|deleted|changed>` per reported change,
        or the single line `panic <site>`                       (`diff(..).collect()`)
  events <nA> <A entries…> <nB> <B entries…>
      → the same format for the `change_callback` events of a backup of B over basis A
-/
namespace Conserve.DM

def parseKind : String → Option Kind
  | "f" => some .file | "d" => some .dir | "l" => some .symlink | "u" => some .unknown
  | _ => none

def parseOptNat (t : String) : Option (Option Nat) :=
  if t = "-" then some none else t.toNat?.map some

def parseOptStr (t : String) : Option (Option Str) :=
  if t = "-" then some none else (parseBytes t).map some

def parseEntryMeta : List String → Option EntryMeta
  | [k, s, n, sz, m, u, g, t] => do
    let kind ← parseKind k
    let sec ← parseInt s
    let nanos ← parseInt n
    let size ← parseOptNat sz
    let mode ← parseOptNat m
    let user ← parseOptStr u
    let group ← parseOptStr g
    let target ← parseOptStr t
    some { kind, mtime := sec * nsPerSec + nanos, size, mode, user, group, target }
  | _ => none

def parseIndexEntry : List String → Option IndexEntry
  | [p, k, s, n, sz, m, u, g, t] => do
    let apath ← parseBytes p
    let kind ← parseKind k
    let mtime ← parseInt s
    let mtimeNanos ← n.toNat?
    let size ← sz.toNat?
    let unixMode ← parseOptNat m
    let user ← parseOptStr u
    let group ← parseOptStr g
    let target ← parseOptStr t
    some { apath, kind, mtime, mtimeNanos, unixMode, user, group,
           addrs := if size = 0 then [] else [{ hash := [], start := 0, len := size }], target }
  | _ => none

def parseSrcEntry : List String → Option SrcEntry
  | [p, k, s, n, sz, m, u, g, t] => do
    let apath ← parseBytes p
    let kind ← parseKind k
    let sec ← parseInt s
    let nanos ← parseInt n
    let size ← parseOptNat sz
    let unixMode ← m.toNat?
    let user ← parseOptStr u
    let group ← parseOptStr g
    let target ← parseOptStr t
    some { apath, kind, mtimeNs := sec * nsPerSec + nanos, unixMode, user, group,
           size := size.getD 0, target }
  | _ => none

def parseMany {α : Type} (f : List String → Option α) : Nat → List String → Option (List α × List String)
  | 0, rest => some ([], rest)
  | n + 1, toks => do
    let x ← f (toks.take 9)
    if toks.length < 9 then none
    let (xs, rest) ← parseMany f n (toks.drop 9)
    some (x :: xs, rest)

def showChangeKind : ChangeKind → String
  | .unchanged => "unchanged" | .added => "added" | .deleted => "deleted" | .changed => "changed"

def showChanges : Outcome (List (Str × ChangeKind)) → List String
  | .ok l => l.map fun (p, k) => s!"{showStr p} {showChangeKind k}"
  | .panic site => [s!"panic {site}"]

def parseTwoLists (toks : List String) : Option (List IndexEntry × List SrcEntry) :=
  match toks with
  | na :: rest => do
    let na ← na.toNat?
    let (A, rest) ← parseMany parseIndexEntry na rest
    match rest with
    | nb :: rest => do
      let nb ← nb.toNat?
      let (B, rest) ← parseMany parseSrcEntry nb rest
      if rest.isEmpty then some (A, B) else none
    | [] => none
  | [] => none

def handleDiff (toks : List String) : Option (List String) :=
  match toks with
  | "diffmeta" :: rest =>
    some (match parseEntryMeta (rest.take 8), parseEntryMeta (rest.drop 8) with
      | some a, some b => [showChangeKind (diffMetadata a b)]
      | _, _ => ["bad-op"])
  | "difflist" :: inc :: rest =>
    some (match inc, parseTwoLists rest with
      | "0", some (A, B) => showChanges (diffChecked A B false)
      | "1", some (A, B) => showChanges (diffChecked A B true)
      | _, _ => ["bad-op"])
  | "events" :: rest =>
    some (match parseTwoLists rest with
      | some (A, B) => showChanges (backupEvents A B)
      | none => ["bad-op"])
  | _ => none

end Conserve.DM
