import ConserveModel.Driver.StoreIO
/-
Stateful part of the driver: a current abstract store and source listing, and requests
that run the model's programs on them.
-/
namespace Conserve
namespace IO

structure DState where
  store : Store := []
  src : List SrcEntry := []
  enforce : Bool := true
  deriving Inhabited

def parseCrash (s : String) : Option (Option Nat) :=
  if s = "-" then some none else s.toNat?.map some

def showOutcome {α : Type} (f : α → String) : Outcome α → String
  | .ok a => "result ok " ++ f a
  | .err e => "result err " ++ showErr e
  | .panic s => "result panic " ++ (s.replace " " "_")

def runOn {α : Type} (st : DState) (crash : Option Nat) (faults : List Fault) (p : Prog α) : Outcome α × World :=
  p.run { store := st.store, enforceCreateNew := st.enforce, faults := faults, crashAt := crash }

def answer {α : Type} (st : DState) (r : Outcome α × World) (f : α → String) (extra : List String := []) :
    DState × List String :=
  let w := r.2
  ({ st with store := w.store },
   w.trace.reverse.map showTraceEv ++ w.events.reverse.map showEvent ++ extra ++
   [showOutcome f r.1, "steps " ++ toString w.steps ++ (if w.dead then " dead" else " alive")])

def parseSrc : List String → Option SrcEntry
  | [ap, k, mt, mode, u, g, size, content, target] => do
    pure { apath := ← hexDecodeAux ap.toList [], kind := ← parseKind k, mtimeNs := ← mt.toInt?,
           unixMode := ← mode.toNat?, user := ← parseOptHex u, group := ← parseOptHex g,
           size := ← size.toNat?, content := ← (if content = "-" then some [] else hexDecodeAux content.toList []),
           target := ← parseOptHex target }
  | _ => none

def exclOf (xs : List Str) : Str → Bool := fun a => xs.contains a

def parseSel (s : String) : Option BandSelection :=
  if s = "closed" then some .latestClosed
  else if s = "latest" then some .latest
  else (parseBandName s).map .specified

def step (st : DState) (toks : List String) : Option (DState × List String) :=
  match toks with
  | ["store-clear"] => some ({ st with store := [] }, [])
  | ["src-clear"] => some ({ st with src := [] }, [])
  | ["enforce", b] => some ({ st with enforce := b == "1" }, [])
  | ["put", p, v] =>
    match parseKey p, parseVal v with
    | some k, some v => some ({ st with store := st.store.put k v }, [])
    | _, _ => some (st, ["bad-op"])
  | "src" :: rest =>
    match parseSrc rest with
    | some e => some ({ st with src := st.src ++ [e] }, [])
    | none => some (st, ["bad-op"])
  | ["dump"] => some (st, dumpStore st.store)
  | "backup" :: me :: mb :: sc :: ow :: crash :: faults =>
    match me.toNat?, mb.toNat?, sc.toNat?, parseCrash crash, faults.mapM parseFault with
    | some me, some mb, some sc, some crash, some faults =>
      let o : BackupOpts := { maxEntriesPerHunk := me, maxBlockSize := mb, smallFileCap := sc, owner := ow == "1" }
      some (answer st (runOn st crash faults (do archiveOpen; backup blake2bHex o st.src)) showStats)
    | _, _, _, _, _ => some (st, ["bad-op"])
  | "delete" :: dry :: brk :: strict :: crash :: n :: rest =>
    match n.toNat?, parseCrash crash with
    | some n, some crash =>
      match (rest.take n).mapM parseBandName, (rest.drop n).mapM parseFault with
      | some D, some faults =>
        let o : DeleteOpts := { dryRun := dry == "1", breakLock := brk == "1" }
        some (answer st (runOn st crash faults (do archiveOpen; deleteBands (strict == "1") D o)) showDeleteStats)
      | _, _ => some (st, ["bad-op"])
    | _, _ => some (st, ["bad-op"])
  | "validate" :: mode :: faults =>
    match faults.mapM parseFault with
    | some faults => some (answer st (runOn st none faults (do archiveOpen; validate blake2bHex (mode == "quick"))) (fun _ => ""))
    | none => some (st, ["bad-op"])
  | "list" :: b :: sub :: n :: rest =>
    match parseSel b, parseBytes sub, n.toNat? with
    | some b, some sub, some n =>
      match (rest.take n).mapM parseBytes, (rest.drop n).mapM parseFault with
      | some ex, some faults =>
        let r := runOn st none faults (do archiveOpen; listVersion b sub (exclOf ex))
        let lines := match r.1 with
          | .ok es => es.map fun e => "entry " ++ showEntry e
          | _ => []
        some (answer st r (fun _ => "") lines)
      | _, _ => some (st, ["bad-op"])
    | _, _, _ => some (st, ["bad-op"])
  | "restore" :: sel :: sub :: n :: rest =>
    match parseSel sel, parseBytes sub, n.toNat? with
    | some sel, some sub, some n =>
      match (rest.take n).mapM parseBytes, (rest.drop n).mapM parseFault with
      | some ex, some faults =>
        let r := runOn st none faults (do archiveOpen; restore blake2bHex sel sub (exclOf ex))
        let lines := match r.1 with
          | .ok ns => ns.map showRNode
          | _ => []
        some (answer st r (fun _ => "") lines)
      | _, _ => some (st, ["bad-op"])
    | _, _, _ => some (st, ["bad-op"])
  | ["resolve", sel] =>
    match parseSel sel with
    | some sel => some (answer st (runOn st none [] (do archiveOpen; resolveBandId sel)) (fun b => bandName b))
    | none => some (st, ["bad-op"])
  | _ => none

end IO
end Conserve
