import ConserveModel.Driver.StoreIO
import ConserveModel.Conc
import ConserveModel.Invariants
/-
Stateful part of the driver: a current abstract store and source listing, and requests
that run the model's programs on them.
-/
namespace Conserve
namespace IO

structure DState where
  store : Store := []
  src : List SrcEntry := []
  enforce : Bool := true
  /-- saved source listings, for actors with differing sources -/
  slots : List (Nat × List SrcEntry) := []
  deriving Inhabited

def parseCrash (s : String) : Option (Option Nat) :=
  if s = "-" then some none else s.toNat?.map some

def showOutcome {α : Type} (f : α → String) : Outcome α → String
  | .ok a => "result ok " ++ f a
  | .err e => "result err " ++ showErr e
  | .panic s => "result panic " ++ (s.replace " " "_")

def runOn {α : Type} (st : DState) (crash : Option Nat) (faults : List Fault) (p : Prog α) : Outcome α × World :=
  p.run { store := st.store, enforceCreateNew := st.enforce, faults := faults, crashAt := crash }

def answer {α : Type} (st : DState) (r : Outcome α × World) (f : α → String) (extra : List String := []) :
    DState × List String :=
  let w := r.2
  ({ st with store := w.store },
   w.trace.reverse.map showTraceEv ++ w.events.reverse.map showEvent ++ extra ++
   [showOutcome f r.1, "steps " ++ toString w.steps ++ (if w.dead then " dead" else " alive")])

def parseSrc : List String → Option SrcEntry
  | [ap, k, mt, mode, u, g, size, content, target] => do
    pure { apath := ← hexDecodeAux ap.toList [], kind := ← parseKind k, mtimeNs := ← mt.toInt?,
           unixMode := ← mode.toNat?, user := ← parseOptHex u, group := ← parseOptHex g,
           size := ← size.toNat?, content := ← (if content = "-" then some [] else hexDecodeAux content.toList []),
           target := ← parseOptHex target }
  | _ => none

def exclOf (xs : List Str) : Str → Bool := fun a => xs.contains a

def parseSel (s : String) : Option BandSelection :=
  if s = "closed" then some .latestClosed
  else if s = "latest" then some .latest
  else (parseBandName s).map .specified

/-- An actor of a schedule: `backup:<me>:<mb>:<sc>:<slot>` or `delete:<dry>:<strict>:<b,b,…|->`. -/
inductive ActorSpec
  | backup (o : BackupOpts) (slot : Nat)
  | delete (dry strict : Bool) (bands : List Nat)

def parseActor (s : String) : Option ActorSpec :=
  match s.splitOn ":" with
  | ["backup", me, mb, sc, slot] => do
    pure (.backup { maxEntriesPerHunk := ← me.toNat?, maxBlockSize := ← mb.toNat?, smallFileCap := ← sc.toNat? } (← slot.toNat?))
  | ["delete", dry, strict, bands] => do
    let bs ← if bands = "-" then some [] else (bands.splitOn ",").mapM parseBandName
    pure (.delete (dry == "1") (strict == "1") bs)
  | _ => none

/-- Both kinds of actor as programs returning a printable result. -/
def actorProg (st : DState) : ActorSpec → Prog String
  | .backup o slot => do
    archiveOpen
    let stats ← backup blake2bHex o ((st.slots.lookup slot).getD [])
    pure (showStats stats)
  | .delete dry strict bands => do
    archiveOpen
    let stats ← deleteBands strict bands { dryRun := dry }
    pure (showDeleteStats stats)

def showActor (tag : String) (a : Actor String) : List String :=
  a.trace.reverse.map (fun ev => tag ++ " " ++ showTraceEv ev) ++
  a.events.reverse.map (fun ev => tag ++ " " ++ showEvent ev) ++
  [tag ++ " " ++ (match a.outcome with
    | some o => showOutcome id o
    | none => "result unfinished")]

def step (st : DState) (toks : List String) : Option (DState × List String) :=
  match toks with
  | ["src-save", n] =>
    match n.toNat? with
    | some n => some ({ st with slots := (n, st.src) :: st.slots.filter (·.1 != n) }, [])
    | none => some (st, ["bad-op"])
  | ["sched", sched, a, b] =>
    match parseActor a, parseActor b with
    | some a, some b =>
      let schedule := sched.toList.filterMap fun c => if c == '0' then some false else if c == '1' then some true else none
      let (s', a', b') := runSched st.enforce schedule st.store (Actor.start (actorProg st a)) (Actor.start (actorProg st b))
      some ({ st with store := s' }, showActor "A" a' ++ showActor "B" b')
    | _, _ => some (st, ["bad-op"])
  | ["store-clear"] => some ({ st with store := [] }, [])
  | ["src-clear"] => some ({ st with src := [] }, [])
  | ["enforce", b] => some ({ st with enforce := b == "1" }, [])
  | ["put", p, v] =>
    match parseKey p, parseVal v with
    | some k, some v => some ({ st with store := st.store.put k v }, [])
    | _, _ => some (st, ["bad-op"])
  | "src" :: rest =>
    match parseSrc rest with
    | some e => some ({ st with src := st.src ++ [e] }, [])
    | none => some (st, ["bad-op"])
  | ["dump"] => some (st, dumpStore st.store)
  | ["check", "conforms"] =>
    let bad := (bandIdsOf st.store).filter fun b => !bandConforms blake2bHex st.store b
    some (st, [toString (Conforms blake2bHex st.store) ++
      (if bad.isEmpty then "" else " bands:" ++ ",".intercalate (bad.map bandName)) ++
      (if blocksConform blake2bHex st.store then "" else " blocks")])
  | "backup" :: me :: mb :: sc :: ow :: crash :: faults =>
    match me.toNat?, mb.toNat?, sc.toNat?, parseCrash crash, faults.mapM parseFault with
    | some me, some mb, some sc, some crash, some faults =>
      let o : BackupOpts := { maxEntriesPerHunk := me, maxBlockSize := mb, smallFileCap := sc, owner := ow == "1" }
      some (answer st (runOn st crash faults (do archiveOpen; backup blake2bHex o st.src)) showStats)
    | _, _, _, _, _ => some (st, ["bad-op"])
  | "delete" :: dry :: brk :: strict :: crash :: n :: rest =>
    match n.toNat?, parseCrash crash with
    | some n, some crash =>
      match (rest.take n).mapM parseBandName, (rest.drop n).mapM parseFault with
      | some D, some faults =>
        let o : DeleteOpts := { dryRun := dry == "1", breakLock := brk == "1" }
        some (answer st (runOn st crash faults (do archiveOpen; deleteBands (strict == "1") D o)) showDeleteStats)
      | _, _ => some (st, ["bad-op"])
    | _, _ => some (st, ["bad-op"])
  | "validate" :: mode :: faults =>
    match faults.mapM parseFault with
    | some faults => some (answer st (runOn st none faults (do archiveOpen; validate blake2bHex (mode == "quick"))) (fun _ => ""))
    | none => some (st, ["bad-op"])
  | "list" :: b :: sub :: n :: rest =>
    match parseSel b, parseBytes sub, n.toNat? with
    | some b, some sub, some n =>
      match (rest.take n).mapM parseBytes, (rest.drop n).mapM parseFault with
      | some ex, some faults =>
        let r := runOn st none faults (do archiveOpen; listVersion b sub (exclOf ex))
        let lines := match r.1 with
          | .ok es => es.map fun e => "entry " ++ showEntry e
          | _ => []
        some (answer st r (fun _ => "") lines)
      | _, _ => some (st, ["bad-op"])
    | _, _, _ => some (st, ["bad-op"])
  | "restore" :: sel :: sub :: n :: rest =>
    match parseSel sel, parseBytes sub, n.toNat? with
    | some sel, some sub, some n =>
      match (rest.take n).mapM parseBytes, (rest.drop n).mapM parseFault with
      | some ex, some faults =>
        let r := runOn st none faults (do archiveOpen; restore blake2bHex sel sub (exclOf ex))
        let lines := match r.1 with
          | .ok ns => ns.map showRNode
          | _ => []
        some (answer st r (fun _ => "") lines)
      | _, _ => some (st, ["bad-op"])
    | _, _, _ => some (st, ["bad-op"])
  | ["resolve", sel] =>
    match parseSel sel with
    | some sel => some (answer st (runOn st none [] (do archiveOpen; resolveBandId sel)) (fun b => bandName b))
    | none => some (st, ["bad-op"])
  | _ => none

end IO
end Conserve
