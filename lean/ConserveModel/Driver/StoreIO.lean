import ConserveModel.Basic
import ConserveModel.Validate
import ConserveModel.Blake2b
/-
Text forms of keys, values, entries, operations and results for the line protocol.
Keys print as the real archive-relative paths.
-/
namespace Conserve
namespace IO

def strOfBytes (bs : Str) : String := String.ofList (bs.map fun b => Char.ofNat b)
def bytesOfStr (s : String) : Str := s.toList.map (·.toNat)

def padNat (width n : Nat) : String :=
  let s := toString n
  String.ofList (List.replicate (width - s.length) '0') ++ s

def bandName (b : Nat) : String := "b" ++ padNat 4 b

def renderKey : Key → String
  | .root => "."
  | .header => "CONSERVE"
  | .gcLock => "GC_LOCK"
  | .bandDir b => bandName b
  | .bandHead b => bandName b ++ "/BANDHEAD"
  | .bandTail b => bandName b ++ "/BANDTAIL"
  | .indexDir b => bandName b ++ "/i"
  | .hunkDir b d => bandName b ++ "/i/" ++ padNat 5 d
  | .hunk b s => bandName b ++ "/i/" ++ padNat 5 (s / hunksPerSubdir) ++ "/" ++ padNat 9 s
  | .blockRoot => "d"
  | .blockDir p => "d/" ++ strOfBytes p
  | .block h => "d/" ++ strOfBytes (h.take subdirNameChars) ++ "/" ++ strOfBytes h
  | .other p => "other:" ++ hexEncode p

def allDigits (s : String) : Bool := !s.isEmpty && s.toList.all Char.isDigit

def parseBandName (s : String) : Option Nat :=
  match s.toList with
  | 'b' :: rest => if allDigits (String.ofList rest) then (String.ofList rest).toNat? else none
  | _ => none

/-- Inverse of `renderKey` on the paths the harness produces. -/
def parseKey (s : String) : Option Key :=
  if s = "." then some .root
  else if s.startsWith "other:" then (hexDecodeAux (s.drop 6).toString.toList []).map .other
  else
    match s.splitOn "/" with
    | ["CONSERVE"] => some .header
    | ["GC_LOCK"] => some .gcLock
    | ["d"] => some .blockRoot
    | ["d", p] => some (.blockDir (bytesOfStr p))
    | ["d", _, h] => some (.block (bytesOfStr h))
    | [b] => (parseBandName b).map .bandDir
    | [b, "BANDHEAD"] => (parseBandName b).map .bandHead
    | [b, "BANDTAIL"] => (parseBandName b).map .bandTail
    | [b, "i"] => (parseBandName b).map .indexDir
    | [b, "i", d] => do
      let b ← parseBandName b
      if allDigits d then some (.hunkDir b (← d.toNat?)) else none
    | [b, "i", _, n] => do
      let b ← parseBandName b
      if allDigits n then some (.hunk b (← n.toNat?)) else none
    | _ => none

def showOpt (f : α → String) : Option α → String
  | none => "-"
  | some a => f a

def showKind : Kind → String
  | .file => "f" | .dir => "d" | .symlink => "l" | .unknown => "u"

def parseKind : String → Option Kind
  | "f" => some .file | "d" => some .dir | "l" => some .symlink | "u" => some .unknown
  | _ => none

def showAddr (a : Addr) : String := strOfBytes a.hash ++ ":" ++ toString a.start ++ ":" ++ toString a.len

def showEntry (e : IndexEntry) : String :=
  ",".intercalate [hexEncode e.apath, showKind e.kind, toString e.mtime, toString e.mtimeNanos,
    showOpt toString e.unixMode, showOpt (fun s => "x" ++ hexEncode s) e.user,
    showOpt (fun s => "x" ++ hexEncode s) e.group, showOpt (fun s => "x" ++ hexEncode s) e.target,
    if e.addrs.isEmpty then "-" else "+".intercalate (e.addrs.map showAddr)]

def parseOptHex (s : String) : Option (Option Str) :=
  if s = "-" then some none
  else match s.toList with
    | 'x' :: rest => (hexDecodeAux rest []).map some
    | _ => none

def parseAddr (s : String) : Option Addr :=
  match s.splitOn ":" with
  | [h, st, l] => do pure { hash := bytesOfStr h, start := ← st.toNat?, len := ← l.toNat? }
  | _ => none

def parseEntry (s : String) : Option IndexEntry :=
  match s.splitOn "," with
  | [ap, k, mt, ns, mode, u, g, t, ad] => do
    let apath ← hexDecodeAux ap.toList []
    let kind ← parseKind k
    let mtime ← mt.toInt?
    let nanos ← ns.toNat?
    let mode ← if mode = "-" then some none else mode.toNat?.map some
    let user ← parseOptHex u
    let group ← parseOptHex g
    let target ← parseOptHex t
    let addrs ← if ad = "-" then some [] else (ad.splitOn "+").mapM parseAddr
    pure { apath, kind, mtime, mtimeNanos := nanos, unixMode := mode, user, group, addrs, target }
  | _ => none

def showVer : VerClass → String
  | .absent => "absent" | .ok => "ok" | .tooNew => "toonew" | .invalid => "invalid"

def parseVer : String → Option VerClass
  | "absent" => some .absent | "ok" => some .ok | "toonew" => some .tooNew | "invalid" => some .invalid
  | _ => none

def showVal : FileVal → String
  | .dir => "dir"
  | .empty => "empty"
  | .lock => "lock"
  | .junk n => "junk:" ++ toString n
  | .header v => "header:" ++ hexEncode v
  | .head ver flags => "head:" ++ showVer ver ++ ":" ++ ",".intercalate (flags.map hexEncode)
  | .tail n => "tail:" ++ showOpt toString n
  | .blockData c => "block:" ++ hexEncode c
  | .hunk es => "hunk:" ++ ";".intercalate (es.map showEntry)

def parseVal (s : String) : Option FileVal :=
  if s = "dir" then some .dir
  else if s = "empty" then some .empty
  else if s = "lock" then some .lock
  else
    match s.splitOn ":" with
    | ["junk", n] => n.toNat?.map .junk
    | ["header", v] => (hexDecodeAux v.toList []).map .header
    | ["head", ver, flags] => do
      let ver ← parseVer ver
      let flags ← if flags = "" then some [] else (flags.splitOn ",").mapM fun f => hexDecodeAux f.toList []
      pure (.head ver flags)
    | ["tail", n] => if n = "-" then some (.tail none) else n.toNat?.map (fun k => .tail (some k))
    | ["block", c] => (hexDecodeAux c.toList []).map .blockData
    | "hunk" :: rest =>
      -- entries contain ':' inside addresses, so re-join
      let body := ":".intercalate rest
      if body = "" then some (.hunk []) else ((body.splitOn ";").mapM parseEntry).map .hunk
    | _ => none

def showErrKind : ErrKind → String
  | .notFound => "nf" | .alreadyExists => "ae" | .permissionDenied => "pd" | .other => "ot"

def parseErrKind : String → Option ErrKind
  | "nf" => some .notFound | "ae" => some .alreadyExists | "pd" => some .permissionDenied | "ot" => some .other
  | _ => none

def showVerb : Verb → String
  | .read => "read" | .write => "write" | .listDir => "list" | .createDir => "mkdir"
  | .metadata => "stat" | .removeFile => "rm" | .removeDirAll => "rmtree"

def parseVerb : String → Option Verb
  | "read" => some .read | "write" => some .write | "list" => some .listDir | "mkdir" => some .createDir
  | "stat" => some .metadata | "rm" => some .removeFile | "rmtree" => some .removeDirAll
  | _ => none

def showResp : Resp → String
  | .err e => "err:" ++ showErrKind e
  | _ => "ok"

def showTraceEv (ev : TraceEv) : String :=
  let v := match ev.op with
    | .write _ v m => showVal v ++ (if m == .createNew then " new" else " over")
    | _ => "- -"
  "op " ++ showVerb ev.op.verb ++ " " ++ renderKey ev.op.key ++ " " ++ v ++ " " ++ showResp ev.resp

def showErr : Err → String
  | .transport k => "transport:" ++ showErrKind k
  | .json => "json"
  | .notAnArchive => "not-an-archive"
  | .unsupportedArchiveVersion => "unsupported-archive-version"
  | .bandHeadMissing b => "band-head-missing:" ++ toString b
  | .unsupportedBandVersion b => "unsupported-band-version:" ++ toString b
  | .unsupportedBandFlags b => "unsupported-band-flags:" ++ toString b
  | .bandNotFound b => "band-not-found:" ++ toString b
  | .noCompleteBands => "no-complete-bands"
  | .archiveEmpty => "archive-empty"
  | .gcLockHeld => "gc-lock-held"
  | .deleteWithIncompleteBackup b => "delete-with-incomplete-backup:" ++ toString b
  | .gcLockHeldDuringBackup => "gc-lock-held-during-backup"
  | .listBlocks k => "list-blocks:" ++ showErrKind k
  | .blockCorrupt h => "block-corrupt:" ++ strOfBytes h
  | .blockTooShort h => "block-too-short:" ++ strOfBytes h
  | .blockMissing h => "block-missing:" ++ strOfBytes h
  | .restoreFileBlock a h => "restore-file-block:" ++ hexEncode a ++ ":" ++ strOfBytes h
  | .invalidMetadata => "invalid-metadata"
  | .destinationNotEmpty => "destination-not-empty"
  | .callback => "callback"

def showChange : ChangeKind → String
  | .added => "added" | .changed => "changed" | .unchanged => "unchanged" | .deleted => "deleted"

def showEvent : Event → String
  | .error e => "event error " ++ showErr e
  | .change a c => "event change " ++ hexEncode a ++ " " ++ showChange c

def showStats (s : Stats) : String :=
  " ".intercalate [
    "files=" ++ toString s.files, "symlinks=" ++ toString s.symlinks, "directories=" ++ toString s.directories,
    "unknown_kind=" ++ toString s.unknownKind, "unmodified_files=" ++ toString s.unmodifiedFiles,
    "modified_files=" ++ toString s.modifiedFiles, "new_files=" ++ toString s.newFiles,
    "replaced_damaged_blocks=" ++ toString s.replacedDamagedBlocks,
    "deduplicated_bytes=" ++ toString s.deduplicatedBytes, "uncompressed_bytes=" ++ toString s.uncompressedBytes,
    "deduplicated_blocks=" ++ toString s.deduplicatedBlocks, "written_blocks=" ++ toString s.writtenBlocks,
    "combined_blocks=" ++ toString s.combinedBlocks, "empty_files=" ++ toString s.emptyFiles,
    "small_combined_files=" ++ toString s.smallCombinedFiles, "single_block_files=" ++ toString s.singleBlockFiles,
    "multi_block_files=" ++ toString s.multiBlockFiles, "errors=" ++ toString s.errors]

def showDeleteStats (s : DeleteStats) : String :=
  " ".intercalate [
    "unreferenced_block_count=" ++ toString s.unreferencedBlockCount,
    "deleted_band_count=" ++ toString s.deletedBandCount,
    "deleted_block_count=" ++ toString s.deletedBlockCount,
    "deletion_errors=" ++ toString s.deletionErrors]

def showRNode (n : RNode) : String :=
  " ".intercalate ["node", hexEncode n.apath, showKind n.kind, hexEncode n.content, toString n.mtime, toString n.mtimeNanos,
    showOpt toString n.unixMode, showOpt (fun s => "x" ++ hexEncode s) n.user, showOpt (fun s => "x" ++ hexEncode s) n.group,
    showOpt (fun s => "x" ++ hexEncode s) n.target, if n.complete then "complete" else "partial"]

/-- fault token: `verb:path:nth:kind` -/
def parseFault (s : String) : Option Fault :=
  match s.splitOn "@" with
  | [v, p, n, k] => do
    pure { at_ := { verb := ← parseVerb v, key := ← parseKey p, nth := ← n.toNat? }, kind := ← parseErrKind k }
  | _ => none

def sortStrings (xs : List String) : List String := xs.mergeSort (fun a b => a ≤ b)

def dumpStore (s : Store) : List String :=
  sortStrings (s.map fun kv => "state " ++ renderKey kv.1 ++ " " ++ showVal kv.2)

end IO
end Conserve
