import ConserveModel.Basic
import ConserveModel.Mtime
/-
Line protocol for Mtime.lean (C01 b).
  mtime-enc <ns>            → ok <sec> <nanos> | panic <site>     (walk + `metadata_from`)
  mtime-rt <ns>             → ok <tv_sec> <tv_nsec> | panic <site> (… + read back + `to_file_time`)
  mtime-enc-pre, mtime-rt-pre <ns>                             (the conversions before commit 6ea0861)
  index-mtime <sec> <nanos> → ok <ns> | panic <site>               (`IndexEntry::mtime()`)
  index-rt <sec> <nanos>    → ok <tv_sec> <tv_nsec> | panic <site> (stored pair ↦ what restore hands to the OS)
  index-rt-pre <sec> <nanos>                                     (with `to_file_time` before commit 6ea0861)
  os-accepts <tv_sec> <tv_nsec> → some <ns> | none                 (`utimensat` range check)
-/
namespace Conserve.DM

def showPairOutcome : Outcome (Int × Nat) → String
  | .ok (s, n) => s!"ok {s} {n}"
  | .panic site => s!"panic {site}"

def handleMtime (toks : List String) : Option (List String) :=
  match toks with
  | ["mtime-enc", t] => some [match parseInt t with
      | some t => showPairOutcome (mtimeEncode t) | none => "bad-op"]
  | ["mtime-rt", t] => some [match parseInt t with
      | some t => showPairOutcome (mtimeRoundTrip t) | none => "bad-op"]
  | ["mtime-enc-pre", t] => some [match parseInt t with
      | some t => showPairOutcome (mtimeEncodePre t) | none => "bad-op"]
  | ["mtime-rt-pre", t] => some [match parseInt t with
      | some t => showPairOutcome (mtimeRoundTripPre t) | none => "bad-op"]
  | ["index-mtime", s, n] => some [match parseInt s, n.toNat? with
      | some s, some n => (match indexMtime s n with
          | .ok t => s!"ok {t}" | .panic site => s!"panic {site}")
      | _, _ => "bad-op"]
  | ["index-rt", s, n] => some [match parseInt s, n.toNat? with
      | some s, some n => showPairOutcome (restoredTime (.ok (s, n)))
      | _, _ => "bad-op"]
  | ["index-rt-pre", s, n] => some [match parseInt s, n.toNat? with
      | some s, some n => showPairOutcome (restoredTimePre (.ok (s, n)))
      | _, _ => "bad-op"]
  | ["os-accepts", s, n] => some [match parseInt s, n.toNat? with
      | some s, some n => (match osAccepts (s, n) with
          | some t => s!"some {t}" | none => "none")
      | _, _ => "bad-op"]
  | _ => none

end Conserve.DM
