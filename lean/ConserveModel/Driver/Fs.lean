import ConserveModel.Basic
import ConserveModel.Fs
/-
Line protocol for Fs.lean (C16): one request, everything on one line.

  fs-restore <overwrite 0|1> <oldorder 0|1> <dest> <umask> <k> <fsnode>×k <n> <rnode>×n <owner>*

  <dest>    hex of the absolute path string ("/sandbox/dest")
  <fsnode>  path,kind,content,target,mode,uid,gid,mtime     comma-separated, no spaces;
            path/content/target in hex ("-" = empty), kind d|f|l, mtime in ns or "now"
  <rnode>   apath,kind,content,mtime,nanos,mode|-,user|-,group|-,target|-,complete|partial
            (the fields of a `node …` line of the `restore` request; user/group/target as x<hex>)
  <owner>   u:<hexname>:<uid>  or  g:<hexname>:<gid>

Answer: `fsnode <path> <kind> <content|-> <target|-> <mode> <uid> <gid> <mtime|now>` for every
node of the final file system, `err <what> <apath> <errno|->` for every monitor error in order,
then `result ok` | `result err destination-not-empty` | `result err io:<errno>`.
-/
namespace Conserve.DFs
open Conserve

def hexOrEmpty (s : String) : Option Str :=
  if s = "-" || s = "" then some [] else hexDecodeAux s.toList []

def showHexOrDash (b : Str) : String := if b.isEmpty then "-" else hexEncode b

/-- "/a/b" ↦ ["a","b"]; "/" ↦ []. -/
def pathOfBytes (b : Str) : Path :=
  let rel := b.drop 1
  if rel.isEmpty then [] else splitSlash rel

def bytesOfPath (p : Path) : Str :=
  if p.isEmpty then [slash] else p.flatMap (fun c => slash :: c)

def parseFKind (s : String) : Option FKind :=
  if s = "d" then some .dir else if s = "f" then some .file else if s = "l" then some .symlink else none

def showFKind : FKind → String
  | .dir => "d" | .file => "f" | .symlink => "l"

def parseMtime (s : String) : Option Mtime :=
  if s = "now" then some .now else s.toInt?.map .at

def showMtime : Mtime → String
  | .now => "now" | .at t => toString t

def parseFsNode (tok : String) : Option (Path × FNode) :=
  match tok.splitOn "," with
  | [p, k, c, t, m, u, g, mt] => do
    pure (pathOfBytes (← hexOrEmpty p),
      { kind := ← parseFKind k, content := ← hexOrEmpty c, target := ← hexOrEmpty t,
        mode := ← m.toNat?, uid := ← u.toNat?, gid := ← g.toNat?, mtime := ← parseMtime mt })
  | _ => none

def parseOptX (s : String) : Option (Option Str) :=
  if s = "-" then some none
  else match s.toList with
    | 'x' :: rest => (hexDecodeAux rest []).map some
    | _ => none

def parseRKind (s : String) : Option Kind :=
  if s = "d" then some .dir else if s = "f" then some .file else if s = "l" then some .symlink
  else if s = "u" then some .unknown else none

def parseRNode (tok : String) : Option RNode :=
  match tok.splitOn "," with
  | [a, k, c, mt, ns, m, u, g, t, cp] => do
    pure { apath := ← hexOrEmpty a, kind := ← parseRKind k, content := ← hexOrEmpty c,
           mtime := ← mt.toInt?, mtimeNanos := ← ns.toNat?,
           unixMode := ← (if m = "-" then some none else m.toNat?.map some),
           user := ← parseOptX u, group := ← parseOptX g, target := ← parseOptX t,
           complete := cp == "complete" }
  | _ => none

def parseOwner (tok : String) : Option (Bool × Str × Nat) :=
  match tok.splitOn ":" with
  | [w, n, i] => do
    let name ← hexOrEmpty n
    let id ← i.toNat?
    if w = "u" then some (true, name, id) else if w = "g" then some (false, name, id) else none
  | _ => none

def showErrno : Errno → String
  | .ENOENT => "ENOENT" | .ENOTDIR => "ENOTDIR" | .EEXIST => "EEXIST" | .EISDIR => "EISDIR"
  | .ELOOP => "ELOOP" | .EINVAL => "EINVAL" | .EPERM => "EPERM"

def showWhat : RWhat → String
  | .restoreDirectory => "RestoreDirectory" | .restoreFile => "RestoreFile"
  | .restoreOwnership => "RestoreOwnership" | .restorePermissions => "RestorePermissions"
  | .restoreModificationTime => "RestoreModificationTime" | .restoreSymlink => "RestoreSymlink"
  | .invalidMetadata => "InvalidMetadata"

/-- The live bindings of the association list (first binding of each path). -/
def liveNodes : List (Path × FNode) → List Path → List (Path × FNode)
  | [], _ => []
  | (p, x) :: rest, seen => if seen.contains p then liveNodes rest seen else (p, x) :: liveNodes rest (p :: seen)

def showFsNode (kv : Path × FNode) : String :=
  " ".intercalate ["fsnode", hexEncode (bytesOfPath kv.1), showFKind kv.2.kind, showHexOrDash kv.2.content,
    showHexOrDash kv.2.target, toString kv.2.mode, toString kv.2.uid, toString kv.2.gid, showMtime kv.2.mtime]

def lookupOwner (owners : List (Bool × Str × Nat)) (user : Bool) (s : Str) : Option Nat :=
  match owners.find? (fun (o : Bool × Str × Nat) => (o.1 == user) && o.2.1 == s) with
  | some o => some o.2.2
  | none => none

def showFsErr (e : FsErr) : String :=
  " ".intercalate ["err", showWhat e.what, hexEncode e.apath,
    match e.errno with | some x => showErrno x | none => "-"]

def runRestore (ow old : Bool) (dest : Str) (umask : Nat) (fsn : List (Path × FNode)) (rn : List RNode)
    (owners : List (Bool × Str × Nat)) : List String :=
  let fs : Fs := { nodes := fsn, umask := umask }
  let r := restoreToFs fs (pathOfBytes dest) ow rn (lookupOwner owners true) (lookupOwner owners false) old
  (liveNodes r.1.nodes []).map showFsNode ++ r.2.1.map showFsErr ++
    [match r.2.2 with
     | none => "result ok"
     | some .destinationNotEmpty => "result err destination-not-empty"
     | some (.io e) => "result err io:" ++ showErrno e]

def parseRequest (ow old dest umask k : String) (rest : List String) : Option (List String) := do
  let dest ← hexOrEmpty dest
  let umask ← umask.toNat?
  let k ← k.toNat?
  let fsn ← (rest.take k).mapM parseFsNode
  let rest := rest.drop k
  let n ← (← rest.head?).toNat?
  let rest := rest.drop 1
  let rn ← (rest.take n).mapM parseRNode
  let owners ← (rest.drop n).mapM parseOwner
  pure (runRestore (ow == "1") (old == "1") dest umask fsn rn owners)

def handleFs (toks : List String) : Option (List String) :=
  match toks with
  | "fs-restore" :: ow :: old :: dest :: umask :: k :: rest =>
    some ((parseRequest ow old dest umask k rest).getD ["bad-op"])
  | _ => none

end Conserve.DFs
