import ConserveModel.Basic
import ConserveModel.Blake2b
/-
Line-protocol handler for the BLAKE2b model.

  blake2b b:<hex of the message>   ↦   one line: the 128 lowercase hex characters of BLAKE2b-512(message)
                                       (the block file name conserve uses), or `bad-op` if the token
                                       is not `<c>:<even number of lowercase hex digits>`.
-/
namespace Conserve

def handleBlake (toks : List String) : Option (List String) :=
  match toks with
  | ["blake2b", a] =>
    match parseBytes a with
    | some bs => some [String.ofList ((blake2bHex bs).map Char.ofNat)]
    | none => some ["bad-op"]
  | "blake2b" :: _ => some ["bad-op"]
  | _ => none

end Conserve
