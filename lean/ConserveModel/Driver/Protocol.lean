import ConserveModel.Protocol
/-
Line-protocol handler for the protocol skeleton (ConserveModel/Protocol.lean).

Request (one line, space separated):

    proto <bits|-> <lock 0|1> <del> <needed> <present> <band>*        the code as it is (recheck = true)
    proto-old <bits|-> <lock 0|1> <del> <needed> <present> <band>*    the backup before the repair of D7

* `<bits>`: one `0`/`1` per *storage operation* of the projected real run that maps to a skeleton
  event (`0` = the backup moves, `1` = gc moves).  A deduplication (`B.block g` with g in the
  in-memory `exists` set) performs no storage operation, so the real run has no turn for it: the
  driver inserts the backup's pending deduplication steps immediately before the backup's next turn
  (they only read the backup's local state, so their position does not matter).
* `<del>`, `<needed>`, `<present>`: comma separated decimal ids, `-` for none.
* `<band>` = `<id>:<c|i|n>:<refs>` (complete / incomplete with a head / no head yet; refs as above).

Answer:
    sched <expanded bits|->
    A <event> …            events of the backup, in order
    B <event> …            events of gc, in order
    backup ok|refused|failed
    gc ok|refused|failed
    dangling <ids|->       complete bands that refer to a missing block
    bands <id:c|i|n:refs> …
    present <ids|->
Anything malformed answers `bad-op`.
-/
namespace Conserve.Proto

def parseIds (tok : String) : Option (List Nat) :=
  if tok = "-" then some [] else (tok.splitOn ",").mapM (·.toNat?)

def showIds (l : List Nat) : String :=
  if l.isEmpty then "-" else ",".intercalate (l.map toString)

def parseBand (tok : String) : Option Band :=
  match tok.splitOn ":" with
  | [i, c, r] => do
    let id ← i.toNat?
    let (head, complete) ← if c = "c" then some (true, true) else if c = "i" then some (true, false)
      else if c = "n" then some (false, false) else none
    let refs ← parseIds r
    pure { id, head, complete, refs }
  | _ => none

def showBand (b : Band) : String :=
  toString b.id ++ ":" ++ (if b.complete then "c" else if b.head then "i" else "n") ++ ":" ++ showIds b.refs

def showEv : Ev → String
  | .bLockCheck => "B.lockCheck" | .bListBasis => "B.listBasis" | .bListId => "B.listId"
  | .bMkdir => "B.mkdir" | .bHead => "B.head" | .bLockCheck2 => "B.lockCheck2"
  | .bListBlocks => "B.listBlocks"
  | .bBlock g w => "B.block:" ++ toString g ++ (if w then ":w" else ":d")
  | .bHunk => "B.hunk" | .bTail => "B.tail"
  | .gLast => "G.last" | .gTailCheck => "G.tailCheck" | .gLockCheck => "G.lockCheck"
  | .gLockWrite => "G.lockWrite" | .gListKeep => "G.listKeep" | .gReadRefs => "G.readRefs"
  | .gListBlocks => "G.listBlocks" | .gStat g => "G.stat:" ++ toString g | .gCheck => "G.check"
  | .gRmBand b => "G.rmBand:" ++ toString b | .gRmBlock g => "G.rmBlock:" ++ toString g
  | .gUnlock => "G.unlock"

def Ev.isB : Ev → Bool
  | .bLockCheck | .bListBasis | .bListId | .bMkdir | .bHead | .bLockCheck2 | .bListBlocks
  | .bBlock _ _ | .bHunk | .bTail => true
  | _ => false

/-- The backup's next step is a deduplication (no storage operation). -/
def silentB (p : State) : Bool :=
  match nextEvB p with
  | some (.bBlock _ false) => true
  | _ => false

/-- Perform pending deduplications; returns how many. -/
def drainSilent : Nat → State → Nat × State
  | 0, p => (0, p)
  | n + 1, p =>
    if silentB p then
      let (k, p') := drainSilent n (stepB p)
      (k + 1, p')
    else (0, p)

/-- Insert the deduplication turns the real run does not have. -/
def expandSched : List Bool → State → List Bool
  | [], _ => []
  | false :: rest, p =>
    let (k, p1) := drainSilent p.b.todo.length p
    List.replicate k false ++ false :: expandSched rest (stepB p1)
  | true :: rest, p => true :: expandSched rest (stepG p)

def showBPc : BPc → String
  | .done => "ok" | .refused | .refused2 => "refused" | .failed => "failed" | _ => "unfinished"
def showGPc : GPc → String
  | .done => "ok" | .refused => "refused" | .failed => "failed" | _ => "unfinished"

def answerProtocol (recheck : Bool) (bits lock del needed pres : String) (bands : List String) :
    List String :=
    let r : Option (List String) := do
      let sched ← if bits = "-" then some [] else
        bits.toList.mapM fun c => if c == '0' then some false else if c == '1' then some true else none
      let lock ← if lock = "1" then some true else if lock = "0" then some false else none
      let del ← parseIds del
      let needed ← parseIds needed
      let pres ← parseIds pres
      let bands ← bands.mapM parseBand
      let c : Config := { bands, present := pres, lock, del, needed, recheck }
      let full := expandSched sched c.start
      let s := runProto full c.start
      let evs := s.log.reverse
      pure [
        "sched " ++ (if full.isEmpty then "-" else String.ofList (full.map fun b => if b then '1' else '0')),
        " ".intercalate ("A" :: (evs.filter Ev.isB).map showEv),
        " ".intercalate ("B" :: (evs.filter fun e => !e.isB).map showEv),
        "backup " ++ showBPc s.b.pc,
        "gc " ++ showGPc s.g.pc,
        "dangling " ++ showIds (danglingBands s),
        " ".intercalate ("bands" :: s.bands.map showBand),
        "present " ++ showIds s.present ]
    r.getD ["bad-op"]

def handleProtocol (toks : List String) : Option (List String) :=
  match toks with
  | "proto" :: bits :: lock :: del :: needed :: pres :: bands =>
    some (answerProtocol true bits lock del needed pres bands)
  | "proto-old" :: bits :: lock :: del :: needed :: pres :: bands =>
    some (answerProtocol false bits lock del needed pres bands)
  | _ => none

end Conserve.Proto
