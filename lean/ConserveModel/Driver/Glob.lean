import ConserveModel.Basic
import ConserveModel.Glob
/-
Line-protocol handlers for the glob / exclusion model.

  glob s:PAT s:PATH            ↦ true | false | parse-error | unsupported
      one raw glob through `parseGlobE` / `matchToks` (literal_separator = true)
  globtoks s:PAT               ↦ the token list (debug aid) | parse-error | unsupported
  excl N s:PAT₁ … s:PAT_N s:PATH ↦ true | false | parse-error | unsupported
      full `Exclude::from_strings([PAT₁..PAT_N]).matches(PATH)` semantics (`expandPattern`)
`unsupported` = the pattern uses alternates (`{`/`}`), which the model does not cover.
-/
namespace Conserve

def showTok : Tok → String
  | .lit b => s!"L{b}"
  | .any => "?"
  | .star => "*"
  | .recPrefix => "RP"
  | .recSuffix => "RS"
  | .recMid => "RM"
  | .cls neg rs => (if neg then "[^" else "[") ++ String.intercalate "," (rs.map fun r => s!"{r.1}-{r.2}") ++ "]"

/-- Parse all globs, reporting the first failure (unsupported wins over rejected only by position). -/
def parseAllE : List Str → Except PErr (List (List Tok))
  | [] => .ok []
  | g :: gs =>
    match parseGlobE g with
    | .error e => .error e
    | .ok t =>
      match parseAllE gs with
      | .error e => .error e
      | .ok ts => .ok (t :: ts)

def showPErr : PErr → String
  | .rejected => "parse-error"
  | .unsupported => "unsupported"

def handleGlob (toks : List String) : Option (List String) :=
  match toks with
  | ["glob", p, x] =>
    match parseBytes p, parseBytes x with
    | some p, some x =>
      match parseGlobE p with
      | .ok ts => some [toString (matchToks ts x)]
      | .error e => some [showPErr e]
    | _, _ => some ["bad-op"]
  | ["globtoks", p] =>
    match parseBytes p with
    | some p =>
      match parseGlobE p with
      | .ok ts => some [String.intercalate " " (ts.map showTok)]
      | .error e => some [showPErr e]
    | _ => some ["bad-op"]
  | "excl" :: n :: rest =>
    match n.toNat? with
    | none => some ["bad-op"]
    | some n =>
      if rest.length ≠ n + 1 then some ["bad-op"]
      else
        match (rest.take n).mapM parseBytes, parseBytes (rest.getD n "") with
        | some pats, some x =>
          match parseAllE (pats.flatMap expandPattern) with
          | .ok gs => some [toString (excluded gs x)]
          | .error e => some [showPErr e]
        | _, _ => some ["bad-op"]
  | _ => none

end Conserve
