import ConserveModel.Basic
import ConserveModel.Tree
/-
Line-protocol handler for the source walk (ConserveModel/Tree.lean).

Request (one line, space separated):

    walk    K n1 … nK X x1 … xX
    walkrec K n1 … nK X x1 … xX

* `K` decimal, `K ≥ 1`; node token `ni` = `<parent>:<kind>:s:<name-hex>`;
  `kind` ∈ {`f`, `d`, `l`} (file, dir, symlink);
  node 0 is the root: parent `-`, empty name (`-:d:s:`), any kind;
  every other node has a decimal parent index strictly smaller than its own index.
  The children of node i, in `read_dir` order, are the nodes with parent i in increasing index.
  Only a `d` node may have children.
* `X` decimal, then `X` tokens `s:<hex>`: the apaths on which the exclusion predicate is true.
* Nothing may follow.

Answer: one line `s:<apath-hex>` per emitted entry, in emission order (`walkDeque` for `walk`,
`walkRec` for `walkrec`).  Anything malformed answers `bad-op`.
Metadata is defaulted: `FsMeta` `{}`, size 0, content [], symlink target [].
-/
namespace Conserve

/-- One parsed node token. -/
structure RawNode where
  parent : Option Nat
  kind : String
  name : Str

def parseRawNode (tok : String) : Option RawNode :=
  match tok.splitOn ":" with
  | [p, k, "s", hex] =>
    if k != "f" && k != "d" && k != "l" then none
    else
      match hexDecodeAux hex.toList [] with
      | none => none
      | some name =>
        if p == "-" then some { parent := none, kind := k, name }
        else
          match p.toNat? with
          | some i => some { parent := some i, kind := k, name }
          | none => none
  | _ => none

def mkNode (kind : String) (kids : List (Str × Node)) : Option Node :=
  if kind == "d" then some (.dir {} (Forest.ofList kids))
  else if !kids.isEmpty then none
  else if kind == "f" then some (.file {} 0 [])
  else if kind == "l" then some (.symlink {} [])
  else none

/-- Assemble the tree bottom-up.  `go (i+1) acc` handles node `i`; `acc[j]` holds the already
built children of node `j` (those with index > i), in increasing index.  Because parents
come before children, the children of node `i` are complete when it is its turn. -/
def buildTree (nodes : Array RawNode) : Option Node :=
  go nodes.size (Array.replicate nodes.size [])
where
  go : Nat → Array (List (Str × Node)) → Option Node
  | 0, _ => none
  | i + 1, acc =>
    match nodes[i]? with
    | none => none
    | some r =>
      match mkNode r.kind (acc.getD i []) with
      | none => none
      | some node =>
        match i, r.parent with
        | 0, none => if r.name.isEmpty then some node else none
        | 0, some _ => none
        | _ + 1, none => none
        | j + 1, some p =>
          if p < j + 1 then go (j + 1) (acc.modify p (fun l => (r.name, node) :: l))
          else none

def parseStrs : List String → Option (List Str)
  | [] => some []
  | t :: ts =>
    match t.toList with
    | 's' :: ':' :: hex =>
      match hexDecodeAux hex [], parseStrs ts with
      | some s, some rest => some (s :: rest)
      | _, _ => none
    | _ => none

/-- `K n1 … nK X x1 … xX` ↦ (root, excluded apaths). -/
def parseWalkArgs (toks : List String) : Option (Node × List Str) :=
  match toks with
  | [] => none
  | k :: rest =>
    match k.toNat? with
    | none => none
    | some k =>
      if rest.length < k + 1 then none
      else
        match (rest.take k).mapM parseRawNode, rest.drop k with
        | some raws, x :: xs =>
          match x.toNat?, parseStrs xs, buildTree raws.toArray with
          | some x, some excluded, some root =>
            if excluded.length == x then some (root, excluded) else none
          | _, _, _ => none
        | _, _ => none

def handleTree (toks : List String) : Option (List String) :=
  match toks with
  | "walk" :: args =>
    match parseWalkArgs args with
    | some (root, excluded) =>
      some ((walkDeque root (fun a => excluded.contains a)).map (fun e => showStr e.apath))
    | none => some ["bad-op"]
  | "walkrec" :: args =>
    match parseWalkArgs args with
    | some (root, excluded) =>
      some ((walkRec root (fun a => excluded.contains a)).map (fun e => showStr e.apath))
    | none => some ["bad-op"]
  | _ => none

end Conserve
