import ConserveModel.Archive
/-
Reading indexes (src/index/mod.rs `IndexRead`, `IndexHunkIter`) and stitching interrupted
versions (src/index/stitch.rs).

The code is a lazy iterator; the model collects eagerly.  Laziness only changes the order of
read-only operations relative to the caller's other operations, which the correspondence
treats as advisory; results, errors and fault positions (by `OpId`) are the same.
-/
namespace Conserve
open Prog

/-- `IndexRead::hunks_available`: hunk numbers present, directory by directory. -/
def hunksAvailable (b : Nat) : Prog (List Nat) := do
  match ← perform (.listDir (.indexDir b)) with
  | .listing xs =>
    let dirs := sortNat <| xs.filterMap fun e =>
      match e.key with
      | .hunkDir _ d => if e.isDir then some d else none
      | _ => none
    let rec go : List Nat → List Nat → Prog (List Nat)
      | [], acc => pure acc
      | d :: ds, acc => do
        match ← perform (.listDir (.hunkDir b d)) with
        | .listing ys =>
          let hs := sortNat <| ys.filterMap fun e =>
            match e.key with
            | .hunk _ n => if !e.isDir then some n else none
            | _ => none
          go ds (acc ++ hs)
        | .err e => .fail (.transport e)
        | _ => .fail (.transport .other)
    go dirs []
  | .err e => .fail (.transport e)
  | _ => .fail (.transport .other)

/-- `IndexRead::iter_available_hunks`: `hunks_available().await.expect("hunks available")`. -/
def iterAvailableHunks (b : Nat) : Prog (List Nat) := do
  match ← (hunksAvailable b).attempt with
  | .ok hs => pure hs
  | .error _ => .panic "iter_available_hunks: expect(hunks available)"

/-- `IndexEntry::check` (src/index/entry.rs): can an entry read from an index be used safely? -/
def entryUsable (e : IndexEntry) : Bool :=
  isValid e.apath &&
  (entryTimeNs e.mtime e.mtimeNanos).isSome &&
  e.kind != .unknown &&
  (e.kind != .symlink || e.target.isSome) &&
  e.addrs.all fun a => a.start + a.len < 18446744073709551616

/-- `IndexRead::read_hunk`: `none` = the file is not there (`Ok(None)`); `fail` = any other
transport error, or bytes that do not decompress/deserialise. -/
def readHunk (b n : Nat) : Prog (Option (List IndexEntry)) := do
  match ← perform (.read (.hunk b n)) with
  | .err .notFound => pure none
  | .err e => .fail (.transport e)
  | .val (.hunk es) =>
    -- `IndexEntry::check` on every entry: a hunk that decodes into values no version writes
    -- (invalid path, time out of range, unknown kind, symlink without target, address overflow)
    -- is treated like one that does not decode
    if es.all entryUsable then pure (some es) else .fail .invalidMetadata
  | .val .empty => pure (some [])        -- zero-length leftover of an interrupted write: no entries
  | .val _ => .fail .json
  | _ => .fail (.transport .other)


/-- The part of a hunk the iterator returns when resuming after `after`: the code does a
binary search for the insertion point; on a sorted hunk that is the first entry above `after`. -/
def trimAfter (after : Str) (es : List IndexEntry) : List IndexEntry :=
  es.dropWhile fun e => apathLe e.apath after

/-- All remaining calls of `IndexHunkIter::next` on one band, concatenated, together with
what `Stitch` records as `last_apath` (the last apath of the last non-empty hunk returned).
`after = some a` while the skip-ahead is still active. -/
def readHunks (b : Nat) : List Nat → Option Str → Option Str → Prog (List IndexEntry × Option Str)
  | [], _, last => pure ([], last)
  | n :: rest, after, last => do
    match ← (readHunk b n).attempt with
    | .ok none => pure ([], last)                       -- `Ok(None) => return None`: iteration ends
    | .error e =>                                       -- `Err(err) => { monitor.error(err); continue }`
      logError e
      readHunks b rest after last
    | .ok (some es) =>
      match after with
      | some a =>
        if (match es.getLast? with | some (l : IndexEntry) => apathLe l.apath a | none => false) then
          readHunks b rest after last                   -- whole hunk at or before `after`
        else if (match es.head? with | some (f : IndexEntry) => apathCmp f.apath a == Ordering.gt | none => false) then
          let (more, last') ← readHunks b rest none (es.getLast?.map (fun (l : IndexEntry) => l.apath))
          pure (es ++ more, last')                      -- whole hunk after: stop looking
        else
          let part := trimAfter a es
          let last1 := match part.getLast? with | some (l : IndexEntry) => some l.apath | none => last
          let (more, last') ← readHunks b rest after last1
          pure (part ++ more, last')
      | none =>
        if es.isEmpty then readHunks b rest none last
        else
          let (more, last') ← readHunks b rest none (es.getLast?.map (fun (l : IndexEntry) => l.apath))
          pure (es ++ more, last')

/-- `IndexRead::hunk_lengths`: like `hunksAvailable`, with "is the file non-empty" for each hunk. -/
def hunkLengths (b : Nat) : Prog (List (Nat × Bool)) := do
  match ← perform (.listDir (.indexDir b)) with
  | .listing xs =>
    let dirs := sortNat <| xs.filterMap fun e =>
      match e.key with
      | .hunkDir _ d => if e.isDir then some d else none
      | _ => none
    let rec go : List Nat → List (Nat × Bool) → Prog (List (Nat × Bool))
      | [], acc => pure acc
      | d :: ds, acc => do
        match ← perform (.listDir (.hunkDir b d)) with
        | .listing ys =>
          let hs := (ys.filterMap fun e =>
            match e.key with
            | .hunk _ n => if !e.isDir then some (n, e.nonEmpty) else none
            | _ => none).mergeSort fun x y => x.1 ≤ y.1
          go ds (acc ++ hs)
        | .err e => .fail (.transport e)
        | _ => .fail (.transport .other)
    go dirs []
  | .err e => .fail (.transport e)
  | _ => .fail (.transport .other)

/-- Is there a zero-length hunk where an interrupted write cannot have left it?  Only the last
hunk of a band without tail may be zero-length. -/
def badEmptyHunk (closed : Bool) : List (Nat × Bool) → Bool
  | [] => false
  | [(_, nonEmpty)] => !nonEmpty && closed
  | (_, nonEmpty) :: rest => !nonEmpty || badEmptyHunk closed rest

/-- `Band::check_index_hunks`: the hunks present must be numbered consecutively from zero, a
closed band must have as many as its tail says (if the tail can be read), and a zero-length hunk
is acceptable only as the last hunk of a band without tail. -/
def checkIndexHunks (b : Nat) : Prog Unit := do
  let hunks ← hunkLengths b
  if hunks.map (·.1) != List.range hunks.length then .fail .invalidMetadata
  let (closed, expected) ← match ← perform (.read (.bandTail b)) with
    | .err .notFound => pure (false, none)
    | .val (.tail n) => pure (true, n)
    | _ => pure (true, none)
  match expected with
  | some n => if hunks.length != n then .fail .invalidMetadata
  | none => pure ()
  if badEmptyHunk closed hunks then .fail .invalidMetadata

/-- `State::BeforeBand` … until the band's hunks are exhausted: entries taken from band `b`
(unfiltered) and the new `last_apath`. -/
def readBand (b : Nat) (last : Option Str) : Prog (List IndexEntry × Option Str) := do
  match ← (bandOpen b).attempt with
  | .error e =>
    logError e
    pure ([], last)
  | .ok () =>
    -- `try_iter_available_hunks`: an index that cannot be listed is reported and the band
    -- is treated like one that cannot be opened (before the repair this was a panic)
    match ← (hunksAvailable b).attempt with
    | .error e =>
      logError e
      pure ([], last)
    | .ok hunks =>
      match ← (checkIndexHunks b).attempt with
      | .error e => logError e            -- some hunks are missing: say so, return what is left
      | .ok () => pure ()
      readHunks b hunks last last

/-- `State::AfterBand(b)` for `b = n` where only bands below `n` remain to be tried:
walk down to the previous existing band, read it, go on unless it is closed. -/
def stitchDown : Nat → Option Str → Prog (List IndexEntry)
  | 0, _ => pure []
  | b + 1, last => do
    if ← unwrapOr (bandExists b) false then
      let (es, last') ← readBand b last
      if ← unwrapOr (bandIsClosed b) false then pure es
      else
        let more ← stitchDown b last'
        pure (es ++ more)
    else
      -- `previous_existing_band` (after the repair): index hunks are only written after the head,
      -- so an id that holds hunk 0 but no head has lost its head: report it, then walk on
      if ← unwrapOr (isFile (.hunk b 0)) false then logError (.bandHeadMissing b)
      stitchDown b last

/-- All entries `Stitch::new(archive, band, "/", nothing)` yields (before filtering). -/
def stitchAll (b : Nat) : Prog (List IndexEntry) := do
  let (es, last) ← readBand b none
  if ← unwrapOr (bandIsClosed b) false then pure es
  else
    let more ← stitchDown b last
    pure (es ++ more)

/-- The filter of `Stitch::next`: inside the subtree and not excluded.  `Exclude::matches`
converts the stored path with `Apath::from(&str)`, which asserts validity. -/
def filterEntries (subtree : Str) (excl : Str → Bool) : List IndexEntry → Prog (List IndexEntry)
  | [] => pure []
  | e :: es => do
    if !isPrefixOfImpl subtree e.apath then filterEntries subtree excl es
    else if !isValid e.apath then .panic "Exclude::matches: assert is_valid"
    else if excl e.apath then filterEntries subtree excl es
    else
      let rest ← filterEntries subtree excl es
      pure (e :: rest)

/-- `Stitch` collected: the listing of version `b` under a subtree/exclusion filter. -/
def listEntries (b : Nat) (subtree : Str) (excl : Str → Bool) : Prog (List IndexEntry) := do
  filterEntries subtree excl (← stitchAll b)

/-- `Archive::iter_entries(selection, subtree, exclude)` collected: resolve the version, open it
(`StoredTree::open`), then stitch. -/
def listVersion (sel : BandSelection) (subtree : Str) (excl : Str → Bool) : Prog (List IndexEntry) := do
  let b ← resolveBandId sel
  bandOpen b
  listEntries b subtree excl

end Conserve
