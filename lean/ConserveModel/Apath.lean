/-
Model of src/apath.rs: archive paths as UTF-8 byte strings.

A string is the list of its UTF-8 bytes (`List Nat`, each < 256 for real inputs; the
order theory below does not need the bound).  Rust's `str::cmp` is byte-wise
lexicographic comparison, which is what `compare` on `List Nat` is.
-/
namespace Conserve

abbrev Str := List Nat

def slash : Nat := 47
def dot : Nat := 46

/-- Rust `str::split('/')`: the pieces between slashes; never empty. -/
def splitSlash : Str → List Str
  | [] => [[]]
  | c :: cs =>
    if c = slash then [] :: splitSlash cs
    else match splitSlash cs with
      | [] => [[c]]
      | p :: ps => (c :: p) :: ps

/-- The `loop` of `impl Ord for Apath`: `oa`/`ob` are the current pieces, the lists are
what the two `split` iterators still hold. -/
def cmpLoop (oa ob : Str) : List Str → List Str → Ordering
  | [], [] => compare oa ob
  | [], _ :: _ => .lt
  | _ :: _, [] => .gt
  | ac :: as, bc :: bs =>
    match compare oa ob with
    | .eq => cmpLoop ac bc as bs
    | o => o

/-- `Apath::cmp`. -/
def apathCmp (a b : Str) : Ordering :=
  match splitSlash a, splitSlash b with
  | oa :: as, ob :: bs => cmpLoop oa ob as bs
  | _, _ => .eq   -- unreachable: `split` always yields a first piece (`expect` in the code)

def apathLt (a b : Str) : Bool := apathCmp a b == .lt

/-- `a <= b` under `Apath::cmp`. -/
def apathLe (a b : Str) : Bool := apathCmp a b != .gt

/-- `a <= b` under byte-wise `str::cmp`. -/
def strLe (a b : Str) : Bool := compare a b != .gt

/-- `Apath::is_valid`. -/
def isValid (a : Str) : Bool :=
  match a with
  | [] => false
  | c :: rest =>
    if c ≠ slash then false
    else if rest.isEmpty then true
    else (splitSlash rest).all fun part =>
      !(part.isEmpty || part == [dot] || part == [dot, dot] || part.contains 0)

/-- `Apath::append`. -/
def apathAppend (a child : Str) : Str :=
  if a = [slash] then a ++ child else a ++ [slash] ++ child

/-- Is this byte the first byte of a UTF-8 encoded character (not a continuation byte)? -/
def isCharStart (b : Nat) : Bool := b / 64 ≠ 2

/-- `s.chars().nth(n)`, as far as the comparison with `'/'` needs it: the first byte
of the n-th character of a (valid UTF-8) string. -/
def nthCharFirstByte : Str → Nat → Option Nat
  | [], _ => none
  | b :: bs, n =>
    if isCharStart b then
      match n with
      | 0 => some b
      | n + 1 => nthCharFirstByte bs n
    else nthCharFirstByte bs n

/-- `Apath::is_prefix_of` exactly as written before the repair: the **byte** length of
`s` is used as a **character** index into `a`. -/
def isPrefixOfCharIndexed (s a : Str) : Bool :=
  if s.length > a.length then false
  else if s.length = a.length then s == a
  else s.isPrefixOf a && (s.getLast? == some slash || nthCharFirstByte a s.length == some slash)

/-- `Apath::is_prefix_of` as the code is now (byte at the byte length). -/
def isPrefixOfImpl (s a : Str) : Bool :=
  if s.length > a.length then false
  else if s.length = a.length then s == a
  else s.isPrefixOf a && (s.getLast? == some slash || a[s.length]? == some slash)

end Conserve
