/-
Line-protocol codecs shared by the driver: hex strings, naturals, integers.
-/
namespace Conserve

def hexVal (c : Char) : Option Nat :=
  if '0' ≤ c ∧ c ≤ '9' then some (c.toNat - '0'.toNat)
  else if 'a' ≤ c ∧ c ≤ 'f' then some (c.toNat - 'a'.toNat + 10)
  else none

def hexDecodeAux : List Char → List Nat → Option (List Nat)
  | [], acc => some acc.reverse
  | [_], _ => none
  | a :: b :: rest, acc =>
    match hexVal a, hexVal b with
    | some x, some y => hexDecodeAux rest ((x * 16 + y) :: acc)
    | _, _ => none

/-- `s:<hex>` or `b:<hex>` ↦ bytes. -/
def parseBytes (tok : String) : Option (List Nat) :=
  match tok.toList with
  | _ :: ':' :: rest => hexDecodeAux rest []
  | _ => none

def hexDigit (n : Nat) : Char :=
  if n < 10 then Char.ofNat (n + '0'.toNat) else Char.ofNat (n - 10 + 'a'.toNat)

def hexEncode (bs : List Nat) : String :=
  String.ofList (bs.flatMap fun b => [hexDigit (b / 16 % 16), hexDigit (b % 16)])

def showStr (bs : List Nat) : String := "s:" ++ hexEncode bs

def showOrdering : Ordering → String
  | .lt => "lt" | .eq => "eq" | .gt => "gt"

def parseInt (tok : String) : Option Int := tok.toInt?

end Conserve
