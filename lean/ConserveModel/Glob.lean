import ConserveModel.Apath
/-
Model of exclusion matching: src/excludes.rs (`Exclude`, `add_pattern`) on top of the
`globset` crate, version 0.4.18 (src/glob.rs: `Parser`, `Token`, `Tokens::to_regex_with`).

What the real code computes for `Exclude::matches(apath)`:
  every pattern `P` is turned into `Q = P` (if it starts with '/') or `Q = "**/" ++ P`, and the two
  globs `Q` and `Q ++ "/**"` are compiled with `literal_separator(true)` (everything else default:
  case sensitive, `backslash_escape = true` on unix, no empty alternates, unclosed class = error).
  globset parses a glob into tokens and translates the tokens into a regex that starts with
  `(?-u)` (bytes, not characters) and is anchored with `^`/`$`; `.` matches every byte
  (`dot_matches_new_line(true)`).  The path matches the set if any of the regexes matches it.
  (`GlobSet` uses literal/basename/extension/prefix/suffix short-cuts for some token shapes; they are
  meant to be equivalent to the regex, and the differential harness c15.rs checks the model against
  the real `Exclude`, i.e. through these short-cuts.)

Byte semantics, as found in the crate:
  * `Token::Literal(c)` becomes the UTF-8 bytes of `c`: we keep one `Tok.lit` per byte.
  * `?` becomes `[^/]` under `(?-u)`: ONE BYTE, not one character (`?` does not match "é", `??` does).
  * a class `[..]` is written into the regex byte-escaped, so a multi-byte member contributes each of
    its bytes as a separate member and `[à-é]` is `[\xc3\xa0-\xc3\xa9]` = {c3} ∪ [a0..c3] ∪ {a9};
    a class always matches exactly one byte (so `[é]` never matches "é").  The check `lo <= hi` of a
    range is made on characters, before that translation.  Classes (negated or not) can match '/'.
  * alternates `{a,b}` are outside the modelled grammar: `parseGlobE` answers `unsupported` for any
    unescaped '{' or '}' outside a class.

The parser of globset is a loop with one or two characters of look-ahead (`parse_star`).  It is
rendered here as a byte-at-a-time state machine (`step`, `finish`) so that parsing `p ++ q` is
running `q` from the state reached after `p`; the modes `star1`/`star2` are the look-ahead
positions inside `parse_star`.  All special characters are ASCII, so working on bytes instead of
`char`s changes nothing except inside classes, where characters are re-assembled (`clsByte`).
-/
namespace Conserve

/-- globset `Token` (without `Alternates`), literals split into bytes, classes already translated to
the byte ranges that end up in the regex. -/
inductive Tok where
  | lit (b : Nat)          -- `Literal`: this byte
  | any                    -- `Any`: `[^/]`
  | star                   -- `ZeroOrMore`: `[^/]*`
  | recPrefix              -- `RecursivePrefix`: `(?:/?|.*/)`
  | recSuffix              -- `RecursiveSuffix`: `/.*`
  | recMid                 -- `RecursiveZeroOrMore`: `(?:/|/.*/)`
  | cls (neg : Bool) (rs : List (Nat × Nat))   -- `Class`: one byte in (not in) the union of the ranges
  deriving DecidableEq, Repr

inductive PErr where
  | rejected               -- globset returns an error
  | unsupported            -- outside the modelled grammar (alternates)
  deriving DecidableEq, Repr

/-! ### Character classes (`Parser::parse_class`) -/

/-- Length of the UTF-8 sequence introduced by this byte (1 for ASCII and for stray bytes). -/
def utf8Len (b : Nat) : Nat :=
  if b < 0xC0 then 1 else if b < 0xE0 then 2 else if b < 0xF0 then 3 else 4

/-- Byte-wise lexicographic `<`; on UTF-8 encodings of single characters this is `char` order. -/
def strLt : Str → Str → Bool
  | [], [] => false
  | [], _ :: _ => true
  | _ :: _, [] => false
  | a :: as, b :: bs => decide (a < b) || (a == b && strLt as bs)

/-- Loop state of `parse_class`; `cur`/`need` re-assemble a multi-byte character. -/
structure ClsSt where
  neg : Bool
  ranges : List (Str × Str)
  atStart : Bool           -- nothing read yet: a '!' or '^' here negates
  first : Bool
  inRange : Bool
  cur : Str
  need : Nat
  deriving DecidableEq, Repr

def ClsSt.init : ClsSt :=
  { neg := false, ranges := [], atStart := true, first := true, inRange := false, cur := [], need := 0 }

inductive ClsStep where
  | cont (st : ClsSt)
  | done (tok : Tok)
  | err

/-- `add_to_last_range`: set the upper end of the last range; error if it is below the lower end. -/
def clsAddToLast (rs : List (Str × Str)) (c : Str) : Option (List (Str × Str)) :=
  match rs.getLast? with
  | none => none           -- unreachable (`unwrap` on a non-empty vector)
  | some (lo, _) => if strLt c lo then none else some (rs.dropLast ++ [(lo, c)])

def single (b : Nat) : Nat × Nat := (b, b)

/-- One `(char, char)` range as it appears in the byte regex (`tokens_to_regex`, `Token::Class`). -/
def rangeItems (r : Str × Str) : List (Nat × Nat) :=
  if r.1 == r.2 then r.1.map single
  else match r.1.getLast?, r.2 with
    | some l, h :: hs => r.1.dropLast.map single ++ [(l, h)] ++ hs.map single
    | _, _ => []           -- unreachable: characters are non-empty

def flattenRanges (rs : List (Str × Str)) : List (Nat × Nat) := rs.flatMap rangeItems

/-- One character inside a class. -/
def clsChar (st0 : ClsSt) (c : Str) : ClsStep :=
  if st0.atStart && (c == [33] || c == [94]) then
    .cont { st0 with neg := true, atStart := false, cur := [], need := 0 }
  else
    let st := { st0 with atStart := false, cur := [], need := 0 }
    if c == [93] then                                   -- ']'
      if st.first then .cont { st with ranges := st.ranges ++ [([93], [93])], first := false }
      else .done (Tok.cls st.neg
        (flattenRanges (if st.inRange then st.ranges ++ [([45], [45])] else st.ranges)))
    else if c == [45] then                              -- '-'
      if st.first then .cont { st with ranges := st.ranges ++ [([45], [45])], first := false }
      else if st.inRange then
        match clsAddToLast st.ranges [45] with
        | some rs => .cont { st with ranges := rs, inRange := false }
        | none => .err
      else .cont { st with inRange := true }
    else if st.inRange then
      match clsAddToLast st.ranges c with
      | some rs => .cont { st with ranges := rs, inRange := false, first := false }
      | none => .err
    else .cont { st with ranges := st.ranges ++ [(c, c)], first := false }

/-- One byte inside a class. -/
def clsByte (st : ClsSt) (b : Nat) : ClsStep :=
  if st.need > 0 then
    if st.need = 1 then clsChar st (st.cur ++ [b])
    else .cont { st with cur := st.cur ++ [b], need := st.need - 1 }
  else if utf8Len b > 1 then .cont { st with cur := [b], need := utf8Len b - 1 }
  else clsChar st [b]

/-- Does the byte belong to the class (regex `[..]` / `[^..]` under `(?-u)`)? -/
def clsMatch (neg : Bool) (rs : List (Nat × Nat)) (c : Nat) : Bool :=
  (rs.any fun r => decide (r.1 ≤ c) && decide (c ≤ r.2)) != neg

/-! ### The parser (`Parser::parse`, `parse_star`, `parse_backslash`) -/

inductive Mode where
  | normal
  | esc                    -- after a '\' (`parse_backslash`, `backslash_escape = true`)
  | star1                  -- in `parse_star`, one '*' read, about to `peek`
  | star2                  -- in `parse_star`, "**" read, about to `peek` at what follows
  | cls (st : ClsSt)       -- in `parse_class`
  | failed (e : PErr)
  deriving DecidableEq, Repr

/-- `toks`: the single branch of tokens; `last`: `self.cur`, the last character consumed — in the
modes `star1`/`star2` the character before the stars (`let prev = self.prev` in `parse_star`). -/
structure PSt where
  toks : List Tok
  last : Option Nat
  mode : Mode
  deriving DecidableEq, Repr

def PSt.init : PSt := ⟨[], none, .normal⟩

/-- The `match c` of `Parser::parse` for a character read in the main loop. -/
def stepNormal (toks : List Tok) (last : Option Nat) (c : Nat) : PSt :=
  if c = 63 then ⟨toks ++ [.any], some c, .normal⟩                 -- '?'
  else if c = 42 then ⟨toks, last, .star1⟩                          -- '*'
  else if c = 91 then ⟨toks, some c, .cls ClsSt.init⟩               -- '['
  else if c = 123 ∨ c = 125 then ⟨toks, some c, .failed .unsupported⟩  -- '{' '}'
  else if c = 92 then ⟨toks, some c, .esc⟩                          -- '\'
  else ⟨toks ++ [.lit c], some c, .normal⟩                          -- includes ','

/-- The `match self.pop_token()?` at the end of `parse_star`. -/
def popPush (toks : List Tok) (isSuffix : Bool) : List Tok :=
  match toks.getLast? with
  | some .recPrefix => toks
  | some .recSuffix => toks
  | some _ => toks.dropLast ++ [if isSuffix then .recSuffix else .recMid]
  | none => toks           -- unreachable: `have_tokens` was checked

/-- `parse_star` after "**", seeing the next character `c`. -/
def stepStar2 (toks : List Tok) (last : Option Nat) (c : Nat) : PSt :=
  if toks.isEmpty then
    if c = 47 then ⟨[.recPrefix], some 47, .normal⟩              -- "**/" at the start
    else stepNormal (toks ++ [.star, .star]) (some 42) c
  else if last ≠ some 47 then stepNormal (toks ++ [.star, .star]) (some 42) c
  else if c = 47 then ⟨popPush toks false, some 47, .normal⟩     -- "/**/"
  else stepNormal (toks ++ [.star, .star]) (some 42) c

def step (st : PSt) (c : Nat) : PSt :=
  match st.mode with
  | .normal => stepNormal st.toks st.last c
  | .esc => ⟨st.toks ++ [.lit c], some c, .normal⟩
  | .star1 =>
    if c = 42 then { st with mode := .star2 }
    else stepNormal (st.toks ++ [.star]) (some 42) c
  | .star2 => stepStar2 st.toks st.last c
  | .cls cs =>
    match clsByte cs c with
    | .cont cs' => ⟨st.toks, some c, .cls cs'⟩
    | .done tok => ⟨st.toks ++ [tok], some c, .normal⟩
    | .err => ⟨st.toks, some c, .failed .rejected⟩
  | .failed _ => st

/-- End of input. -/
def finish (st : PSt) : Except PErr (List Tok) :=
  match st.mode with
  | .normal => .ok st.toks
  | .esc => .error .rejected                            -- dangling '\'
  | .star1 => .ok (st.toks ++ [.star])
  | .star2 =>
    if st.toks.isEmpty then .ok [.recPrefix]            -- the glob is "**"
    else if st.last ≠ some 47 then .ok (st.toks ++ [.star, .star])
    else .ok (popPush st.toks true)                     -- trailing "/**"
  | .cls _ => .error .rejected                          -- unclosed class
  | .failed e => .error e

def runParser (st : PSt) (p : Str) : PSt := p.foldl step st

def parseGlobE (p : Str) : Except PErr (List Tok) := finish (runParser PSt.init p)

/-- `GlobBuilder::new(p).literal_separator(true).build()`: `none` if globset rejects the pattern
(or it uses alternates, which are not modelled — see `parseGlobE`). -/
def parseGlob (p : Str) : Option (List Tok) :=
  match parseGlobE p with
  | .ok ts => some ts
  | .error _ => none

/-! ### The matcher: the regex of `Tokens::to_regex_with`, with `literal_separator` -/

/-- `f` holds of some `t` with `s = u ++ t`, `u` free of '/'  (`[^/]*` followed by `f`). -/
def starTail (f : Str → Bool) : Str → Bool
  | [] => f []
  | c :: s => f (c :: s) || (c != slash && starTail f s)

/-- `f` holds of some suffix of `s`  (`.*` followed by `f`). -/
def anyTail (f : Str → Bool) : Str → Bool
  | [] => f []
  | c :: s => f (c :: s) || anyTail f s

/-- `f` holds of some `t` with `s = u ++ "/" ++ t`  (`.*/` followed by `f`). -/
def afterSlash (f : Str → Bool) : Str → Bool
  | [] => false
  | c :: s => (c == slash && f s) || afterSlash f s

/-- Does the whole of `s` match the concatenation of the token regexes? -/
def matchT : List Tok → Str → Bool
  | [], s => s.isEmpty
  | .lit b :: ts, s =>
    match s with
    | c :: s' => c == b && matchT ts s'
    | [] => false
  | .any :: ts, s =>
    match s with
    | c :: s' => c != slash && matchT ts s'
    | [] => false
  | .cls neg rs :: ts, s =>
    match s with
    | c :: s' => clsMatch neg rs c && matchT ts s'
    | [] => false
  | .star :: ts, s => starTail (matchT ts) s
  | .recPrefix :: ts, s => matchT ts s || afterSlash (matchT ts) s      -- (?:/?|.*/)
  | .recSuffix :: ts, s =>                                              -- /.*
    match s with
    | c :: s' => c == slash && anyTail (matchT ts) s'
    | [] => false
  | .recMid :: ts, s =>                                                 -- (?:/|/.*/)
    match s with
    | c :: s' => c == slash && (matchT ts s' || afterSlash (matchT ts) s')
    | [] => false

/-- `to_regex_with`: a glob that is only a `RecursivePrefix` ("**", "**/") matches everything. -/
def matchToks (ts : List Tok) (s : Str) : Bool :=
  if ts = [.recPrefix] then true else matchT ts s

/-- One raw glob (compiled with `literal_separator(true)`) against one string; false if the glob
is rejected. -/
def globMatch (p x : Str) : Bool :=
  match parseGlob p with
  | some ts => matchToks ts x
  | none => false

/-! ### Conserve's `Exclude` (src/excludes.rs) -/

/-- `add_pattern`: a pattern not starting with '/' is prefixed with "**/". -/
def anchorPattern (p : Str) : Str :=
  if p.head? = some slash then p else [42, 42, 47] ++ p

/-- The two globs `add_pattern` adds for one pattern: `Q` and `Q/**`. -/
def expandPattern (p : Str) : List Str :=
  [anchorPattern p, anchorPattern p ++ [47, 42, 42]]

def parseAll : List Str → Option (List (List Tok))
  | [] => some []
  | g :: gs =>
    match parseGlob g, parseAll gs with
    | some t, some ts => some (t :: ts)
    | _, _ => none

structure Exclude where
  globs : List (List Tok)
  deriving Repr

/-- `Exclude::from_strings`: `none` if any glob is rejected. -/
def Exclude.fromStrings (pats : List Str) : Option Exclude :=
  (parseAll (pats.flatMap expandPattern)).map Exclude.mk

/-- `GlobSet::is_match`. -/
def excluded (gs : List (List Tok)) (x : Str) : Bool := gs.any fun g => matchToks g x

/-- `Exclude::matches`. -/
def Exclude.matches (e : Exclude) (x : Str) : Bool := excluded e.globs x

/-! ### Pruning versus filtering, on lists (specification side, used by the tree-walk theorems)

A walk that does not descend into excluded directories, seen as a pass over the list of all
paths in walk order: a path is visited only if its parent was kept (or it has no parent in the
list: it is directly below the root, which is always walked), and a visited path is kept iff it
is not excluded. -/

/-- `splitLastSlash x = some (q, n)` iff `x = q ++ "/" ++ n` with no '/' in `n`. -/
def splitLastSlash : Str → Option (Str × Str)
  | [] => none
  | c :: s =>
    match splitLastSlash s with
    | some (q, n) => some (c :: q, n)
    | none => if c = slash then some ([], s) else none

/-- Byte-level parent: "/a/b" ↦ some "/a"; "/a" ↦ none (directly below the root). -/
def parentOf (x : Str) : Option Str :=
  match splitLastSlash x with
  | some (q, _) => if q = [] then none else some q
  | none => none

/-- Is `x` reached by the walk: it is directly below the root, or its parent was kept. -/
def visited (parent : Str → Option Str) (kept : List Str) (x : Str) : Bool :=
  match parent x with
  | none => true
  | some q => kept.contains q

/-- The pruning pass; `kept` are the paths kept so far. -/
def pruneWalk (excl : Str → Bool) (parent : Str → Option Str) : List Str → List Str → List Str
  | _, [] => []
  | kept, x :: xs =>
    if visited parent kept x && !excl x then x :: pruneWalk excl parent (x :: kept) xs
    else pruneWalk excl parent kept xs

/-- Every path's parent (if it has one) occurs earlier: in `done` or before it in the list. -/
def ParentClosed (parent : Str → Option Str) : List Str → List Str → Prop
  | _, [] => True
  | done, x :: xs => (∀ q, parent x = some q → q ∈ done) ∧ ParentClosed parent (x :: done) xs

end Conserve
