import ConserveModel.IndexRead
/-
`backup()` (src/backup.rs), the block store (src/blockdir.rs `store_or_deduplicate`) and the
index writer (src/index/write.rs) as one program over the abstract store.

`H` is the block hash as a file name (128 hex characters as bytes); theorems take it as an
arbitrary injective function, the driver instantiates BLAKE2b-512.
-/
namespace Conserve
open Prog

structure BackupOpts where
  maxEntriesPerHunk : Nat := 100000
  maxBlockSize : Nat := 20 * 1024 * 1024
  smallFileCap : Nat := 1024 * 1024
  owner : Bool := true
  deriving Repr, Inhabited, DecidableEq

/-- The `BackupStats` fields the checks compare (sizes after compression and timings are not modelled). -/
structure Stats where
  files : Nat := 0
  symlinks : Nat := 0
  directories : Nat := 0
  unknownKind : Nat := 0
  unmodifiedFiles : Nat := 0
  modifiedFiles : Nat := 0
  newFiles : Nat := 0
  replacedDamagedBlocks : Nat := 0
  deduplicatedBytes : Nat := 0
  uncompressedBytes : Nat := 0
  deduplicatedBlocks : Nat := 0
  writtenBlocks : Nat := 0
  combinedBlocks : Nat := 0
  emptyFiles : Nat := 0
  smallCombinedFiles : Nat := 0
  singleBlockFiles : Nat := 0
  multiBlockFiles : Nat := 0
  errors : Nat := 0
  deriving Repr, Inhabited, DecidableEq


/-- `IndexEntry::metadata_from`, time part, as the code was before the repair of D3:
`mtime.as_second()` and `mtime.subsec_nanosecond().try_into::<u32>().unwrap()`.  jiff truncates
toward zero and gives the fraction the sign of the timestamp, so a pre-epoch time with a
fraction made the conversion to `u32` fail: `none` = that `unwrap` panics. -/
def mtimeToIndexTruncating (tNs : Int) : Option (Int × Nat) :=
  let sec := tNs.tdiv nanosPerSec
  let sub := tNs.tmod nanosPerSec
  if sub < 0 then none else some (sec, sub.toNat)

/-- `IndexEntry::metadata_from`, time part (repaired): whole seconds rounded down, so the
fraction is never negative and the conversion to `u32` cannot fail. -/
def mtimeToIndex (tNs : Int) : Option (Int × Nat) :=
  some (tNs.fdiv nanosPerSec, (tNs.fmod nanosPerSec).toNat)

/-- `IndexEntry::metadata_from`: everything but the addresses.  `none` = panic (see `mtimeToIndex`). -/
def metadataFrom (o : BackupOpts) (s : SrcEntry) : Option IndexEntry :=
  match mtimeToIndex s.mtimeNs with
  | none => none
  | some (sec, nanos) =>
    some { apath := s.apath, kind := s.kind, mtime := sec, mtimeNanos := nanos,
           unixMode := some s.unixMode,
           user := if o.owner then s.user else none,
           group := if o.owner then s.group else none,
           addrs := [], target := s.target }

/-- State of `BackupWriter` + `IndexWriter` + `FileCombiner` + the `exists` set of `BlockDir`. -/
structure Writer where
  band : Nat
  pending : List IndexEntry := []                    -- IndexWriter.entries
  sequence : Nat := 0
  hunksWritten : Nat := 0
  exists_ : List Str := []                           -- BlockDir.exists (hashes as names)
  buf : Str := []                                    -- FileCombiner.buf
  queue : List (Nat × Nat × IndexEntry) := []        -- FileCombiner.queue (start, len, entry)
  finished : List IndexEntry := []                   -- FileCombiner.finished
  stats : Stats := {}
  deriving Repr, Inhabited

section
variable (H : Str → Str)

/-- `BlockDir::store_or_deduplicate`.  The error is returned as a value because callers
keep running with the state as it is at that point. -/
def storeOrDedup (w : Writer) (data : Str) : Prog (Writer × Except Err Str) := do
  let h := H data
  if w.exists_.contains h then
    pure ({ w with stats := { w.stats with deduplicatedBlocks := w.stats.deduplicatedBlocks + 1,
                                           deduplicatedBytes := w.stats.deduplicatedBytes + data.length } }, .ok h)
  else
    match ← perform (.createDir (.blockDir (h.take subdirNameChars))) with
    | .err e => pure (w, .error (.transport e))
    | _ =>
      match ← perform (.write (.block h) (.blockData data) .createNew) with
      | .unit =>
        pure ({ w with exists_ := h :: w.exists_,
                       stats := { w.stats with writtenBlocks := w.stats.writtenBlocks + 1,
                                               uncompressedBytes := w.stats.uncompressedBytes + data.length } }, .ok h)
      | .err e => pure (w, .error (.transport e))
      | _ => pure (w, .error (.transport .other))

/-- `FileCombiner::flush`.  The buffer is taken before the store; if the store fails it is put
back, so that the queued (start, len) pairs keep describing it and a later flush retries.
(`combinerFlushLosing` below is the code before the repair of D5, which dropped the buffer.) -/
def combinerFlush (w : Writer) : Prog (Writer × Except Err Unit) := do
  if w.queue.isEmpty then pure (w, .ok ())
  else
    let data := w.buf
    let w := { w with buf := [] }
    let (w, r) ← storeOrDedup H w data
    match r with
    | .error e => pure ({ w with buf := data }, .error e)
    | .ok h =>
      let done := w.queue.map fun (start, len, e) => { e with addrs := [{ hash := h, start := start, len := len }] }
      pure ({ w with finished := w.finished ++ done, queue := [],
                     stats := { w.stats with combinedBlocks := w.stats.combinedBlocks + 1 } }, .ok ())

/-- `FileCombiner::push_file` for a non-empty small file. -/
def combinerPush (o : BackupOpts) (w : Writer) (s : SrcEntry) : Prog (Writer × Except Err Unit) := do
  match metadataFrom o s with
  | none => .panic "metadata_from: mtime_nanos try_into u32 unwrap"
  | some ie =>
    let start := w.buf.length
    let data := s.content.take s.size                 -- one `read` into a buffer of the expected length
    if data.isEmpty then
      pure ({ w with finished := w.finished ++ [ie],
                     stats := { w.stats with emptyFiles := w.stats.emptyFiles + 1 } }, .ok ())
    else
      let w := { w with buf := w.buf ++ data, queue := w.queue ++ [(start, data.length, ie)],
                        stats := { w.stats with smallCombinedFiles := w.stats.smallCombinedFiles + 1 } }
      if w.buf.length ≥ o.maxBlockSize then combinerFlush H w else pure (w, .ok ())

/-- Successive reads of at most `n` bytes until an empty read (`read_with_retries`). -/
def chunks (n : Nat) (data : Str) : List Str :=
  if h : n = 0 ∨ data = [] then []
  else data.take n :: chunks n (data.drop n)
termination_by data.length
decreasing_by
  simp only [List.length_drop]
  have : data.length > 0 := by
    cases data with
    | nil => simp at h
    | cons _ _ => simp
  omega

/-- `store_file_content`: one block per chunk; stops at the first failing store. -/
def storeChunks (w : Writer) : List Str → List Addr → Prog (Writer × Except Err (List Addr))
  | [], acc => pure (w, .ok acc)
  | c :: cs, acc => do
    let (w, r) ← storeOrDedup H w c
    match r with
    | .error e => pure (w, .error e)
    | .ok h => storeChunks w cs (acc ++ [{ hash := h, start := 0, len := c.length }])

def storeFileContent (o : BackupOpts) (w : Writer) (s : SrcEntry) : Prog (Writer × Except Err (List Addr)) := do
  let (w, r) ← storeChunks H w (chunks o.maxBlockSize s.content) []
  match r with
  | .error e => pure (w, .error e)
  | .ok addrs =>
    let st := w.stats
    let st := match addrs.length with
      | 0 => { st with emptyFiles := st.emptyFiles + 1 }
      | 1 => { st with singleBlockFiles := st.singleBlockFiles + 1 }
      | _ => { st with multiBlockFiles := st.multiBlockFiles + 1 }
    pure ({ w with stats := st }, .ok addrs)

/-- `content_heuristically_unchanged` for a source *file*; `none` = `IndexEntry::mtime()` panics. -/
def heuristicallyUnchanged (s : SrcEntry) (b : IndexEntry) : Option Bool :=
  if b.kind != s.kind then some false
  else match entryTimeNs b.mtime b.mtimeNanos with
    | none => none
    | some t => some (t == s.mtimeNs && b.size == s.size)

/-- `BackupWriter::copy_file`. -/
def copyFile (o : BackupOpts) (w : Writer) (basis : Option IndexEntry) (s : SrcEntry) :
    Prog (Writer × Except Err (Option ChangeKind)) := do
  let w := { w with stats := { w.stats with files := w.stats.files + 1 } }
  -- decide between "unchanged: copy the basis addresses" and "store"
  let decision : Except String (Writer × Option (IndexEntry × ChangeKind) × ChangeKind) :=
    match basis with
    | none => .ok ({ w with stats := { w.stats with newFiles := w.stats.newFiles + 1 } }, none, .added)
    | some b =>
      match heuristicallyUnchanged s b with
      | none => .error "IndexEntry::mtime: Timestamp::new expect"
      | some false => .ok ({ w with stats := { w.stats with modifiedFiles := w.stats.modifiedFiles + 1 } }, none, .changed)
      | some true =>
        if b.addrs.all (fun a => w.exists_.contains a.hash) then
          match metadataFrom o s with
          | none => .error "metadata_from: mtime_nanos try_into u32 unwrap"
          | some ie =>
            let ne := { ie with addrs := b.addrs }
            .ok ({ w with stats := { w.stats with unmodifiedFiles := w.stats.unmodifiedFiles + 1 } },
                 some (ne, if ne = b then .unchanged else .changed), .changed)
        else
          .ok ({ w with stats := { w.stats with modifiedFiles := w.stats.modifiedFiles + 1,
                                                replacedDamagedBlocks := w.stats.replacedDamagedBlocks + 1 } }, none, .changed)
  match decision with
  | .error site => .panic site
  | .ok (w, some (ne, ck), _) => pure ({ w with pending := w.pending ++ [ne] }, .ok (some ck))
  | .ok (w, none, ck) =>
    if s.size = 0 then
      match metadataFrom o s with
      | none => .panic "metadata_from: mtime_nanos try_into u32 unwrap"
      | some ie =>
        pure ({ w with pending := w.pending ++ [ie],
                       stats := { w.stats with emptyFiles := w.stats.emptyFiles + 1 } }, .ok (some ck))
    else if s.size ≤ o.smallFileCap then
      let (w, r) ← combinerPush H o w s
      match r with
      | .error e => pure (w, .error e)
      | .ok () => pure (w, .ok (some ck))
    else
      let (w, r) ← storeFileContent H o w s
      match r with
      | .error e => pure (w, .error e)
      | .ok addrs =>
        match metadataFrom o s with
        | none => .panic "metadata_from: mtime_nanos try_into u32 unwrap"
        | some ie => pure ({ w with pending := w.pending ++ [{ ie with addrs := addrs }] }, .ok (some ck))

/-- `BackupWriter::copy_entry`. -/
def copyEntry (o : BackupOpts) (w : Writer) (basis : Option IndexEntry) (s : SrcEntry) :
    Prog (Writer × Except Err (Option ChangeKind)) := do
  match s.kind with
  | .dir =>
    match metadataFrom o s with
    | none => .panic "metadata_from: mtime_nanos try_into u32 unwrap"
    | some ie => pure ({ w with pending := w.pending ++ [ie],
                                stats := { w.stats with directories := w.stats.directories + 1 } }, .ok none)
  | .symlink =>
    match metadataFrom o s with
    | none => .panic "metadata_from: mtime_nanos try_into u32 unwrap"
    | some ie => pure ({ w with pending := w.pending ++ [ie],
                                stats := { w.stats with symlinks := w.stats.symlinks + 1 } }, .ok none)
  | .file => copyFile H o w basis s
  | .unknown => pure ({ w with stats := { w.stats with unknownKind := w.stats.unknownKind + 1 } }, .ok none)

/-- `IndexWriter::finish_hunk`; errors abort the backup. -/
def finishHunk (w : Writer) : Prog Writer := do
  if w.pending.isEmpty then pure w
  else
    let es := w.pending.mergeSort fun a b => apathLe a.apath b.apath
    if w.sequence % hunksPerSubdir = 0 then
      performUnit (.createDir (.hunkDir w.band (w.sequence / hunksPerSubdir)))
    performUnit (.write (.hunk w.band w.sequence) (.hunk es) .createNew)
    pure { w with pending := [], sequence := w.sequence + 1, hunksWritten := w.hunksWritten + 1 }

/-- `BackupWriter::flush_group`: drain the combiner, then write the hunk. -/
def flushGroup (w : Writer) : Prog Writer := do
  let (w, r) ← combinerFlush H w
  match r with
  | .error e => .fail e
  | .ok () =>
    finishHunk { w with pending := w.pending ++ w.finished, finished := [] }

/-- One step of `MergeTrees::next` over the collected basis listing and the source walk. -/
inductive Matched
  | left (b : IndexEntry)
  | right (s : SrcEntry)
  | both (b : IndexEntry) (s : SrcEntry)
  deriving Repr, Inhabited

def mergeTrees : List IndexEntry → List SrcEntry → List Matched
  | [], ss => ss.map .right
  | bs, [] => bs.map .left
  | b :: bs, s :: ss =>
    match apathCmp b.apath s.apath with
    | .eq => .both b s :: mergeTrees bs ss
    | .lt => .left b :: mergeTrees bs (s :: ss)
    | .gt => .right s :: mergeTrees (b :: bs) ss

/-- The main loop of `backup()`. -/
def backupLoop (o : BackupOpts) : Writer → List Matched → Prog Writer
  | w, [] => pure w
  | w, .left b :: rest => do
    report (.change b.apath .deleted)
    backupLoop o w rest
  | w, m :: rest => do
    let (basis, s) := match m with
      | .right s => (none, s)
      | .both b s => (some b, s)
      | .left _ => (none, default)      -- not reached
    let (w, r) ← copyEntry H o w basis s
    match r with
    | .error e =>
      logError e
      backupLoop o { w with stats := { w.stats with errors := w.stats.errors + 1 } } rest
    | .ok ch =>
      match ch with
      | some ck => report (.change s.apath ck)
      | none => pure ()
      let w ← if w.pending.length + w.queue.length ≥ o.maxEntriesPerHunk then flushGroup H w else pure w
      backupLoop o w rest

/-- `backup(archive, source, options)`; `src` is the source walk (root first). -/
def backup (o : BackupOpts) (src : List SrcEntry) : Prog Stats := do
  if ← gcIsLocked then .fail .gcLockHeld
  let basisBand ← lastBandId
  let band ← bandCreate                     -- "Create the new band only after finding the basis band!"
  if ← gcLockListed then .fail .gcLockHeld   -- second look at the lock, now that the band is visible
  let blocks ← listBlocks
  let basis ← match basisBand with
    | some b => listEntries b [slash] (fun _ => false)
    | none => pure []
  let w : Writer := { band := band, exists_ := blocks }
  let w ← backupLoop H o w (mergeTrees basis src)
  let w ← flushGroup H w
  let w ← finishHunk w
  bandClose w.band w.hunksWritten
  pure w.stats

end

end Conserve
