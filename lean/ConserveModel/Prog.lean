import ConserveModel.Store
/-
Programs over the seven storage operations, and their interpreters.

Every archive-level function of conserve (backup, delete, validate, list, …) is written once
as a `Prog`: a tree whose nodes are storage operations and whose leaves are a result, a
conserve `Error` (`fail`, every Rust `?`) or a panic (`unwrap/expect/assert!` that can be
reached from stored data).  Interpreters give the sequential semantics with injected
faults and crash points (`run`), and small steps for interleavings (`Conc.lean`).
-/
namespace Conserve

/-- Classes of `conserve::Error` the checks distinguish. -/
inductive Err
  | transport (k : ErrKind)
  | json                         -- jsonio::Error::Json / DeserializeJson / Snappy decompression
  | notAnArchive | unsupportedArchiveVersion
  | bandHeadMissing (b : Nat) | unsupportedBandVersion (b : Nat) | unsupportedBandFlags (b : Nat)
  | bandNotFound (b : Nat) | noCompleteBands | archiveEmpty
  | gcLockHeld | deleteWithIncompleteBackup (b : Nat) | gcLockHeldDuringBackup
  | listBlocks (k : ErrKind)
  | blockCorrupt (h : Str) | blockTooShort (h : Str) | blockMissing (h : Str)
  | restoreFileBlock (apath : Str) (h : Str)
  | invalidMetadata
  | destinationNotEmpty
  | callback
  deriving DecidableEq, Repr, Inhabited

inductive ChangeKind
  | added | changed | unchanged | deleted
  deriving DecidableEq, Repr, Inhabited

/-- What a program reports besides its result: `monitor.error(..)` and change callbacks. -/
inductive Event
  | error (e : Err)
  | change (apath : Str) (c : ChangeKind)
  deriving DecidableEq, Repr, Inhabited

inductive Prog (α : Type) where
  | ret (a : α)
  | fail (e : Err)
  | panic (site : String)
  | emit (ev : Event) (k : Prog α)
  | op (o : Op) (k : Resp → Prog α)

namespace Prog

def bind {α β : Type} : Prog α → (α → Prog β) → Prog β
  | .ret a, f => f a
  | .fail e, _ => .fail e
  | .panic s, _ => .panic s
  | .emit ev k, f => .emit ev (k.bind f)
  | .op o k, f => .op o (fun r => (k r).bind f)

instance : Monad Prog where
  pure := .ret
  bind := Prog.bind

/-- Issue one operation and get its response. -/
def perform (o : Op) : Prog Resp := .op o .ret

/-- `monitor.error(e)`. -/
def logError (e : Err) : Prog Unit := .emit (.error e) (.ret ())

def report (ev : Event) : Prog Unit := .emit ev (.ret ())

/-- Turn a conserve error into a value (Rust `match … { Err(e) => … }`); panics propagate. -/
def attempt {α : Type} : Prog α → Prog (Except Err α)
  | .ret a => .ret (.ok a)
  | .fail e => .ret (.error e)
  | .panic s => .panic s
  | .emit ev k => .emit ev k.attempt
  | .op o k => .op o (fun r => (k r).attempt)

end Prog

/-- Identity of an operation that does not depend on the order of unrelated reads:
the `n`-th (0-based) attempt of `verb` on `key`. -/
structure OpId where
  verb : Verb
  key : Key
  nth : Nat
  deriving DecidableEq, Repr, Inhabited

structure Fault where
  at_ : OpId
  kind : ErrKind
  deriving DecidableEq, Repr, Inhabited

structure TraceEv where
  op : Op
  resp : Resp
  deriving Repr, Inhabited

/-- The world a program runs in. -/
structure World where
  store : Store
  /-- does the transport refuse `CreateNew` onto an existing non-empty file? -/
  enforceCreateNew : Bool := true
  faults : List Fault := []
  /-- `some j`: the world stops before mutating micro-step `j` (0-based).  A `write` is two
  micro-steps (create the file empty; fill it), every other mutating operation one. -/
  crashAt : Option Nat := none
  /-- successful mutating micro-steps performed so far -/
  steps : Nat := 0
  /-- operations attempted so far, newest first (for `OpId` counting and the trace) -/
  trace : List TraceEv := []
  /-- events emitted so far, newest first -/
  events : List Event := []
  dead : Bool := false
  deriving Inhabited

def World.occurrences (w : World) (v : Verb) (k : Key) : Nat :=
  (w.trace.filter fun ev => ev.op.verb == v && ev.op.key == k).length

def World.faultFor (w : World) (o : Op) : Option ErrKind :=
  let n := w.occurrences o.verb o.key
  (w.faults.find? fun f => f.at_.verb == o.verb && f.at_.key == o.key && f.at_.nth == n).map (·.kind)

def World.crashesAt (w : World) (step : Nat) : Bool := w.crashAt == some step

/-- Execute one operation: dead world → everything fails and nothing is touched or recorded;
injected fault → error without touching storage; crash point reached → the world dies
(for a write possibly after creating the empty file); otherwise `applyOp`. -/
def World.exec (w : World) (o : Op) : World × Resp :=
  if w.dead then (w, .err .other)
  else
    match w.faultFor o with
    | some e => ({ w with trace := ⟨o, .err e⟩ :: w.trace }, .err e)
    | none =>
      if !o.isMutating then
        let (_, r) := applyOp w.enforceCreateNew w.store o
        ({ w with trace := ⟨o, r⟩ :: w.trace }, r)
      else if w.crashesAt w.steps then
        ({ w with dead := true }, .err .other)
      else
        match o with
        | .write k v m =>
          -- micro-step 1: the file comes into existence, empty
          let (s1, r1) := applyOp w.enforceCreateNew w.store (.write k .empty m)
          match r1 with
          | .unit =>
            if w.crashesAt (w.steps + 1) then
              ({ w with store := s1, steps := w.steps + 1, dead := true }, .err .other)
            else
              -- micro-step 2: the content arrives
              ({ w with store := s1.put k v, steps := w.steps + 2, trace := ⟨o, .unit⟩ :: w.trace }, .unit)
          | r => ({ w with trace := ⟨o, r⟩ :: w.trace }, r)
        | _ =>
          let (s', r) := applyOp w.enforceCreateNew w.store o
          let n := match r with
            | .err _ => w.steps
            | _ => w.steps + 1
          ({ w with store := s', steps := n, trace := ⟨o, r⟩ :: w.trace }, r)

inductive Outcome (α : Type)
  | ok (a : α)
  | err (e : Err)
  | panic (site : String)
  deriving Repr, Inhabited

/-- Catch conserve errors and panics alike (what a scope guard / `Drop` during unwinding sees). -/
def Prog.attemptAll {α : Type} : Prog α → Prog (Outcome α)
  | .ret a => .ret (.ok a)
  | .fail e => .ret (.err e)
  | .panic s => .ret (.panic s)
  | .emit ev k => .emit ev k.attemptAll
  | .op o k => .op o (fun r => (k r).attemptAll)

/-- Sequential interpreter. -/
def Prog.run {α : Type} : Prog α → World → Outcome α × World
  | .ret a, w => (.ok a, w)
  | .fail e, w => (.err e, w)
  | .panic s, w => (.panic s, w)
  | .emit ev k, w => k.run { w with events := ev :: w.events }
  | .op o k, w =>
    let (w', r) := w.exec o
    (k r).run w'

def World.clean (s : Store) : World := { store := s }

end Conserve
