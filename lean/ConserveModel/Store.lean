import ConserveModel.Entry
/-
The abstract archive store: everything conserve keeps on storage, addressed through the
seven operations of `Transport` (src/transport.rs).  A file is its *decoded* value
(Snappy and JSON are abstracted away), or `empty` (zero length), or `junk` (undecodable).
-/
namespace Conserve

def hunksPerSubdir : Nat := 10000          -- index::HUNKS_PER_SUBDIR
def subdirNameChars : Nat := 3             -- blockdir::SUBDIR_NAME_CHARS

/-- Paths below the archive root, structured.  `render` in Driver/ gives the real path. -/
inductive Key
  | root                          -- ""
  | header                        -- CONSERVE
  | gcLock                        -- GC_LOCK
  | bandDir (b : Nat)             -- bNNNN
  | bandHead (b : Nat)            -- bNNNN/BANDHEAD
  | bandTail (b : Nat)            -- bNNNN/BANDTAIL
  | indexDir (b : Nat)            -- bNNNN/i
  | hunkDir (b d : Nat)           -- bNNNN/i/DDDDD
  | hunk (b seq : Nat)            -- bNNNN/i/DDDDD/SSSSSSSSS, DDDDD = seq / 10000
  | blockRoot                     -- d
  | blockDir (p : Str)            -- d/xxx
  | block (h : Str)               -- d/xxx/<128 hex>, xxx = first three characters of the name
  | other (path : Str)            -- anything else directly in the archive directory
  deriving DecidableEq, Repr, Inhabited

def Key.parent : Key → Option Key
  | .root => none
  | .header | .gcLock | .bandDir _ | .blockRoot | .other _ => some .root
  | .bandHead b | .bandTail b | .indexDir b => some (.bandDir b)
  | .hunkDir b _ => some (.indexDir b)
  | .hunk b s => some (.hunkDir b (s / hunksPerSubdir))
  | .blockDir _ => some .blockRoot
  | .block h => some (.blockDir (h.take subdirNameChars))

/-- Depth below the root (root = 0, hunk = 4). -/
def Key.depth : Key → Nat
  | .root => 0
  | .header | .gcLock | .bandDir _ | .blockRoot | .other _ => 1
  | .bandHead _ | .bandTail _ | .indexDir _ | .blockDir _ => 2
  | .hunkDir _ _ | .block _ => 3
  | .hunk _ _ => 4

/-- Is `k` equal to `anc` or somewhere below it? -/
def Key.isUnder (anc : Key) (k : Key) : Bool :=
  k == anc ||
  match k.parent with
  | none => false
  | some p => p == anc ||
    match p.parent with
    | none => false
    | some q => q == anc ||
      match q.parent with
      | none => false
      | some r => r == anc ||
        match r.parent with
        | none => false
        | some t => t == anc

/-- `band_format_version` of a BANDHEAD, classified the way `Band::open` uses it. -/
inductive VerClass
  | absent      -- field missing: accepted as an old band
  | ok          -- semver ≤ the program version
  | tooNew      -- semver > the program version: `UnsupportedBandVersion`
  | invalid     -- not semver: `Version::parse(..).unwrap()` panics
  deriving DecidableEq, Repr, Inhabited

inductive FileVal
  | dir
  | empty                                   -- zero-length file (what a killed write leaves)
  | header (version : Str)                  -- CONSERVE {"conserve_archive_version": ..}
  | head (ver : VerClass) (flags : List Str)  -- BANDHEAD (start_time dropped)
  | tail (hunkCount : Option Nat)           -- BANDTAIL (end_time dropped)
  | hunk (es : List IndexEntry)             -- decoded index hunk
  | blockData (content : Str)               -- decompressed block content
  | lock                                    -- GC_LOCK "{}"
  | junk (id : Nat)                         -- undecodable bytes (identity kept for write-once checks)
  deriving DecidableEq, Repr, Inhabited

def FileVal.isDir : FileVal → Bool
  | .dir => true
  | _ => false

def FileVal.isEmptyFile : FileVal → Bool
  | .empty => true
  | _ => false

/-- Association list; `NoDupKeys` is kept as a separate invariant. -/
abbrev Store := List (Key × FileVal)

def Store.get? (s : Store) (k : Key) : Option FileVal := s.lookup k

def Store.has (s : Store) (k : Key) : Bool := (s.get? k).isSome

def Store.erase (s : Store) (k : Key) : Store := s.filter (fun kv => kv.1 != k)

def Store.put (s : Store) (k : Key) (v : FileVal) : Store := (s.erase k) ++ [(k, v)]

def Store.eraseTree (s : Store) (k : Key) : Store := s.filter (fun kv => !(Key.isUnder k kv.1))

structure DirEnt where
  key : Key
  isDir : Bool
  nonEmpty : Bool          -- files: length > 0
  deriving DecidableEq, Repr, Inhabited

def Store.children (s : Store) (k : Key) : List DirEnt :=
  (s.filter (fun kv => kv.1.parent == some k)).map fun kv =>
    { key := kv.1, isDir := kv.2.isDir, nonEmpty := !kv.2.isDir && !kv.2.isEmptyFile }

inductive WriteMode
  | overwrite | createNew
  deriving DecidableEq, Repr, Inhabited

inductive Verb
  | read | write | listDir | createDir | metadata | removeFile | removeDirAll
  deriving DecidableEq, Repr, Inhabited

inductive Op
  | read (k : Key)
  | write (k : Key) (v : FileVal) (m : WriteMode)
  | listDir (k : Key)
  | createDir (k : Key)
  | metadata (k : Key)
  | removeFile (k : Key)
  | removeDirAll (k : Key)
  deriving DecidableEq, Repr, Inhabited

def Op.verb : Op → Verb
  | .read _ => .read | .write .. => .write | .listDir _ => .listDir | .createDir _ => .createDir
  | .metadata _ => .metadata | .removeFile _ => .removeFile | .removeDirAll _ => .removeDirAll

def Op.key : Op → Key
  | .read k | .write k _ _ | .listDir k | .createDir k | .metadata k | .removeFile k
  | .removeDirAll k => k

def Op.isMutating : Op → Bool
  | .write .. | .createDir _ | .removeFile _ | .removeDirAll _ => true
  | _ => false

/-- `transport::ErrorKind`, as far as local storage and injected faults produce it. -/
inductive ErrKind
  | notFound | alreadyExists | permissionDenied | other
  deriving DecidableEq, Repr, Inhabited

inductive Resp
  | val (v : FileVal)
  | listing (xs : List DirEnt)
  | stat (isFile : Bool) (nonEmpty : Bool)
  | unit
  | err (e : ErrKind)
  deriving DecidableEq, Repr, Inhabited

/-- Does the parent directory of `k` exist (as a directory)? -/
def Store.parentOk (s : Store) (k : Key) : Bool :=
  match k.parent with
  | none => true
  | some p => s.get? p == some .dir

/-- One storage operation on local storage, fault-free.  `enforceCreateNew` says whether the
transport refuses a `CreateNew` write onto an existing non-empty file. -/
def applyOp (enforceCreateNew : Bool) (s : Store) : Op → Store × Resp
  | .read k =>
    match s.get? k with
    | none => (s, .err .notFound)
    | some .dir => (s, .err .other)
    | some v => (s, .val v)
  | .write k v m =>
    if !s.parentOk k then (s, .err .notFound)
    else match s.get? k with
      | some .dir => (s, .err .other)
      | some old =>
        if m == .createNew && enforceCreateNew && !old.isEmptyFile then (s, .err .alreadyExists)
        else (s.put k v, .unit)
      | none => (s.put k v, .unit)
  | .listDir k =>
    match s.get? k with
    | none => (s, .err .notFound)
    | some .dir => (s, .listing (s.children k))
    | some _ => (s, .err .other)
  | .createDir k =>
    if s.has k then (s, .unit)                       -- AlreadyExists is tolerated
    else if !s.parentOk k then (s, .err .notFound)
    else (s.put k .dir, .unit)
  | .metadata k =>
    match s.get? k with
    | none => (s, .err .notFound)
    | some v => (s, .stat (!v.isDir) (!v.isDir && !v.isEmptyFile))
  | .removeFile k =>
    match s.get? k with
    | none => (s, .err .notFound)
    | some .dir => (s, .err .other)
    | some _ => (s.erase k, .unit)
  | .removeDirAll k =>
    match s.get? k with
    | none => (s, .err .notFound)
    | some _ => (s.eraseTree k, .unit)

end Conserve
