/-
Protocol skeleton of one backup racing one delete / garbage collection (property C06).

The full programs (`Backup.lean`, `Gc.lean`) are explored under `Conc.runSched`; this file is the
small abstraction on which the *unbounded* statements are proved: unboundedly many bands and
blocks, but only what the interlock depends on.

  shared state   bands (id, head written, complete flag, referenced block ids), present block ids, GC_LOCK flag
  backup  (src/backup.rs `backup`, src/band.rs `Band::create`, src/blockdir.rs `store_or_deduplicate`)
      B.lockCheck  `is_file(GC_LOCK)` once; present ⇒ `GarbageCollectionLockHeld`
      B.listBasis  `last_band_id` for the basis (no effect on the skeleton)
      B.listId     `last_band_id` in `Band::create`: new id = newest + 1 (0 if none)
      B.mkdir      `create_dir bN` (tolerant of AlreadyExists)
      B.head       `create_dir bN/i`, `write bN/BANDHEAD`: fails when the band directory is gone
      B.lockCheck2 (only when `recheck`; the repair "backup looks for the gc lock again after creating
                   its band") `list_dir ""`: a GC_LOCK file there ⇒ `GarbageCollectionLockHeld`; the
                   band stays behind with a head and no tail
      B.listBlocks `block_dir()`: the in-memory `exists` set := present
      B.block g    `store_or_deduplicate`: g ∈ `exists` ⇒ NO I/O; else write g, insert into `exists`
      B.hunk       index hunk naming every needed block; fails when the band directory is gone
      B.tail       `write bN/BANDTAIL`
  gc / delete  (src/gc_lock.rs, src/archive.rs `delete_bands`, not dry-run, no break_lock)
      G.last       `last_band_id` remembered in the lock object
      G.tailCheck  `band_is_closed(newest)`; open ⇒ `DeleteWithIncompleteBackup`
      G.lockCheck  `is_file(GC_LOCK)`; present ⇒ `GarbageCollectionLockHeld`
      G.lockWrite  `write GC_LOCK` (CreateNew)
      G.listKeep   `list_band_ids` minus the bands to delete
      G.readRefs   `referenced_blocks(keep)`; a kept band without a head is an error (`Band::open`)
      G.listBlocks `block_dir()`; unref := present − referenced
      G.stat g     `compressed_size` of every unreferenced block
      G.check      `check()`: `last_band_id` again, compare with the remembered one
      G.rmBand b   `Band::delete` per requested band (`BandNotFound` aborts)
      G.rmBlock g  `delete_block` per unreferenced block, in the order of `unref`
      G.unlock     `remove_file(GC_LOCK)` (also the `Drop` of the lock object on every error path
                   after the lock was written)

Every event is one atomic step on the shared state.  Core only; no proofs here.

The skeleton is parametric in `recheck : Bool` (`Config.recheck`, copied into `BSt.recheck`):
`recheck = false` is the backup as it was when defect D7 was found (`B.head` is followed by
`B.listBlocks`), `recheck = true` is the repaired backup (`B.head`, `B.lockCheck2`, `B.listBlocks`).
-/
namespace Conserve.Proto

structure Band where
  id : Nat
  /-- `BANDHEAD` has been written -/
  head : Bool
  /-- `BANDTAIL` has been written -/
  complete : Bool
  refs : List Nat
  deriving DecidableEq, Repr, Inhabited

/-- Events (one per storage-operation class).  `bBlock g wrote`: `wrote = false` is the
deduplication against the in-memory `exists` set, which performs no storage operation. -/
inductive Ev
  | bLockCheck | bListBasis | bListId | bMkdir | bHead | bLockCheck2 | bListBlocks
  | bBlock (g : Nat) (wrote : Bool) | bHunk | bTail
  | gLast | gTailCheck | gLockCheck | gLockWrite | gListKeep | gReadRefs | gListBlocks
  | gStat (g : Nat) | gCheck | gRmBand (b : Nat) | gRmBlock (g : Nat) | gUnlock
  deriving DecidableEq, Repr

/-- Program counter of the backup: the event it will perform next.  `blocks` covers the
`B.block` events and, once every needed block is handled, `B.hunk`.  `refused` = the lock was
present at `B.lockCheck` (nothing written); `refused2` = the lock was present at `B.lockCheck2`
(the new band stays: head, no tail, no references); `failed` = a write into the band directory
failed (after `B.mkdir`). -/
inductive BPc
  | lockCheck | listBasis | listId | mkdir | head | lockCheck2 | listBlocks | blocks | tail
  | done | refused | refused2 | failed
  deriving DecidableEq, Repr

/-- Program counter of gc.  `measure` covers the `G.stat` events and then `G.check`;
`sweep` covers `G.rmBand`s, then `G.rmBlock`s, then the final `G.unlock`;
`abort` = an error while the lock is held (the pending `Drop` removes the lock);
`refused` = an error before the lock was written. -/
inductive GPc
  | last | tailCheck | lockCheck | lockWrite | listKeep | readRefs | listBlocks | measure
  | sweep | abort | done | refused | failed
  deriving DecidableEq, Repr

structure BSt where
  pc : BPc := .lockCheck
  /-- block ids the new version needs, in the order the source walk meets them -/
  needed : List Nat
  todo : List Nat := []
  newId : Nat := 0
  /-- the in-memory `exists` set of the `BlockDir` -/
  exists_ : List Nat := []
  /-- the backup looks for the lock again after creating its band (never changes) -/
  recheck : Bool := false
  deriving DecidableEq, Repr

structure GSt where
  pc : GPc := .last
  /-- bands requested for deletion (empty for a pure gc) -/
  del : List Nat
  newest : Option Nat := none
  keep : List Nat := []
  referenced : List Nat := []
  unref : List Nat := []
  toStat : List Nat := []
  /-- `check()` succeeded -/
  passed : Bool := false
  todoBands : List Nat := []
  todoBlocks : List Nat := []
  deriving DecidableEq, Repr

structure State where
  bands : List Band
  present : List Nat
  lock : Bool
  b : BSt
  g : GSt
  /-- events performed so far, newest first -/
  log : List Ev := []
  deriving DecidableEq, Repr

/-- An archive plus the parameters of the two commands. -/
structure Config where
  bands : List Band
  present : List Nat
  lock : Bool := false
  /-- bands the delete command names -/
  del : List Nat := []
  /-- blocks the new source needs -/
  needed : List Nat := []
  /-- `false`: the backup before the repair of D7; `true`: the repaired backup -/
  recheck : Bool := false
  deriving DecidableEq, Repr

def Config.start (c : Config) : State :=
  { bands := c.bands, present := c.present, lock := c.lock,
    b := { needed := c.needed, recheck := c.recheck }, g := { del := c.del } }

/-- `Archive::last_band_id`. -/
def newestId : List Band → Option Nat
  | [] => none
  | b :: bs =>
    match newestId bs with
    | none => some b.id
    | some m => some (max b.id m)

def nextId (bs : List Band) : Nat :=
  match newestId bs with
  | none => 0
  | some m => m + 1

def hasBand (bs : List Band) (i : Nat) : Bool := bs.any fun b => b.id == i

def setRefs (i : Nat) (refs : List Nat) (b : Band) : Band :=
  if b.id = i then { b with refs := refs } else b

def setHead (i : Nat) (b : Band) : Band :=
  if b.id = i then { b with head := true } else b

def setComplete (i : Nat) (b : Band) : Band :=
  if b.id = i then { b with complete := true } else b

/-- `band_is_closed` of the remembered newest band (vacuously true for an empty archive). -/
def newestClosed (bs : List Band) : Option Nat → Bool
  | none => true
  | some m => bs.any fun b => b.id == m && b.complete

def BPc.fin : BPc → Bool
  | .done | .refused | .refused2 | .failed => true
  | _ => false

def GPc.fin : GPc → Bool
  | .done | .refused | .failed => true
  | _ => false

/-- One step of the backup (nothing if it has finished). -/
def stepB (p : State) : State :=
  match p.b.pc with
  | .lockCheck =>
    if p.lock then { p with b := { p.b with pc := .refused }, log := .bLockCheck :: p.log }
    else { p with b := { p.b with pc := .listBasis }, log := .bLockCheck :: p.log }
  | .listBasis => { p with b := { p.b with pc := .listId }, log := .bListBasis :: p.log }
  | .listId =>
    { p with b := { p.b with pc := .mkdir, newId := nextId p.bands }, log := .bListId :: p.log }
  | .mkdir =>
    { p with
      bands := if hasBand p.bands p.b.newId then p.bands else p.bands ++ [⟨p.b.newId, false, false, []⟩]
      b := { p.b with pc := .head }, log := .bMkdir :: p.log }
  | .head =>
    if hasBand p.bands p.b.newId then
      if p.b.recheck then
        { p with bands := p.bands.map (setHead p.b.newId)
                 b := { p.b with pc := .lockCheck2 }, log := .bHead :: p.log }
      else
        { p with bands := p.bands.map (setHead p.b.newId)
                 b := { p.b with pc := .listBlocks }, log := .bHead :: p.log }
    else { p with b := { p.b with pc := .failed }, log := .bHead :: p.log }
  | .lockCheck2 =>
    -- src/backup.rs `backup`, after `Band::create`: a plain listing of the archive directory
    if p.lock then { p with b := { p.b with pc := .refused2 }, log := .bLockCheck2 :: p.log }
    else { p with b := { p.b with pc := .listBlocks }, log := .bLockCheck2 :: p.log }
  | .listBlocks =>
    { p with b := { p.b with pc := .blocks, exists_ := p.present, todo := p.b.needed },
             log := .bListBlocks :: p.log }
  | .blocks =>
    match p.b.todo with
    | g :: rest =>
      if g ∈ p.b.exists_ then
        { p with b := { p.b with todo := rest }, log := .bBlock g false :: p.log }
      else
        -- (a block that is present but not in `exists` cannot occur here: nobody else writes blocks)
        { p with present := if g ∈ p.present then p.present else g :: p.present
                 b := { p.b with todo := rest, exists_ := g :: p.b.exists_ }
                 log := .bBlock g true :: p.log }
    | [] =>
      if hasBand p.bands p.b.newId then
        { p with bands := p.bands.map (setRefs p.b.newId p.b.needed)
                 b := { p.b with pc := .tail }, log := .bHunk :: p.log }
      else { p with b := { p.b with pc := .failed }, log := .bHunk :: p.log }
  | .tail =>
    if hasBand p.bands p.b.newId then
      { p with bands := p.bands.map (setComplete p.b.newId)
               b := { p.b with pc := .done }, log := .bTail :: p.log }
    else { p with b := { p.b with pc := .failed }, log := .bTail :: p.log }
  | .done | .refused | .refused2 | .failed => p

/-- One step of gc / delete (nothing if it has finished). -/
def stepG (p : State) : State :=
  match p.g.pc with
  | .last =>
    { p with g := { p.g with pc := .tailCheck, newest := newestId p.bands }, log := .gLast :: p.log }
  | .tailCheck =>
    if newestClosed p.bands p.g.newest then
      { p with g := { p.g with pc := .lockCheck }, log := .gTailCheck :: p.log }
    else { p with g := { p.g with pc := .refused }, log := .gTailCheck :: p.log }
  | .lockCheck =>
    if p.lock then { p with g := { p.g with pc := .refused }, log := .gLockCheck :: p.log }
    else { p with g := { p.g with pc := .lockWrite }, log := .gLockCheck :: p.log }
  | .lockWrite =>
    if p.lock then { p with g := { p.g with pc := .refused }, log := .gLockWrite :: p.log }
    else { p with lock := true, g := { p.g with pc := .listKeep }, log := .gLockWrite :: p.log }
  | .listKeep =>
    { p with g := { p.g with pc := .readRefs, keep := (p.bands.map (·.id)).filter fun i => i ∉ p.g.del },
             log := .gListKeep :: p.log }
  | .readRefs =>
    -- `Band::open` of a kept band whose head is not there yet is an error
    if p.bands.any fun b => decide (b.id ∈ p.g.keep) && !b.head then
      { p with g := { p.g with pc := .abort }, log := .gReadRefs :: p.log }
    else
      { p with g := { p.g with pc := .listBlocks,
                               referenced := (p.bands.filter fun b => b.id ∈ p.g.keep).flatMap (·.refs) },
               log := .gReadRefs :: p.log }
  | .listBlocks =>
    { p with g := { p.g with pc := .measure, unref := p.present.filter fun g => g ∉ p.g.referenced,
                             toStat := p.present.filter fun g => g ∉ p.g.referenced },
             log := .gListBlocks :: p.log }
  | .measure =>
    match p.g.toStat with
    | g :: rest =>
      if g ∈ p.present then { p with g := { p.g with toStat := rest }, log := .gStat g :: p.log }
      else { p with g := { p.g with pc := .abort }, log := .gStat g :: p.log }
    | [] =>
      if newestId p.bands = p.g.newest then
        { p with g := { p.g with pc := .sweep, passed := true, todoBands := p.g.del, todoBlocks := p.g.unref },
                 log := .gCheck :: p.log }
      else { p with g := { p.g with pc := .abort }, log := .gCheck :: p.log }
  | .sweep =>
    match p.g.todoBands with
    | b :: rest =>
      if hasBand p.bands b then
        { p with bands := p.bands.filter fun x => x.id ≠ b
                 g := { p.g with todoBands := rest }, log := .gRmBand b :: p.log }
      else { p with g := { p.g with pc := .abort }, log := .gRmBand b :: p.log }
    | [] =>
      match p.g.todoBlocks with
      | g :: rest =>
        { p with present := p.present.filter fun x => x ≠ g
                 g := { p.g with todoBlocks := rest }, log := .gRmBlock g :: p.log }
      | [] => { p with lock := false, g := { p.g with pc := .done }, log := .gUnlock :: p.log }
  | .abort => { p with lock := false, g := { p.g with pc := .failed }, log := .gUnlock :: p.log }
  | .done | .refused | .failed => p

/-- Upper bound on the steps the backup still takes. -/
def bRank (p : State) : Nat :=
  match p.b.pc with
  | .lockCheck => p.b.needed.length + 9
  | .listBasis => p.b.needed.length + 8
  | .listId => p.b.needed.length + 7
  | .mkdir => p.b.needed.length + 6
  | .head => p.b.needed.length + 5
  | .lockCheck2 => p.b.needed.length + 4
  | .listBlocks => p.b.needed.length + 3
  | .blocks => p.b.todo.length + 2
  | .tail => 1
  | .done | .refused | .refused2 | .failed => 0

/-- Upper bound on the steps gc still takes when nobody else moves. -/
def gRank (p : State) : Nat :=
  match p.g.pc with
  | .last => 2 * p.present.length + p.g.del.length + 10
  | .tailCheck => 2 * p.present.length + p.g.del.length + 9
  | .lockCheck => 2 * p.present.length + p.g.del.length + 8
  | .lockWrite => 2 * p.present.length + p.g.del.length + 7
  | .listKeep => 2 * p.present.length + p.g.del.length + 6
  | .readRefs => 2 * p.present.length + p.g.del.length + 5
  | .listBlocks => 2 * p.present.length + p.g.del.length + 4
  | .measure => p.g.toStat.length + p.g.unref.length + p.g.del.length + 3
  | .sweep => p.g.todoBands.length + p.g.todoBlocks.length + 2
  | .abort => 1
  | .done | .refused | .failed => 0

def runB : Nat → State → State
  | 0, p => p
  | n + 1, p => runB n (stepB p)

def runG : Nat → State → State
  | 0, p => p
  | n + 1, p => runG n (stepG p)

/-- Let the backup run to its end, then gc. -/
def finish (p : State) : State :=
  let p1 := runB (bRank p) p
  runG (gRank p1) p1

abbrev Schedule := List Bool

/-- Follow the schedule (`false` = the backup moves, `true` = gc moves; turns of a finished
actor are skipped), then let the backup run to completion, then gc — as `Conc.runSched`. -/
def runProto : Schedule → State → State
  | [], p => finish p
  | false :: rest, p => runProto rest (stepB p)
  | true :: rest, p => runProto rest (stepG p)

/-! Observations used by the property. -/

def complete (s : State) (b : Band) : Prop := b ∈ s.bands ∧ b.complete = true
def refs (_s : State) (b : Band) : List Nat := b.refs
def present (s : State) : List Nat := s.present

instance (s : State) (b : Band) : Decidable (complete s b) := by unfold complete; infer_instance

/-- Ids of the complete bands that refer to a block that is not there. -/
def danglingBands (s : State) : List Nat :=
  (s.bands.filter fun b => b.complete && b.refs.any fun g => g ∉ s.present).map (·.id)

/-! Orders of events in a log (newest first), used by `SafeOrder`. -/

/-- Every `G.check` in the log has a `B.mkdir` before it. -/
def mkdirBeforeCheck : List Ev → Bool
  | [] => true
  | e :: older => mkdirBeforeCheck older && (e != .gCheck || older.contains .bMkdir)

/-- Every `B.lockCheck` in the log has a `G.lockWrite` before it. -/
def lockWriteBeforeLockCheck : List Ev → Bool
  | [] => true
  | e :: older => lockWriteBeforeLockCheck older && (e != .bLockCheck || older.contains .gLockWrite)

def Ev.isRmBlock : Ev → Bool
  | .gRmBlock _ => true
  | _ => false

/-- No `G.rmBlock` in the log has a `B.listBlocks` before it. -/
def rmBlocksBeforeListBlocks : List Ev → Bool
  | [] => true
  | e :: older => rmBlocksBeforeListBlocks older && (!e.isRmBlock || !older.contains .bListBlocks)

/-- A block that is present but referenced by no band that the command keeps. -/
def garbage (c : Config) (g : Nat) : Prop :=
  g ∈ c.present ∧ ∀ b ∈ c.bands, b.id ∉ c.del → g ∉ b.refs

/-- The event an actor performs next (for the driver / the projection of real runs). -/
def nextEvB (p : State) : Option Ev :=
  match p.b.pc with
  | .lockCheck => some .bLockCheck | .listBasis => some .bListBasis | .listId => some .bListId
  | .mkdir => some .bMkdir | .head => some .bHead | .lockCheck2 => some .bLockCheck2
  | .listBlocks => some .bListBlocks
  | .blocks => match p.b.todo with
    | g :: _ => some (.bBlock g (g ∉ p.b.exists_))
    | [] => some .bHunk
  | .tail => some .bTail
  | _ => none

end Conserve.Proto
