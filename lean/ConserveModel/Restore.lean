import ConserveModel.Backup
/-
Reading file content back (src/blockdir.rs `read_address`, `get_block_content`) and
`restore()` (src/restore.rs) up to the filesystem: the list of things restore creates,
with the metadata it applies.  Filesystem effects themselves are in Fs.lean.
-/
namespace Conserve
open Prog

section
variable (H : Str → Str)

/-- `BlockDir::get_block_content` without the LRU cache (the cache only saves reads). -/
def getBlockContent (h : Str) : Prog (Except Err Str) := do
  match ← perform (.read (.block h)) with
  | .err e => pure (.error (.transport e))
  | .val (.blockData c) => if H c = h then pure (.ok c) else pure (.error (.blockCorrupt h))
  | .val _ => pure (.error .json)                   -- does not decompress
  | _ => pure (.error (.transport .other))

/-- `BlockDir::read_address`. -/
def readAddress (a : Addr) : Prog (Except Err Str) := do
  match ← getBlockContent H a.hash with
  | .error e => pure (.error e)
  | .ok c =>
    if a.start + a.len > c.length then pure (.error (.blockTooShort a.hash))
    else pure (.ok ((c.drop a.start).take a.len))

/-- Content of a file entry: the concatenation of its addresses, up to the first failure. -/
def readContent : List Addr → Str → Prog (Str × Option (Str × Err))
  | [], acc => pure (acc, none)
  | a :: as, acc => do
    match ← readAddress H a with
    | .error e => pure (acc, some (a.hash, e))
    | .ok bytes => readContent as (acc ++ bytes)

/-- One thing restore creates.  `complete = false`: a file whose content stopped at a
failing block (restore leaves it without applying times, mode and owner). -/
structure RNode where
  apath : Str
  kind : Kind
  content : Str := []
  mtime : Int := 0
  mtimeNanos : Nat := 0
  unixMode : Option Nat := none
  user : Option Str := none
  group : Option Str := none
  target : Option Str := none
  complete : Bool := true
  deriving DecidableEq, Repr, Inhabited

def RNode.ofEntry (e : IndexEntry) : RNode :=
  { apath := e.apath, kind := e.kind, mtime := e.mtime, mtimeNanos := e.mtimeNanos,
    unixMode := e.unixMode, user := e.user, group := e.group, target := e.target }

/-- Is `a` strictly below one of the symlinks restored so far (the root never counts)? -/
def belowSymlink (syms : List Str) (a : Str) : Bool :=
  syms.any fun p => p != [slash] && p != a && isPrefixOfImpl p a

/-- The per-entry loop of `restore()`.  `syms` are the apaths of the symlinks restored so far:
nothing is restored below one of them (it is reported instead). -/
def restoreEntries : List Str → List IndexEntry → Prog (List RNode)
  | _, [] => pure []
  | syms, e :: es => do
    if belowSymlink syms e.apath then
      logError .invalidMetadata
      restoreEntries syms es
    else
    match e.kind with
    | .dir =>
      match entryTimeNs e.mtime e.mtimeNanos with
      | none => .panic "IndexEntry::mtime: Timestamp::new expect"
      | some _ =>
        let rest ← restoreEntries syms es
        pure (RNode.ofEntry e :: rest)
    | .file =>
      let (bytes, bad) ← readContent H e.addrs []
      match bad with
      | some (h, _) =>
        logError (.restoreFileBlock e.apath h)
        let rest ← restoreEntries syms es
        pure ({ RNode.ofEntry e with content := bytes, complete := false } :: rest)
      | none =>
        match entryTimeNs e.mtime e.mtimeNanos with
        | none => .panic "IndexEntry::mtime: Timestamp::new expect"
        | some _ =>
          let rest ← restoreEntries syms es
          pure ({ RNode.ofEntry e with content := bytes } :: rest)
    | .symlink =>
      match e.target with
      | none =>
        logError .invalidMetadata
        restoreEntries syms es
      | some _ =>
        match entryTimeNs e.mtime e.mtimeNanos with
        | none => .panic "IndexEntry::mtime: Timestamp::new expect"
        | some _ =>
          let rest ← restoreEntries (e.apath :: syms) es
          pure (RNode.ofEntry e :: rest)
    | .unknown =>
      logError .invalidMetadata
      restoreEntries syms es

/-- `restore(archive, destination, options)` up to the filesystem. -/
def restore (sel : BandSelection) (subtree : Str) (excl : Str → Bool) : Prog (List RNode) := do
  let b ← resolveBandId sel
  bandOpen b                                  -- StoredTree::open
  let _ ← listBlocks                          -- archive.block_dir()
  let es ← listEntries b subtree excl
  restoreEntries H [] es

end

end Conserve
