import ConserveModel.Diff
/-
Specification side of C18: what a comparison of a stored version `A` with a tree `B` should
report, stated over the two path-indexed maps and without any merging.
-/
namespace Conserve.DM

/-- The two trees as partial maps from paths. -/
def lookupA (A : List IndexEntry) (p : Str) : Option IndexEntry := A.find? fun a => a.apath == p
def lookupB (B : List SrcEntry) (p : Str) : Option SrcEntry := B.find? fun b => b.apath == p

/-- The classification of one path: only in the stored version ⇒ deleted, only in the tree ⇒
added, in both ⇒ whatever the metadata comparison says. -/
def classify (A : List IndexEntry) (B : List SrcEntry) (p : Str) : Option ChangeKind :=
  match lookupA A p, lookupB B p with
  | some _, none => some .deleted
  | none, some _ => some .added
  | some a, some b => some (diffMetadata a.meta b.meta)
  | none, none => none

/-- Is a classification reported? (`include_unchanged`) -/
def keep (includeUnchanged : Bool) (k : ChangeKind) : Bool := includeUnchanged || k != .unchanged

def apathLe (x y : Str) : Bool := apathCmp x y != .gt

/-- Every path of either tree, once, in apath order. -/
def unionPaths (A : List IndexEntry) (B : List SrcEntry) : List Str :=
  (A.map (·.apath) ++ (B.map (·.apath)).filter fun p => !(A.map (·.apath)).contains p).mergeSort
    apathLe

/-- The expected report: walk all paths in order, classify each, drop the unreported. -/
def specDiff (A : List IndexEntry) (B : List SrcEntry) (includeUnchanged : Bool) :
    List (Str × ChangeKind) :=
  (unionPaths A B).filterMap fun p =>
    match classify A B p with
    | some k => if keep includeUnchanged k then some (p, k) else none
    | none => none

/-- "`e` is the index entry a backup made from source entry `s`": the metadata of
`IndexEntry::metadata_from(s)` (mtime encoded by `enc`), any addresses, and — for files — as
many stored bytes as the file has (`Σ addr.len = size`, C01 a). -/
def MadeFromWith (enc : Int → Outcome (Int × Nat)) (e : IndexEntry) (s : SrcEntry) : Prop :=
  ∃ m, metadataFromWith enc s = .ok m ∧ e = { m with addrs := e.addrs } ∧
    (s.kind = .file → e.size = s.size)

/-- With the mtime encoding of the code as it is (floor seconds, after commit 6ea0861). -/
def MadeFrom (e : IndexEntry) (s : SrcEntry) : Prop := MadeFromWith toIndex e s

/-- An mtime encoding is exact when the stored pair denotes the encoded instant. -/
def EncExact (enc : Int → Outcome (Int × Nat)) : Prop :=
  ∀ t p, enc t = .ok p → p.1 * nsPerSec + p.2 = t

/-- Two lists that correspond entry by entry (core has no `Forall₂`). -/
inductive Pointwise {α β : Type} (R : α → β → Prop) : List α → List β → Prop
  | nil : Pointwise R [] []
  | cons {a : α} {b : β} {as : List α} {bs : List β} :
      R a b → Pointwise R as bs → Pointwise R (a :: as) (b :: bs)

end Conserve.DM
