import ConserveModel.Validate
/-
Shared predicates over the abstract store: reading content back, dangling references, the
frame relation, and `Conforms` — the documented 0.6 format as an executable predicate (an
independent reader, clause by clause).  Used by several property files.
-/
namespace Conserve

section
variable (H : Str → Str)

/-- Content of the block named `h`, if the file is there, decompresses, and hashes to its name. -/
def blockContent (s : Store) (h : Str) : Option Str :=
  match s.get? (.block h) with
  | some (.blockData c) => if H c = h then some c else none
  | _ => none

def sliceOf (c : Str) (a : Addr) : Option Str :=
  if a.start + a.len ≤ c.length then some ((c.drop a.start).take a.len) else none

/-- The bytes one address denotes, if its block is present, intact and long enough. -/
def readAddrPure (s : Store) (a : Addr) : Option Str :=
  (blockContent H s a.hash).bind fun c => sliceOf c a

/-- The bytes a list of addresses denotes (a file's content). -/
def readBack (s : Store) : List Addr → Option Str
  | [] => some []
  | a :: as =>
    match readAddrPure H s a, readBack s as with
    | some x, some y => some (x ++ y)
    | _, _ => none

/-- Entries of hunk `n` of band `b`, if the file is there and decodes. -/
def hunkAt (s : Store) (b n : Nat) : Option (List IndexEntry) :=
  match s.get? (.hunk b n) with
  | some (.hunk es) => some es
  | _ => none

/-- No index entry anywhere refers to a block that is missing, corrupt, or shorter than needed. -/
def NoDangling (s : Store) : Prop :=
  ∀ b n es, hunkAt s b n = some es → ∀ e ∈ es, ∀ a ∈ e.addrs, (readAddrPure H s a).isSome = true

end

/-- Frame / write-once relation: every file of `s` is still in `s'` with the same value; a
zero-length file (the leftover of a killed write) may have been completed but not removed. -/
def Extends (s s' : Store) : Prop :=
  ∀ k v, s.get? k = some v → s'.get? k = some v ∨ (v = .empty ∧ (s'.get? k).isSome = true)

theorem Extends.refl (s : Store) : Extends s s := fun _ _ h => Or.inl h

/-- Band ids with a directory. -/
def bandIdsOf (s : Store) : List Nat :=
  sortNat <| s.filterMap fun kv =>
    match kv.1, kv.2 with
    | .bandDir b, .dir => some b
    | _, _ => none

/-- Hunk numbers of band `b` that have a file (any content), ascending. -/
def hunkNumsOf (s : Store) (b : Nat) : List Nat :=
  sortNat <| s.filterMap fun kv =>
    match kv.1 with
    | .hunk b' n => if b' = b && !kv.2.isDir then some n else none
    | _ => none

/-- "Complete" in the format's sense: the tail file exists. -/
def isComplete (s : Store) (b : Nat) : Bool :=
  match s.get? (.bandTail b) with
  | some v => !v.isDir
  | none => false

/-- Strictly increasing under the apath order. -/
def strictlySorted : List Str → Bool
  | [] => true
  | [_] => true
  | a :: b :: rest => apathCmp a b == .lt && strictlySorted (b :: rest)

section
variable (H : Str → Str)

/-- One index entry, by the documented rules: valid path; only files carry addresses, each
inside its (present, correctly named) block; only symlinks carry a target. -/
def entryConforms (s : Store) (e : IndexEntry) : Bool :=
  isValid e.apath &&
  match e.kind with
  | .file => e.target.isNone && e.addrs.all fun a => (readAddrPure H s a).isSome
  | .symlink => e.addrs.isEmpty && e.target.isSome
  | .dir => e.addrs.isEmpty && e.target.isNone
  | .unknown => false

/-- One version.  Hunks numbered consecutively from zero; each decodes and is non-empty, except
that the LAST hunk file of a version without tail may be the zero-length leftover of a killed
write; entries conform and are strictly increasing within and across hunks; a tail states the
true hunk count (or is itself the zero-length leftover of a write killed at the very end). -/
def bandConforms (s : Store) (b : Nat) : Bool :=
  let nums := hunkNumsOf s b
  let vals := nums.map fun n => s.get? (.hunk b n)
  let decoded := vals.filterMap fun v => match v with | some (.hunk es) => some es | _ => none
  let lastIsLeftover := vals.getLast? == some (some .empty)
  let complete := isComplete s b
  nums == List.range nums.length &&
  (decoded.length == vals.length || (!complete && lastIsLeftover && decoded.length + 1 == vals.length)) &&
  decoded.all (fun es => !es.isEmpty) &&
  (decoded.flatten).all (entryConforms H s) &&
  strictlySorted ((decoded.flatten).map (·.apath)) &&
  (match s.get? (.bandTail b) with
   | none => true
   | some (.tail (some n)) => n == nums.length && decoded.length == vals.length
   | some .empty => decoded.length == vals.length
   | some _ => false) &&
  (match s.get? (.bandHead b) with
   | some (.head _ _) => true
   | some .empty => nums.isEmpty && !complete      -- killed while writing the head
   | none => nums.isEmpty && !complete             -- killed right after creating the directory
   | some _ => false)

/-- Every block file is named by the hash of its content (its directory is the first three
characters of the name by construction of `Key.parent`), or is a zero-length leftover. -/
def blocksConform (s : Store) : Bool :=
  s.all fun kv =>
    match kv.1, kv.2 with
    | .block h, .blockData c => H c == h
    | .block _, .empty => true
    | .block _, _ => false
    | .blockDir p, v => v.isDir && p.length == subdirNameChars
    | _, _ => true

/-- The archive conforms to the documented 0.6 format. -/
def Conforms (s : Store) : Bool :=
  s.get? .header == some (.header [48, 46, 54]) &&
  s.get? .root == some .dir &&
  s.get? .blockRoot == some .dir &&
  blocksConform H s &&
  (bandIdsOf s).all (bandConforms H s)

end

end Conserve
