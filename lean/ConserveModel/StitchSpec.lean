import ConserveModel.Invariants
/-
Specification side for listing a version (property C08): the stitching RULE written as pure
functions of the store, clause by clause from the property text, plus the well-formedness
predicate under which the theorems of Props/C08.lean hold.  Nothing here mentions programs,
hunk boundaries or the skip-ahead logic of `IndexHunkIter::next`.
-/
namespace Conserve

/-! ### The parts of the rule -/

/-- A hunk file that can be used: it decodes, and every entry passes `IndexEntry::check` (valid
path, representable time, known kind, symlinks with a target, no address overflow); or it is the
zero-length leftover of an interrupted write, which holds no entries.  A hunk that decodes into
values no version of conserve writes is treated like one that does not decode. -/
def usableHunk (s : Store) (b n : Nat) : Option (List IndexEntry) :=
  match s.get? (.hunk b n) with
  | some (.hunk es) => if es.all entryUsable then some es else none
  | some .empty => some []
  | _ => none

/-- "N's own entries": what version `b`'s index holds — the content of its usable hunk files,
concatenated in hunk-number order.  Hunk files that are missing simply do not occur in
`hunkNumsOf`; unusable ones (zero-length, junk, wrong type, impossible values) contribute nothing. -/
def ownEntries (s : Store) (b : Nat) : List IndexEntry :=
  ((hunkNumsOf s b).filterMap (usableHunk s b)).flatten

/-- "existing version": the head file is there, whatever it holds (`Archive::band_exists`).
A deleted version, or a directory whose head was never written, does not exist. -/
def bandPresent (s : Store) (b : Nat) : Bool :=
  match s.get? (.bandHead b) with
  | some v => !v.isDir
  | none => false

/-- The version can be read: its head decodes, names a supported format version and no unknown
feature flags, and its index directory is there.  The entries of a version that cannot be read
are not available to anyone; the listing reports an error for it and takes nothing from it. -/
def bandReadable (s : Store) (b : Nat) : Bool :=
  (match s.get? (.bandHead b) with
   | some (.head ver flags) => (ver == .ok || ver == .absent) && flags.isEmpty
   | _ => false) &&
  s.get? (.indexDir b) == some .dir

/-- The entries version `b` can contribute. -/
def bandEntries (s : Store) (b : Nat) : List IndexEntry :=
  if bandReadable s b then ownEntries s b else []

/-- "sort after the last path taken so far" (`last = none`: nothing taken yet). -/
def sortsAfter (last : Option Str) (e : IndexEntry) : Bool :=
  match last with
  | none => true
  | some a => apathCmp e.apath a == .gt

/-- "the last path taken so far" after `taken` was appended to a listing whose last path was `last`. -/
def lastOr (taken : List IndexEntry) (last : Option Str) : Option Str :=
  match taken.getLast? with
  | some (l : IndexEntry) => some l.apath
  | none => last

/-! ### The rule -/

/-- The continuation of a listing below version `b`, when the last path taken so far is `last`:
"continues with the entries of the nearest earlier existing version that sort after the last path
taken so far, recursively, stopping at the first complete version or when no earlier version
exists".  Structural recursion on the band id: it terminates by construction. -/
def contSpec (s : Store) : Nat → Option Str → List IndexEntry
  | 0, _ => []                                           -- no earlier version exists: stop
  | b + 1, last =>
    if bandPresent s b then                              -- `b` is the nearest earlier existing version
      let taken := (bandEntries s b).filter (sortsAfter last)   -- its entries after the last path taken
      taken ++
        (if isComplete s b then []                       -- the first complete version ends the listing
         else contSpec s b (lastOr taken last))          -- otherwise: recursively, from the new last path
    else contSpec s b last                               -- deleted / never started: look further down

/-- Listing version `n`: "N's own entries and, if N is incomplete, continues with …". -/
def listSpec (s : Store) (n : Nat) : List IndexEntry :=
  let own := bandEntries s n
  own ++ (if isComplete s n then [] else contSpec s n (lastOr own none))

/-- The versions a listing of `n` consults below `b`, newest first. -/
def chainBelow (s : Store) : Nat → List Nat
  | 0 => []
  | b + 1 =>
    if bandPresent s b then b :: (if isComplete s b then [] else chainBelow s b)
    else chainBelow s b

/-- The chain of versions a listing of `n` consults: `n` itself, then each nearest earlier
existing version, ending with the first complete one (or when none is left). -/
def chain (s : Store) (n : Nat) : List Nat :=
  n :: (if isComplete s n then [] else chainBelow s n)

/-! ### Well-formedness: "written in the documented format", as far as listing depends on it -/

/-- The store is a function: no path occurs twice. -/
def keysNodup (s : Store) : Bool := decide (s.map (·.1)).Nodup

/-- The store is a tree: whatever exists lies in an existing directory. -/
def treeShaped (s : Store) : Bool := s.all fun kv => s.parentOk kv.1

/-- In every version, the entries of the decodable hunks are strictly increasing in path order,
within each hunk and from one hunk to the next (in hunk-number order). -/
def bandsSorted (s : Store) : Bool :=
  s.all fun kv =>
    match kv.1 with
    | .hunk b _ => strictlySorted ((ownEntries s b).map (·.apath))
    | _ => true

/-- Well-formedness of an archive for listing.  It constrains nothing else: versions may be
absent, lack a head, have an unreadable head, no index directory, no hunks, gaps in the hunk
numbering, undecodable, unusable or empty hunks, and a tail or none, in any combination. -/
structure ArchWF (s : Store) : Prop where
  nodup : keysNodup s = true
  tree : treeShaped s = true
  sorted : bandsSorted s = true

instance (s : Store) : Decidable (ArchWF s) :=
  if h : keysNodup s = true ∧ treeShaped s = true ∧ bandsSorted s = true then
    isTrue ⟨h.1, h.2.1, h.2.2⟩
  else isFalse fun w => h ⟨w.nodup, w.tree, w.sorted⟩

/-! ### What the listing reports -/

/-- Which error is reported for a version that cannot be read. -/
def unreadableError (s : Store) (b : Nat) : Err :=
  match s.get? (.bandHead b) with
  | none => .bandHeadMissing b                              -- no head file
  | some .dir => .transport .other                          -- the head is a directory
  | some (.head .tooNew _) => .unsupportedBandVersion b     -- written by a newer conserve
  | some (.head .invalid _) => .unsupportedBandVersion b    -- version string that is not a semver
  | some (.head _ flags) =>
    if flags.isEmpty then
      (match s.get? (.indexDir b) with                      -- head fine, index directory not listable
       | none => .transport .notFound
       | some _ => .transport .other)
    else .unsupportedBandFlags b                            -- unknown feature flags
  | some _ => .json                                         -- empty or undecodable head

/-- Is hunk file `n` of version `b` anything but the zero-length leftover of a killed write? -/
def hunkNonEmpty (s : Store) (b n : Nat) : Bool := s.get? (.hunk b n) != some .empty

/-- What the tail says for the check: (is there a tail file at all?, the hunk count it states,
if it can be read and states one). -/
def tailInfo (s : Store) (b : Nat) : Bool × Option Nat :=
  match s.get? (.bandTail b) with
  | none => (false, none)
  | some (.tail n) => (true, n)
  | some _ => (true, none)

/-- The tail states a hunk count and it is not the number of hunk files present. -/
def countMismatch (expected : Option Nat) (present : Nat) : Bool :=
  match expected with
  | some n => present != n
  | none => false

/-- `Band::check_index_hunks`: hunks must be numbered consecutively from zero; a closed version
must have as many as its tail says (if the tail can be read); and a zero-length hunk file is
acceptable only where an interrupted write can leave it: as the last hunk of a version without
tail (`badEmptyHunk`, IndexRead.lean). -/
def indexCheckError (s : Store) (b : Nat) : Option Err :=
  let nums := hunkNumsOf s b
  if nums != List.range nums.length then some .invalidMetadata
  else if countMismatch (tailInfo s b).2 nums.length then some .invalidMetadata
  else if badEmptyHunk (tailInfo s b).1 (nums.map fun n => (n, hunkNonEmpty s b n)) then
    some .invalidMetadata
  else none

/-- What is wrong with hunk file `n` of version `b`, if anything. -/
def hunkError (s : Store) (b n : Nat) : Option Err :=
  match s.get? (.hunk b n) with
  | some (.hunk es) => if es.all entryUsable then none else some .invalidMetadata
  | some .empty => none
  | _ => some .json

/-- The errors reported while version `b` is consulted: one if it cannot be read at all;
otherwise one if hunks are missing or a zero-length hunk is misplaced, then one per hunk file
that cannot be used. -/
def bandErrors (s : Store) (b : Nat) : List Err :=
  if bandReadable s b then
    (indexCheckError s b).toList ++ (hunkNumsOf s b).filterMap (hunkError s b)
  else [unreadableError s b]

/-- A version id without head file whose index still holds hunk file 0.  Index hunks are only
written after the head, so such a version HAD a head and lost it (damage); a directory left by a
backup that was killed before it wrote its head has no hunk 0. -/
def headLost (s : Store) (b : Nat) : Bool :=
  !bandPresent s b &&
  (match s.get? (.hunk b 0) with
   | some v => !v.isDir
   | none => false)

/-- The errors reported on the way down from an incomplete version, below `b`: the errors of each
version consulted (`chainBelow`), and — since the repair of `previous_existing_band` — one
`bandHeadMissing` for every id passed over that has lost its head (`headLost`), in the order of the
walk (newest id first). -/
def errorsBelow (s : Store) : Nat → List Err
  | 0 => []
  | b + 1 =>
    if bandPresent s b then
      bandErrors s b ++ (if isComplete s b then [] else errorsBelow s b)
    else (if headLost s b then [.bandHeadMissing b] else []) ++ errorsBelow s b

/-- The errors of the versions of the chain alone (what a listing reported before the repair of
`previous_existing_band`; what it reports whenever no id on the way has lost its head). -/
def chainErrors (s : Store) (n : Nat) : List Err := (chain s n).flatMap (bandErrors s)

/-- The errors a listing of `n` reports, in order: those of `n` itself, then, if `n` is incomplete,
those of the walk down (`errorsBelow`). -/
def listErrors (s : Store) (n : Nat) : List Err :=
  bandErrors s n ++ (if isComplete s n then [] else errorsBelow s n)

end Conserve
