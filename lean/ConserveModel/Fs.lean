import ConserveModel.Restore
import ConserveModel.ApathSpec
/-
A small POSIX file system and the FILESYSTEM half of `restore()` (src/restore.rs).

The store-level half (Restore.lean) produces the list of `RNode`s restore creates, in
listing order; `restoreToFs` replays on an `Fs` exactly the system calls `restore()` issues for
them, with Linux's follow / no-follow behaviour per call (validated against the kernel by the
C16 harness; the table is in the doc comment of each call).

Modelled: files, directories, symlinks; path resolution following symlinks in intermediate
components (relative and absolute targets, "..", ".", empty components, at most 40 symlinks
per resolution → ELOOP); mode / owner / mtime per node; the implicit mtime updates the kernel
makes ("now") when an entry is created in a directory or a file is truncated/written;
set-group-ID inheritance from the parent directory; the privilege-bit clearing of `chown`.
Not modelled: permission checks (restore runs as root in the harness), hard links, atime/ctime,
file-system timestamp range/granularity, names longer than NAME_MAX / PATH_MAX, other node kinds.
-/
namespace Conserve

/-- An absolute path: its components from the root.  Keys of the node map are canonical
(real names only); paths given to system calls may also contain "", "." and "..". -/
abbrev Path := List Str

/-- A modification time: set explicitly (`utimensat`, ns since the epoch) or stamped by the
kernel during the run ("now": later than anything that existed before). -/
inductive Mtime
  | at (ns : Int)
  | now
  deriving DecidableEq, Repr, Inhabited

inductive FKind
  | file | dir | symlink
  deriving DecidableEq, Repr, Inhabited

/-- One inode.  `content` is meaningful for files, `target` for symlinks; a symlink's mode is
always 0o777 on Linux. -/
structure FNode where
  kind : FKind
  content : Str := []
  target : Str := []
  mode : Nat := 0
  uid : Nat := 0
  gid : Nat := 0
  mtime : Mtime := .now
  deriving DecidableEq, Repr, Inhabited

def FNode.file (content : Str) (mode uid gid : Nat) (mtime : Mtime) : FNode :=
  { kind := .file, content, mode, uid, gid, mtime }
def FNode.dir (mode uid gid : Nat) (mtime : Mtime) : FNode :=
  { kind := .dir, mode, uid, gid, mtime }
def FNode.symlink (target : Str) (uid gid : Nat) (mtime : Mtime) : FNode :=
  { kind := .symlink, target, mode := 0o777, uid, gid, mtime }

/-- The node with its mtime stamped "now". -/
def FNode.touch (x : FNode) : FNode := { x with mtime := .now }

inductive Errno
  | ENOENT | ENOTDIR | EEXIST | EISDIR | ELOOP | EINVAL | EPERM
  deriving DecidableEq, Repr, Inhabited

/-- The file system: an association list from canonical path to node (the first binding of a
path wins; nothing is ever unlinked by restore), and the process attributes that matter for
new nodes. -/
structure Fs where
  nodes : List (Path × FNode)
  umask : Nat := 0o022
  euid : Nat := 0
  egid : Nat := 0
  deriving Repr, DecidableEq

def Fs.node (fs : Fs) (p : Path) : Option FNode :=
  (fs.nodes.find? (fun kv => kv.1 == p)).map (·.2)

def Fs.set (fs : Fs) (p : Path) (x : FNode) : Fs := { fs with nodes := (p, x) :: fs.nodes }

def Fs.isDir (fs : Fs) (p : Path) : Bool :=
  match fs.node p with
  | some x => x.kind == .dir
  | none => false

/-- Change an existing node in place. -/
def Fs.modify (fs : Fs) (p : Path) (f : FNode → FNode) : Fs :=
  match fs.node p with
  | some x => fs.set p (f x)
  | none => fs

/-- Add a new directory entry `p`: the parent directory's mtime is stamped. -/
def Fs.createAt (fs : Fs) (p : Path) (x : FNode) : Fs :=
  (fs.set p x).modify p.dropLast FNode.touch

/-! ### Path resolution (`link_path_walk`) -/

def maxSymlinks : Nat := 40
/-- Bound on the number of component steps of one resolution (41 strings of at most PATH_MAX/2
components each). -/
def resolveFuel : Nat := 100000

/-- Walk `rest` starting at the existing node `cur`.  `fuel` bounds the steps, `links` is the
number of symlinks that may still be followed (Linux: 40 in total, then ELOOP).
The result is the canonical path of the final component, which may not exist (its parent then
exists and is a directory).  `follow`: whether a symlink in the FINAL component is followed.
Empty components (doubled or trailing slashes) and "." stay where they are but require a
directory; ".." is the physical parent. -/
def walk (fs : Fs) (follow : Bool) : Nat → Nat → Path → List Str → Except Errno Path
  | 0, _, _, _ => .error .ELOOP
  | _ + 1, _, cur, [] => .ok cur
  | fuel + 1, links, cur, c :: rest =>
    match fs.node cur with
    | none => .error .ENOENT
    | some x =>
      if x.kind ≠ .dir then .error .ENOTDIR
      else if c = [] ∨ c = [dot] then walk fs follow fuel links cur rest
      else if c = [dot, dot] then walk fs follow fuel links cur.dropLast rest
      else
        match fs.node (cur ++ [c]) with
        | none => if rest.isEmpty then .ok (cur ++ [c]) else .error .ENOENT
        | some y =>
          if y.kind = .symlink ∧ ¬ (rest.isEmpty ∧ follow = false) then
            if y.target = [] then .error .ENOENT
            else match links with
              | 0 => .error .ELOOP
              | l + 1 =>
                if y.target.head? = some slash then walk fs follow fuel l [] (splitSlash y.target ++ rest)
                else walk fs follow fuel l cur (splitSlash y.target ++ rest)
          else walk fs follow fuel links (cur ++ [c]) rest

def Fs.resolve (fs : Fs) (follow : Bool) (path : List Str) : Except Errno Path :=
  walk fs follow resolveFuel maxSymlinks [] path

/-! ### System calls.  Every call takes the raw absolute path (components as in the string). -/

def hasBit (m bit : Nat) : Bool := m / bit % 2 == 1

/-- Group of a new node: the parent's if the parent directory is set-group-ID. -/
def Fs.newGid (fs : Fs) (parent : Path) : Nat :=
  match fs.node parent with
  | some x => if hasBit x.mode 0o2000 then x.gid else fs.egid
  | none => fs.egid

def Fs.parentSgid (fs : Fs) (parent : Path) : Nat :=
  match fs.node parent with
  | some x => if hasBit x.mode 0o2000 then 0o2000 else 0
  | none => 0

/-- `mode & ~umask` for the permission bits. -/
def maskMode (mode umask : Nat) : Nat := mode - (mode &&& umask)

/-- `mkdir(path, 0o777)` (`fs::create_dir`): the final component is NOT followed; anything
already there (a dangling symlink too) gives EEXIST. -/
def Fs.mkdir (fs : Fs) (path : List Str) : Fs × Except Errno Unit :=
  match fs.resolve false path with
  | .error e => (fs, .error e)
  | .ok p =>
    match fs.node p with
    | some _ => (fs, .error .EEXIST)
    | none =>
      (fs.createAt p (.dir (maskMode 0o777 fs.umask + fs.parentSgid p.dropLast) fs.euid
        (fs.newGid p.dropLast) .now), .ok ())

/-- `stat(path)` says directory (`Path::is_dir`): follows. -/
def Fs.statIsDir (fs : Fs) (path : List Str) : Bool :=
  match fs.resolve true path with
  | .ok p => fs.isDir p
  | .error _ => false

/-- `std::fs::create_dir_all` (library/std/src/fs.rs `DirBuilder::create_dir_all`), literally:
try `mkdir`; on NotFound create the parent first and retry; on any other error accept the path
if `is_dir()` (which follows symlinks, so a symlink to a directory is accepted). -/
def Fs.mkdirAll : Nat → Fs → List Str → Fs × Except Errno Unit
  | 0, fs, _ => (fs, .error .ELOOP)
  | k + 1, fs, path =>
    match fs.mkdir path with
    | (fs1, .ok _) => (fs1, .ok ())
    | (_, .error .ENOENT) =>
      if path = [] then (fs, .error .ENOENT)
      else
        match Fs.mkdirAll k fs path.dropLast with
        | (fs1, .error e) => (fs1, .error e)
        | (fs1, .ok _) =>
          match fs1.mkdir path with
          | (fs2, .ok _) => (fs2, .ok ())
          | (_, .error e) => if fs1.statIsDir path then (fs1, .ok ()) else (fs1, .error e)
    | (_, .error e) => if fs.statIsDir path then (fs, .ok ()) else (fs, .error e)

/-- `open(path, O_WRONLY|O_CREAT|O_TRUNC, 0o666)` (`File::create`): FOLLOWS a final symlink and
creates through a dangling one; EISDIR on a directory.  Returns the handle (the inode's
canonical path).  Truncating an existing file keeps mode and owner (we are root: no
privilege-bit clearing on write) and stamps its mtime. -/
def Fs.create (fs : Fs) (path : List Str) : Fs × Except Errno Path :=
  match fs.resolve true path with
  | .error e => (fs, .error e)
  | .ok p =>
    match fs.node p with
    | some x =>
      if x.kind = .dir then (fs, .error .EISDIR)
      else if x.kind = .symlink then (fs, .error .ELOOP)
      else (fs.set p { x with content := [], mtime := .now }, .ok p)
    | none =>
      (fs.createAt p (.file [] (maskMode 0o666 fs.umask) fs.euid (fs.newGid p.dropLast) .now), .ok p)

/-- `write_all` on the open handle. -/
def Fs.writeAt (fs : Fs) (h : Path) (bytes : Str) : Fs :=
  fs.modify h fun x => { x with content := x.content ++ bytes, mtime := .now }

/-- `futimens(fd, …)` on the open handle (`set_file_handle_times`). -/
def Fs.futimensAt (fs : Fs) (h : Path) (t : Int) : Fs :=
  fs.modify h fun x => { x with mtime := .at t }

/-- `symlink(target, path)`: the final component is NOT followed; EEXIST if anything is there. -/
def Fs.symlink (fs : Fs) (target : Str) (path : List Str) : Fs × Except Errno Unit :=
  match fs.resolve false path with
  | .error e => (fs, .error e)
  | .ok p =>
    match fs.node p with
    | some _ => (fs, .error .EEXIST)
    | none =>
      if target = [] then (fs, .error .ENOENT)
      else (fs.createAt p (.symlink target fs.euid (fs.newGid p.dropLast) .now), .ok ())

/-- The Linux rule (`chown_common`: ATTR_KILL_SUID | setattr_should_drop_sgid): on a
non-directory, S_ISUID is cleared, and S_ISGID too if the group-execute bit is set. -/
def clearSetid (m : Nat) : Nat :=
  let m1 := if hasBit m 0o4000 then m - 0o4000 else m
  if hasBit m1 0o2000 && hasBit m1 0o010 then m1 - 0o2000 else m1

/-- `lchown(path, uid, gid)` with −1 for an absent id: the final component is NOT followed.
The privilege bits of a regular file are cleared EVEN IF both ids are −1 (observed on Linux
6.18: `chown_common` adds ATTR_KILL_SUID before looking at the ids). -/
def Fs.lchown (fs : Fs) (path : List Str) (uid gid : Option Nat) : Fs × Except Errno Unit :=
  match fs.resolve false path with
  | .error e => (fs, .error e)
  | .ok p =>
    match fs.node p with
    | none => (fs, .error .ENOENT)
    | some x =>
      (fs.set p { x with uid := uid.getD x.uid, gid := gid.getD x.gid,
                          mode := if x.kind = .file then clearSetid x.mode else x.mode }, .ok ())

/-- `chmod(path, mode)` (`fs::set_permissions`): FOLLOWS. -/
def Fs.chmod (fs : Fs) (path : List Str) (mode : Nat) : Fs × Except Errno Unit :=
  match fs.resolve true path with
  | .error e => (fs, .error e)
  | .ok p =>
    match fs.node p with
    | none => (fs, .error .ENOENT)
    | some x => (fs.set p { x with mode := mode % 0o10000 }, .ok ())

/-- `utimensat(AT_FDCWD, path, …, flags)`: `follow = true` is `filetime::set_file_mtime`,
`follow = false` (AT_SYMLINK_NOFOLLOW) is `filetime::set_symlink_file_times`. -/
def Fs.utimes (fs : Fs) (follow : Bool) (path : List Str) (t : Int) : Fs × Except Errno Unit :=
  match fs.resolve follow path with
  | .error e => (fs, .error e)
  | .ok p =>
    match fs.node p with
    | none => (fs, .error .ENOENT)
    | some x => (fs.set p { x with mtime := .at t }, .ok ())

/-- Does the directory `d` (canonical) have an entry? -/
def Fs.hasChild (fs : Fs) (d : Path) : Bool :=
  fs.nodes.any fun kv => kv.1 != [] && kv.1.dropLast == d

/-- `fs::read_dir(path)?.next().is_none()` (`directory_is_empty`): `opendir` follows. -/
def Fs.readDirEmpty (fs : Fs) (path : List Str) : Except Errno Bool :=
  match fs.resolve true path with
  | .error e => .error e
  | .ok p =>
    match fs.node p with
    | none => .error .ENOENT
    | some x => if x.kind = .dir then .ok (!fs.hasChild p) else .error .ENOTDIR

/-! ### `restore()` on the file system -/

inductive RWhat
  | restoreDirectory | restoreFile | restoreOwnership | restorePermissions
  | restoreModificationTime | restoreSymlink | invalidMetadata
  deriving DecidableEq, Repr, Inhabited

/-- One `monitor.error(..)` of the filesystem half of restore. -/
structure FsErr where
  what : RWhat
  apath : Str
  errno : Option Errno
  deriving DecidableEq, Repr, Inhabited

/-- `Err(..)` returned by `restore()` itself. -/
inductive RestoreError
  | destinationNotEmpty
  | io (e : Errno)
  deriving DecidableEq, Repr, Inhabited

/-- `destination.join(&apath[1..])` as the components of the resulting string: joining an
absolute right-hand side REPLACES the destination; otherwise `dest + "/" + rel` (so the root
apath gives `dest/`, with a trailing empty component). -/
def joinDest (dest : Path) (apath : Str) : List Str :=
  let rel := apath.drop 1
  if rel.head? = some slash then splitSlash rel else dest ++ splitSlash rel

/-- What `to_file_time` hands to the OS, in ns (for the pairs `restoreEntries` lets through). -/
def RNode.mtimeNs (n : RNode) : Int := n.mtime * 1000000000 + n.mtimeNanos

/-- `ensure_dir_exists`. -/
def Fs.ensureDir (fs : Fs) (path : List Str) : Fs × Except Errno Unit :=
  match fs.mkdir path with
  | (_, .error .EEXIST) => (fs, .ok ())
  | r => r

/-- `restore_dir`: `create_dir_all(path)`, AlreadyExists accepted. -/
def restoreDirFs (fs : Fs) (path : List Str) : Fs × Except Errno Unit :=
  match Fs.mkdirAll (path.length + 1) fs path with
  | (fs1, .error .EEXIST) => (fs1, .ok ())
  | r => r

/-- `Owner::set_owner` (src/owner/unix.rs): names that do not resolve give −1; EPERM is
swallowed. Result: the error to report, if any. -/
def setOwnerFs (uidOf gidOf : Str → Option Nat) (fs : Fs) (path : List Str) (n : RNode) :
    Fs × Option Errno :=
  match fs.lchown path (n.user.bind uidOf) (n.group.bind gidOf) with
  | (fs1, .ok _) => (fs1, none)
  | (fs1, .error .EPERM) => (fs1, none)
  | (fs1, .error e) => (fs1, some e)

/-- `UnixMode::set_permissions`: nothing if no mode is stored. -/
def setPermsFs (fs : Fs) (path : List Str) (n : RNode) : Fs × Option Errno :=
  match n.unixMode with
  | none => (fs, none)
  | some m =>
    match fs.chmod path m with
    | (fs1, .ok _) => (fs1, none)
    | (fs1, .error e) => (fs1, some e)

def errIf (what : RWhat) (apath : Str) : Option Errno → List FsErr
  | none => []
  | some e => [{ what, apath, errno := some e }]

/-- `restore_file`.  `oldOrder = true` is the order before commit 1d92d82 (chmod, then lchown).
A node with `complete = false` stops after the partial content (the `RestoreFileBlock` error
is the one the store-level half already logged). -/
def restoreFileFs (uidOf gidOf : Str → Option Nat) (oldOrder : Bool) (fs : Fs) (path : List Str)
    (n : RNode) : Fs × List FsErr :=
  match fs.create path with
  | (fs1, .error e) => (fs1, [{ what := .restoreFile, apath := n.apath, errno := some e }])
  | (fs1, .ok h) =>
    let fs2 := fs1.writeAt h n.content
    if !n.complete then (fs2, [])
    else
      let fs3 := fs2.futimensAt h n.mtimeNs
      if oldOrder then
        let r1 := setPermsFs fs3 path n
        let r2 := setOwnerFs uidOf gidOf r1.1 path n
        (r2.1, errIf .restorePermissions n.apath r1.2 ++ errIf .restoreOwnership n.apath r2.2)
      else
        let r1 := setOwnerFs uidOf gidOf fs3 path n
        let r2 := setPermsFs r1.1 path n
        (r2.1, errIf .restoreOwnership n.apath r1.2 ++ errIf .restorePermissions n.apath r2.2)

/-- `restore_symlink`. -/
def restoreSymlinkFs (uidOf gidOf : Str → Option Nat) (fs : Fs) (path : List Str) (n : RNode) :
    Fs × List FsErr :=
  match n.target with
  | none => (fs, [{ what := .invalidMetadata, apath := n.apath, errno := none }])
  | some target =>
    match fs.symlink target path with
    | (fs1, .error e) => (fs1, [{ what := .restoreSymlink, apath := n.apath, errno := some e }])
    | (fs1, .ok _) =>
      match setOwnerFs uidOf gidOf fs1 path n with
      | (fs2, some e) => (fs2, [{ what := .restoreOwnership, apath := n.apath, errno := some e }])
      | (fs2, none) =>
        match fs2.utimes false path n.mtimeNs with
        | (fs3, .error e) => (fs3, [{ what := .restoreModificationTime, apath := n.apath, errno := some e }])
        | (fs3, .ok _) => (fs3, [])

/-- A `DirDeferral`. -/
structure Deferral where
  path : List Str
  node : RNode
  deriving Repr

/-- One turn of the `while let Some(entry)` loop: new file system, errors, deferrals to add. -/
def restoreNodeFs (uidOf gidOf : Str → Option Nat) (oldOrder : Bool) (dest : Path) (fs : Fs)
    (n : RNode) : Fs × List FsErr × List Deferral :=
  let path := joinDest dest n.apath
  match n.kind with
  | .dir =>
    if n.apath ≠ [slash] then
      match restoreDirFs fs path with
      | (fs1, .error e) => (fs1, [{ what := .restoreDirectory, apath := n.apath, errno := some e }], [])
      | (fs1, .ok _) => (fs1, [], [{ path, node := n }])
    else (fs, [], [{ path, node := n }])
  | .file =>
    let r := restoreFileFs uidOf gidOf oldOrder fs path n
    (r.1, r.2, [])
  | .symlink =>
    let r := restoreSymlinkFs uidOf gidOf fs path n
    (r.1, r.2, [])
  | .unknown => (fs, [{ what := .invalidMetadata, apath := n.apath, errno := none }], [])

def restoreLoopFs (uidOf gidOf : Str → Option Nat) (oldOrder : Bool) (dest : Path) :
    Fs → List RNode → Fs × List FsErr × List Deferral
  | fs, [] => (fs, [], [])
  | fs, n :: rest =>
    let r := restoreNodeFs uidOf gidOf oldOrder dest fs n
    let r2 := restoreLoopFs uidOf gidOf oldOrder dest r.1 rest
    (r2.1, r.2.1 ++ r2.2.1, r.2.2 ++ r2.2.2)

/-- One deferral of `apply_deferrals`: owner, mode, mtime (following). -/
def applyDeferralFs (uidOf gidOf : Str → Option Nat) (fs : Fs) (d : Deferral) : Fs × List FsErr :=
  let r1 := setOwnerFs uidOf gidOf fs d.path d.node
  let r2 := setPermsFs r1.1 d.path d.node
  let r3 := r2.1.utimes true d.path d.node.mtimeNs
  (r3.1, errIf .restoreOwnership d.node.apath r1.2 ++ errIf .restorePermissions d.node.apath r2.2 ++
    (match r3.2 with
     | .error e => [{ what := .restoreModificationTime, apath := d.node.apath, errno := some e }]
     | .ok _ => []))

def applyDeferralsFs (uidOf gidOf : Str → Option Nat) : Fs → List Deferral → Fs × List FsErr
  | fs, [] => (fs, [])
  | fs, d :: ds =>
    let r := applyDeferralFs uidOf gidOf fs d
    let r2 := applyDeferralsFs uidOf gidOf r.1 ds
    (r2.1, r.2 ++ r2.2)

/-- `restore(archive, destination, options)` from `ensure_dir_exists` on, for the nodes the
store-level half produced.  Result: final file system, monitor errors in order, and the error
`restore()` itself returns, if any. -/
def restoreToFs (fs : Fs) (dest : Path) (overwrite : Bool) (nodes : List RNode)
    (uidOf gidOf : Str → Option Nat) (oldOrder : Bool := false) :
    Fs × List FsErr × Option RestoreError :=
  match fs.ensureDir dest with
  | (fs0, .error e) => (fs0, [], some (.io e))
  | (fs0, .ok _) =>
    match fs0.readDirEmpty dest with
    | .error e => (fs0, [], some (.io e))
    | .ok empty =>
      if !overwrite && !empty then (fs0, [], some .destinationNotEmpty)
      else
        let r := restoreLoopFs uidOf gidOf oldOrder dest fs0 nodes
        let r2 := applyDeferralsFs uidOf gidOf r.1 r.2.2
        (r2.1, r.2.1 ++ r2.2, none)

/-! ### Tree-consistent listings -/

/-- The components of a node's apath below the root. -/
def comps (n : RNode) : List Str := components n.apath

/-- Some earlier entry is a directory whose path is the parent of `n`'s. -/
def parentSeen (earlier : List RNode) (n : RNode) : Bool :=
  earlier.any fun m => m.kind == .dir && comps m == (comps n).dropLast

/-- Every entry after the first lies below the first one (the selected subtree) and has its
parent directory among the EARLIER entries. -/
def tcFrom (head : RNode) : List RNode → List RNode → Bool
  | _, [] => true
  | earlier, n :: rest =>
    (comps head).isPrefixOf (comps n) && parentSeen earlier n && tcFrom head (earlier ++ [n]) rest

/-- A listing as a complete version produces it: valid apaths, strictly increasing in
`Apath::cmp`, and — except for the first entry, the root of the selected subtree, whose parents
are above the selection — every entry's parent directory is an earlier entry of kind `Dir`. -/
def treeConsistent (nodes : List RNode) : Bool :=
  nodes.all (fun n => isValid n.apath) &&
  decide (nodes.Pairwise fun a b => apathCmp a.apath b.apath = .lt) &&
  match nodes with
  | [] => true
  | h :: rest => tcFrom h [h] rest

end Conserve
