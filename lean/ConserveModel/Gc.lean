import ConserveModel.Restore
/-
Deleting versions and collecting garbage (src/archive.rs `referenced_blocks`, `delete_bands`).
-/
namespace Conserve
open Prog

structure DeleteStats where
  unreferencedBlockCount : Nat := 0
  deletedBandCount : Nat := 0
  deletedBlockCount : Nat := 0
  deletionErrors : Nat := 0
  deriving Repr, Inhabited, DecidableEq

structure DeleteOpts where
  dryRun : Bool := false
  breakLock : Bool := false
  deriving Repr, Inhabited, DecidableEq

/-- Hunks of one band as `iter_available_hunks()` + repeated `next()` (no `after`) yields them.
With `strict = false` (the code before the repair of D6) a hunk whose read fails is silently
skipped; with `strict = true` the failure is an error. -/
def bandHunkEntries (strict : Bool) (b : Nat) : List Nat → Prog (List IndexEntry)
  | [] => pure []
  | n :: rest => do
    match ← (readHunk b n).attempt with
    | .ok none => pure []
    | .error e => if strict then .fail e else bandHunkEntries strict b rest
    | .ok (some es) =>
      let more ← bandHunkEntries strict b rest
      pure (es ++ more)

def dedupStr : List Str → List Str
  | [] => []
  | x :: xs => if xs.contains x then dedupStr xs else x :: dedupStr xs

/-- `Archive::referenced_blocks`: hashes named by any entry of the given bands. -/
def referencedBlocks (strict : Bool) : List Nat → Prog (List Str)
  | [] => pure []
  | b :: bs => do
    bandOpen b
    let hunks ← iterAvailableHunks b
    let es ← bandHunkEntries strict b hunks
    let here := es.flatMap fun e => e.addrs.map (·.hash)
    let more ← referencedBlocks strict bs
    pure (dedupStr (here ++ more))

def strLe (a b : Str) : Bool := compare a b != .gt

/-- The body of `delete_bands` while the lock is held. -/
def deleteBody (strict : Bool) (D : List Nat) (o : DeleteOpts) (held : Option Nat) : Prog DeleteStats := do
  let all ← listBandIds
  let keep := all.filter fun b => !D.contains b
  let referenced ← referencedBlocks strict keep
  let present ← listBlocks
  -- iteration order of a hash set: the model uses name order
  let unref := (present.filter fun h => !referenced.contains h).mergeSort strLe
  let rec measure : List Str → Prog Unit
    | [] => pure ()
    | h :: hs => do
      match ← perform (.metadata (.block h)) with
      | .stat _ _ => measure hs
      | .err e => .fail (.transport e)
      | _ => .fail (.transport .other)
  measure unref
  let stats : DeleteStats := { unreferencedBlockCount := unref.length }
  let stats ← if o.dryRun then pure stats else do
    gcLockCheck held
    let rec delBands : List Nat → Nat → Prog Nat
      | [], n => pure n
      | b :: bs, n => do
        bandDelete b
        delBands bs (n + 1)
    let nb ← delBands D 0
    let rec delBlocks : List Str → Nat → Prog Nat
      | [], errs => pure errs
      | h :: hs, errs => do
        match ← perform (.removeFile (.block h)) with
        | .unit => delBlocks hs errs
        | _ => delBlocks hs (errs + 1)
    let errs ← delBlocks unref 0
    pure { stats with deletedBandCount := nb, deletionErrors := errs, deletedBlockCount := unref.length - errs }
  gcLockRelease
  pure stats

/-- `Archive::delete_bands`.  An error while the lock is held drops the lock object, whose
`Drop` removes the lock file. -/
def deleteBands (strict : Bool) (D : List Nat) (o : DeleteOpts) : Prog DeleteStats := do
  let held ← if o.breakLock then gcBreakLock else gcLockNew
  match ← (deleteBody strict D o held).attempt with
  | .ok st => pure st
  | .error e =>
    gcLockDrop
    .fail e

end Conserve
