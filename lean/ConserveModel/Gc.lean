import ConserveModel.Restore
/-
Deleting versions and collecting garbage (src/archive.rs `referenced_blocks`, `delete_bands`).
-/
namespace Conserve
open Prog

structure DeleteStats where
  unreferencedBlockCount : Nat := 0
  deletedBandCount : Nat := 0
  deletedBlockCount : Nat := 0
  deletionErrors : Nat := 0
  deriving Repr, Inhabited, DecidableEq

structure DeleteOpts where
  dryRun : Bool := false
  breakLock : Bool := false
  deriving Repr, Inhabited, DecidableEq

/-- Entries of the hunks of one band, for `referenced_blocks`.
`strict = true` is the code after the repair of D6: every listed hunk must be read, and any
failure (or a hunk that is listed but not found) is an error.  `strict = false` is the code
before: `IndexHunkIter::next`, which silently skips a hunk whose read fails and stops at a
hunk that is not found. -/
def bandHunkEntries (strict : Bool) (b : Nat) : List Nat → Prog (List IndexEntry)
  | [] => pure []
  | n :: rest => do
    match ← (readHunk b n).attempt with
    | .ok none => if strict then .fail .invalidMetadata else pure []
    | .error e => if strict then .fail e else bandHunkEntries strict b rest
    | .ok (some es) =>
      let more ← bandHunkEntries strict b rest
      pure (es ++ more)

def dedupStr : List Str → List Str
  | [] => []
  | x :: xs => if xs.contains x then dedupStr xs else x :: dedupStr xs

/-- `Archive::referenced_blocks`: hashes named by any entry of the given bands. -/
def referencedBlocks (strict : Bool) : List Nat → Prog (List Str)
  | [] => pure []
  | b :: bs => do
    bandOpen b
    let hunks ← if strict then hunksAvailable b else iterAvailableHunks b
    let es ← bandHunkEntries strict b hunks
    let here := es.flatMap fun e => e.addrs.map (·.hash)
    let more ← referencedBlocks strict bs
    pure (dedupStr (here ++ more))


/-- The body of `delete_bands` while the lock is held. -/
def deleteBody (strict : Bool) (D : List Nat) (o : DeleteOpts) (held : Option Nat) : Prog DeleteStats := do
  let all ← listBandIds
  let keep := all.filter fun b => !D.contains b
  let referenced ← referencedBlocks strict keep
  let present ← listBlocks
  -- iteration order of a hash set: the model uses name order
  let unref := (present.filter fun h => !referenced.contains h).mergeSort strLe
  let rec measure : List Str → Prog Unit
    | [] => pure ()
    | h :: hs => do
      match ← perform (.metadata (.block h)) with
      | .stat _ _ => measure hs
      | .err e => .fail (.transport e)
      | _ => .fail (.transport .other)
  measure unref
  let stats : DeleteStats := { unreferencedBlockCount := unref.length }
  let stats ← if o.dryRun then pure stats else do
    gcLockCheck held
    let rec delBands : List Nat → Nat → Prog Nat
      | [], n => pure n
      | b :: bs, n => do
        bandDelete b
        delBands bs (n + 1)
    let nb ← delBands D 0
    let rec delBlocks : List Str → Nat → Prog Nat
      | [], errs => pure errs
      | h :: hs, errs => do
        match ← perform (.removeFile (.block h)) with
        | .unit => delBlocks hs errs
        | _ => delBlocks hs (errs + 1)
    let errs ← delBlocks unref 0
    pure { stats with deletedBandCount := nb, deletionErrors := errs, deletedBlockCount := unref.length - errs }
  gcLockRelease
  pure stats

/-- The error path of `delete_bands` after the repair: `let _ = gc_lock.release().await`; if the
removal fails the lock object is still "held" and its `Drop` tries once more. -/
def gcLockReleaseOnError : Prog Unit := do
  match ← perform (.removeFile .gcLock) with
  | .unit => pure ()
  | _ => gcLockDrop

/-- `Archive::delete_bands`.  An error while the lock is held drops the lock object, whose
`Drop` removes the lock file. -/
def deleteBands (strict : Bool) (D : List Nat) (o : DeleteOpts) : Prog DeleteStats := do
  let held ← if o.breakLock then gcBreakLock else gcLockNew
  match ← (deleteBody strict D o held).attemptAll with
  | .ok st => pure st
  | .err e =>
    gcLockReleaseOnError            -- explicit release on the error path (then Drop, if that failed)
    .fail e
  | .panic site =>
    gcLockDrop                      -- unwinding drops the lock object too
    .panic site

end Conserve
