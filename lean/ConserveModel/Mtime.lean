/-
Modification times: the three conversions a file's mtime goes through between the source
file system, the index and the restored file (C01 b), with `Int` arithmetic.

Code modelled, as it is at /repo HEAD (after commit 6ea0861 "fix: backup panicked on files
modified before 1970 with a fractional second"); the conversions as they were BEFORE that
commit are kept with the suffix `Pre`, with the refutation of the property for them.
* src/source.rs `entry_from_fs_metadata`: `metadata.modified()` (a `SystemTime`)
  `.try_into::<jiff::Timestamp>().expect("Failed to convert file mtime to Timestamp")`.
* src/index/entry.rs `IndexEntry::metadata_from`:
    now    `secs = as_second(); nanos = subsec_nanosecond();
            if nanos < 0 { secs -= 1; nanos += 1_000_000_000 }`,
           `mtime: secs`, `mtime_nanos: nanos.try_into().unwrap()`;
    before `mtime: mtime.as_second()`,
           `mtime_nanos: mtime.subsec_nanosecond().try_into().unwrap()` (then line 146).
* src/index/entry.rs `IndexEntry::mtime` (lines 85-88, unchanged):
    `Timestamp::new(self.mtime, self.mtime_nanos.try_into().unwrap()).expect(..)`.
* src/unix_time.rs `to_file_time`:
    now    the same adjustment, then `FileTime::from_unix_time(secs, nanos.cast_unsigned())`;
    before `FileTime::from_unix_time(self.as_second(), self.subsec_nanosecond().cast_unsigned())`.
* filetime 0.2.26 src/unix/mod.rs `to_timespec` + src/unix/linux.rs: `tv_sec = seconds`,
  `tv_nsec = nanos as c_long`, handed to `utimensat`.

jiff 0.2.19 facts used (src/timestamp.rs, src/util/t.rs):
* A `Timestamp` is a pair (second, nanosecond) whose members never have opposite signs:
  it is the total number of nanoseconds `t` split by TRUNCATION toward zero.  So
  `as_second() = t.tdiv 10⁹` and `subsec_nanosecond() = t.tmod 10⁹` (the sign of `t`):
  −1.5 s is (−1, −500 000 000).  (`TryFrom<SystemTime>` goes through `SignedDuration`,
  which has the same sign-coherent representation; `from_duration` copies the parts.)
* Range: seconds in `UnixSeconds = [-377705116800 + 93599, 253402300799 - 93599]`
  (years −9999..9999 shrunk by the largest zone offset 25:59:59), nanoseconds in
  `[-999 999 999, 999 999 999]`; the minimum has nanosecond 0, the maximum 999 999 999.
* `Timestamp::new(s, n)`: errors if `s` or `n` is outside those ranges or
  (`s` = minimum ∧ `n < 0`); otherwise, when the signs differ, it NORMALISES
  (`s<0<n ↦ (s+1, n−10⁹)`, `n<0<s ↦ (s−1, n+10⁹)`), i.e. the value is `s·10⁹ + n`.
* `Timestamp` equality is equality of the normalised pairs, i.e. of the totals.

A `Timestamp` is therefore modelled by its total nanoseconds, an `Int`.
-/
namespace Conserve.DM

/-- Result of a computation in which every reachable `unwrap`/`expect` is explicit. -/
inductive Outcome (α : Type) where
  | ok (a : α)
  | panic (site : String)
  deriving DecidableEq, Repr

namespace Outcome
def bind {α β : Type} : Outcome α → (α → Outcome β) → Outcome β
  | ok a, f => f a
  | panic s, _ => panic s

def isOk {α : Type} : Outcome α → Bool
  | ok _ => true
  | panic _ => false
end Outcome

def nsPerSec : Int := 1000000000

/-- `UnixSeconds::MIN` = −377705116800 + 93599. -/
def secMin : Int := -377705023201
/-- `UnixSeconds::MAX` = 253402300799 − 93599. -/
def secMax : Int := 253402207200
/-- `Timestamp::MIN` / `Timestamp::MAX` in nanoseconds. -/
def tsMin : Int := secMin * nsPerSec
def tsMax : Int := secMax * nsPerSec + 999999999

/-- The instants a `jiff::Timestamp` can hold. -/
def inRange (t : Int) : Prop := tsMin ≤ t ∧ t ≤ tsMax

instance : DecidablePred inRange := fun t => inferInstanceAs (Decidable (tsMin ≤ t ∧ t ≤ tsMax))

/-- `Timestamp::as_second`: whole seconds, truncated toward zero. -/
def asSecond (t : Int) : Int := t.tdiv nsPerSec

/-- `Timestamp::subsec_nanosecond`: the rest, carrying the sign of `t` (an `i32`). -/
def subsecNanosecond (t : Int) : Int := t.tmod nsPerSec

/-! ### Panic sites -/
def siteSourceRange : String := "source.rs:99:mtime-to-Timestamp"
/-- The `try_into::<u32>().unwrap()` of `metadata_from`: line 146 before the repair (where it
fired), line 154 now (where it cannot). -/
def siteEncNanos : String := "index/entry.rs:146:subsec_nanosecond-try_into-u32"
def siteEncNanosNow : String := "index/entry.rs:154:nanos-try_into-u32"
def siteDecNanos : String := "index/entry.rs:86:mtime_nanos-try_into-i32"
def siteDecNew : String := "index/entry.rs:87:Timestamp::new"

/-- `SystemTime → Timestamp` in `entry_from_fs_metadata`: `expect` on out-of-range. -/
def sourceTimestamp (t : Int) : Outcome Int :=
  if inRange t then .ok t else .panic siteSourceRange

/-- `IndexEntry::metadata_from`, the two mtime fields (`mtime`, `mtime_nanos`), literally:
truncate, then borrow one second if the fraction is negative.  The `try_into::<u32>().unwrap()`
is still there; `Conserve.C01b.toIndex_eq_floor` shows it cannot fire any more. -/
def toIndex (t : Int) : Outcome (Int × Nat) :=
  let secs := asSecond t
  let nanos := subsecNanosecond t
  let (secs, nanos) := if nanos < 0 then (secs - 1, nanos + 1000000000) else (secs, nanos)
  if nanos < 0 then .panic siteEncNanosNow  -- i32 → u32 `try_into().unwrap()`
  else .ok (secs, nanos.toNat)

/-- `metadata_from` before commit 6ea0861. -/
def toIndexPre (t : Int) : Outcome (Int × Nat) :=
  let frac := subsecNanosecond t
  if frac < 0 then .panic siteEncNanos     -- i32 → u32 `try_into().unwrap()`
  else .ok (asSecond t, frac.toNat)

/-- `IndexEntry::mtime()` on the stored pair (`mtime : i64`, `mtime_nanos : u32`). -/
def indexMtime (sec : Int) (nanos : Nat) : Outcome Int :=
  if nanos ≥ 2147483648 then .panic siteDecNanos            -- u32 → i32 `try_into().unwrap()`
  else if sec < secMin ∨ secMax < sec ∨ nanos > 999999999 then .panic siteDecNew  -- `expect`
  else .ok (sec * nsPerSec + nanos)                         -- normalisation keeps the total

/-- `i32::cast_unsigned` (two's complement reinterpretation as `u32`). -/
def castUnsigned (x : Int) : Nat := if 0 ≤ x then x.toNat else (4294967296 + x).toNat

/-- `to_file_time`, then filetime's `to_timespec`: (`tv_sec`, `tv_nsec`) given to `utimensat`.
Literally: truncate, borrow one second if the fraction is negative, `cast_unsigned`. -/
def toFileTime (ts : Int) : Int × Nat :=
  let secs := asSecond ts
  let nanos := subsecNanosecond ts
  let (secs, nanos) := if nanos < 0 then (secs - 1, nanos + 1000000000) else (secs, nanos)
  (secs, castUnsigned nanos)

/-- `to_file_time` before commit 6ea0861: a negative fraction is reinterpreted as `u32`. -/
def toFileTimePre (ts : Int) : Int × Nat := (asSecond ts, castUnsigned (subsecNanosecond ts))

/-- Linux `utimensat`: `tv_nsec` must be below 10⁹ (or one of `UTIME_NOW` = 2³⁰−1,
`UTIME_OMIT` = 2³⁰−2, which `castUnsigned` of a sub-second value never produces — see
`Conserve.C01b.castUnsigned_not_special`); otherwise `EINVAL`.  When accepted, the file's
mtime becomes `tv_sec·10⁹ + tv_nsec` (file-system range and granularity aside). -/
def osAccepts (ft : Int × Nat) : Option Int :=
  if ft.2 < 1000000000 then some (ft.1 * nsPerSec + ft.2) else none

/-- Read an index pair back and convert it for `utimensat`: what restore hands to the OS. -/
def restoredTime (enc : Outcome (Int × Nat)) : Outcome (Int × Nat) :=
  enc.bind fun p => (indexMtime p.1 p.2).bind fun ts => .ok (toFileTime ts)

/-- Whole pipeline from a source mtime (ns): walk, index, read back, hand to the OS. -/
def mtimeEncode (t : Int) : Outcome (Int × Nat) := (sourceTimestamp t).bind toIndex
def mtimeRoundTrip (t : Int) : Outcome (Int × Nat) := restoredTime (mtimeEncode t)

/-! ### Before the repair -/

def restoredTimePre (enc : Outcome (Int × Nat)) : Outcome (Int × Nat) :=
  enc.bind fun p => (indexMtime p.1 p.2).bind fun ts => .ok (toFileTimePre ts)

def mtimeEncodePre (t : Int) : Outcome (Int × Nat) := (sourceTimestamp t).bind toIndexPre
def mtimeRoundTripPre (t : Int) : Outcome (Int × Nat) := restoredTimePre (mtimeEncodePre t)

end Conserve.DM
