import ConserveModel.Entry
/-
Byte-level model of the JSON that conserve writes and reads for index hunks
(`Vec<IndexEntry>`, src/index/entry.rs, src/blockdir.rs `Address`, src/owner.rs, src/unix_mode.rs,
src/kind.rs, src/blockhash.rs) and for the band head and tail (src/band.rs `Head`, `Tail`,
src/jsonio.rs).

Writer side: `serde_json::to_vec` (index/write.rs) — the compact formatter of serde_json 1.0.149
(`ser.rs`: `format_escaped_str_contents`, table `ESCAPE`, `CompactFormatter`, integers through `itoa`)
driven by the `Serialize` impls that serde_derive 1.0.228 generates for the structs above.

Reader side: `serde_json::from_slice` (index/mod.rs) — `de.rs` / `read.rs` (`SliceRead`) of serde_json
driven by the derived `Deserialize` impls.  The parser below follows that code function by function;
the names of the mirrored Rust functions are given in the comments.

Strings are byte lists (`Str`).  Every function is total and computable.  Recursion that is not
structural on the input takes a fuel argument; the entry points hand in the input length, and the
round-trip theorems (Props/C13j.lean) prove that this is enough.

Deliberate differences from serde_json + derive are listed at the end of this file.
-/
namespace Conserve.Json
open Conserve

/-! ## Writer -/

/-- `HEX_DIGITS` of `write_char_escape`: lowercase. -/
def hexLower (n : Nat) : Nat := if n < 10 then 48 + n else 87 + n

/-- One byte of a string body, after table `ESCAPE` of serde_json `ser.rs`:
`"` and `\` get a backslash, 08 09 0a 0c 0d the short forms `\b \t \n \f \r`, every other
byte below 0x20 the form `\u00xx` (lowercase hex), all other bytes (including 0x7f and everything
≥ 0x80) are written raw. -/
def escByte (b : Nat) : Str :=
  if b = 34 then [92, 34]
  else if b = 92 then [92, 92]
  else if b = 8 then [92, 98]
  else if b = 9 then [92, 116]
  else if b = 10 then [92, 110]
  else if b = 12 then [92, 102]
  else if b = 13 then [92, 114]
  else if b < 32 then [92, 117, 48, 48, hexLower (b / 16), hexLower (b % 16)]
  else [b]

/-- String body and the closing quote (`format_escaped_str_contents`, then `end_string`). -/
def renderChars : Str → Str
  | [] => [34]
  | b :: bs => escByte b ++ renderChars bs

/-- `format_escaped_str`. -/
def renderString (s : Str) : Str := 34 :: renderChars s

/-- Decimal digits of a natural number, most significant first (`itoa`); `fuel ≥ n` is more than
enough (one unit per digit is used). -/
def renderNatF : Nat → Nat → Str
  | 0, n => [48 + n % 10]
  | f + 1, n => if n < 10 then [48 + n] else renderNatF f (n / 10) ++ [48 + n % 10]

/-- `itoa`: decimal digits, no sign, no leading zeros (`0` for zero). -/
def renderNat (n : Nat) : Str := renderNatF n n

/-- `itoa` for signed integers. -/
def renderInt : Int → Str
  | .ofNat n => renderNat n
  | .negSucc n => 45 :: renderNat (n + 1)

def kNull : Str := [110, 117, 108, 108]

/-- `Option<String>`: `null` or the string. -/
def renderOptStr : Option Str → Str
  | none => kNull
  | some s => renderString s

/-- `Option<u32>` / `Option<u64>`: `null` or the number. -/
def renderOptNat : Option Nat → Str
  | none => kNull
  | some n => renderNat n

/-- `,x,y,z]` — the rest of a JSON array after its first element (`CompactFormatter`). -/
def renderSeqTail (f : α → Str) : List α → Str
  | [] => [93]
  | x :: xs => 44 :: (f x ++ renderSeqTail f xs)

/-- A JSON array in compact form. -/
def renderSeq (f : α → Str) : List α → Str
  | [] => [91, 93]
  | x :: xs => 91 :: (f x ++ renderSeqTail f xs)

-- Field names and variant names.
def kApath : Str := [97, 112, 97, 116, 104]
def kKind : Str := [107, 105, 110, 100]
def kMtime : Str := [109, 116, 105, 109, 101]
def kUnixMode : Str := [117, 110, 105, 120, 95, 109, 111, 100, 101]
def kUser : Str := [117, 115, 101, 114]
def kGroup : Str := [103, 114, 111, 117, 112]
def kMtimeNanos : Str := [109, 116, 105, 109, 101, 95, 110, 97, 110, 111, 115]
def kAddrs : Str := [97, 100, 100, 114, 115]
def kTarget : Str := [116, 97, 114, 103, 101, 116]
def kHash : Str := [104, 97, 115, 104]
def kStart : Str := [115, 116, 97, 114, 116]
def kLen : Str := [108, 101, 110]
def kFile : Str := [70, 105, 108, 101]
def kDir : Str := [68, 105, 114]
def kSymlink : Str := [83, 121, 109, 108, 105, 110, 107]
def kUnknown : Str := [85, 110, 107, 110, 111, 119, 110]

/-- Variant name of `Kind` (derived `Serialize` of a unit-variant enum: the name as a string). -/
def kindName : Kind → Str
  | .file => kFile | .dir => kDir | .symlink => kSymlink | .unknown => kUnknown

/-- `,"key":` -/
def commaKey (k : Str) : Str := 44 :: (renderString k ++ [58])

/-- `blockdir::Address`: `{"hash":"…","start":n,"len":n}`, `start` skipped when zero
(`skip_serializing_if = "zero_u64"`). -/
def renderAddr (a : Addr) : Str :=
  123 :: (renderString kHash ++ 58 :: (renderString a.hash ++
    ((if a.start = 0 then [] else commaKey kStart ++ renderNat a.start) ++
     (commaKey kLen ++ (renderNat a.len ++ [125])))))

/-- The members of an `IndexEntry` after `unix_mode`, each optional:
`user`+`group` (flattened `Owner`, skipped when both are `None`; when written, both members are
written, an absent one as `null`), `mtime_nanos` (skipped when 0), `addrs` (skipped when empty),
`target` (skipped when `None`), then the closing brace. -/
def renderEntryTail (e : IndexEntry) : Str :=
  (if e.user.isNone && e.group.isNone then []
   else commaKey kUser ++ (renderOptStr e.user ++ (commaKey kGroup ++ renderOptStr e.group))) ++
  ((if e.mtimeNanos = 0 then [] else commaKey kMtimeNanos ++ renderNat e.mtimeNanos) ++
  ((if e.addrs.isEmpty then [] else commaKey kAddrs ++ renderSeq renderAddr e.addrs) ++
  ((match e.target with
    | none => []
    | some t => commaKey kTarget ++ renderString t) ++ [125])))

/-- One `IndexEntry` in the field order of the struct declaration:
`apath, kind, mtime, unix_mode, [user, group], [mtime_nanos], [addrs], [target]`. -/
def renderEntry (e : IndexEntry) : Str :=
  123 :: (renderString kApath ++ 58 :: (renderString e.apath ++
    (commaKey kKind ++ (renderString (kindName e.kind) ++
    (commaKey kMtime ++ (renderInt e.mtime ++
    (commaKey kUnixMode ++ (renderOptNat e.unixMode ++ renderEntryTail e))))))))

/-- The bytes `IndexWriter::finish_hunk` compresses: `serde_json::to_vec(&entries)`. -/
def renderHunk (es : List IndexEntry) : Str := renderSeq renderEntry es

/-! ## Reader: lexical level -/

/-- `Deserializer::parse_whitespace`: space, `\n`, `\t`, `\r`. -/
def skipWs : Str → Str
  | [] => []
  | c :: r => if c = 32 ∨ c = 10 ∨ c = 9 ∨ c = 13 then skipWs r else c :: r

/-- `parse_ident`: the given bytes must come next. -/
def expectLit : Str → Str → Option Str
  | [], s => some s
  | _ :: _, [] => none
  | l :: ls, c :: r => if c = l then expectLit ls r else none

/-- `decode_hex_val`: both cases are accepted. -/
def hexDigitVal (c : Nat) : Option Nat :=
  if 48 ≤ c ∧ c ≤ 57 then some (c - 48)
  else if 97 ≤ c ∧ c ≤ 102 then some (c - 87)
  else if 65 ≤ c ∧ c ≤ 70 then some (c - 55)
  else none

/-- `SliceRead::decode_hex_escape`: exactly four hex digits. -/
def hex4 : Str → Option (Nat × Str)
  | a :: b :: c :: d :: r =>
    match hexDigitVal a, hexDigitVal b, hexDigitVal c, hexDigitVal d with
    | some a, some b, some c, some d => some (a * 4096 + b * 256 + c * 16 + d, r)
    | _, _, _, _ => none
  | _ => none

/-- `push_wtf8_codepoint`: UTF-8 encoding of a code point below 0x110000. -/
def utf8Encode (n : Nat) : Str :=
  if n < 128 then [n]
  else if n < 2048 then [192 + n / 64, 128 + n % 64]
  else if n < 65536 then [224 + n / 4096, 128 + n / 64 % 64, 128 + n % 64]
  else [240 + n / 262144, 128 + n / 4096 % 64, 128 + n / 64 % 64, 128 + n % 64]

/-- `parse_unicode_escape` with `validate = true`, after `\u`: a lone trailing surrogate is an
error, a leading surrogate must be followed by `\u` and a trailing surrogate. -/
def parseUnicode (s : Str) : Option (Str × Str) :=
  match hex4 s with
  | none => none
  | some (n, r1) =>
    if 56320 ≤ n ∧ n ≤ 57343 then none
    else if n < 55296 ∨ n > 56319 then some (utf8Encode n, r1)
    else match r1 with
      | 92 :: 117 :: r2 =>
        match hex4 r2 with
        | none => none
        | some (n2, r3) =>
          if 56320 ≤ n2 ∧ n2 ≤ 57343 then
            some (utf8Encode (65536 + ((n - 55296) * 1024 + (n2 - 56320))), r3)
          else none
      | _ => none

/-- `parse_escape`, after the backslash. -/
def parseEscape : Str → Option (Str × Str)
  | [] => none
  | c :: r =>
    if c = 34 then some ([34], r)
    else if c = 92 then some ([92], r)
    else if c = 47 then some ([47], r)
    else if c = 98 then some ([8], r)
    else if c = 102 then some ([12], r)
    else if c = 110 then some ([10], r)
    else if c = 114 then some ([13], r)
    else if c = 116 then some ([9], r)
    else if c = 117 then parseUnicode r
    else none

/-- `SliceRead::parse_str_bytes` after the opening quote, without the final UTF-8 check:
the decoded bytes up to the closing quote, and what follows it.  Raw control bytes are errors. -/
def parseCharsF : Nat → Str → Option (Str × Str)
  | 0, _ => none
  | _ + 1, [] => none
  | f + 1, c :: r =>
    if c = 34 then some ([], r)
    else if c = 92 then
      match parseEscape r with
      | none => none
      | some (bs, r') =>
        match parseCharsF f r' with
        | none => none
        | some (s, r'') => some (bs ++ s, r'')
    else if c < 32 then none
    else
      match parseCharsF f r with
      | none => none
      | some (s, r'') => some (c :: s, r'')

def isCont (b : Nat) : Bool := 128 ≤ b && b ≤ 191

/-- `str::from_utf8`: well-formed UTF-8 (no overlong forms, no surrogates, nothing above U+10FFFF). -/
def validUtf8 : Str → Bool
  | [] => true
  | a :: rest =>
    if a < 128 then validUtf8 rest
    else match rest with
      | [] => false
      | b :: rest2 =>
        if 194 ≤ a ∧ a ≤ 223 then isCont b && validUtf8 rest2
        else match rest2 with
          | [] => false
          | c :: rest3 =>
            if a = 224 then (160 ≤ b && b ≤ 191) && isCont c && validUtf8 rest3
            else if (225 ≤ a ∧ a ≤ 236) ∨ a = 238 ∨ a = 239 then isCont b && isCont c && validUtf8 rest3
            else if a = 237 then (128 ≤ b && b ≤ 159) && isCont c && validUtf8 rest3
            else match rest3 with
              | [] => false
              | d :: rest4 =>
                if a = 240 then (144 ≤ b && b ≤ 191) && isCont c && isCont d && validUtf8 rest4
                else if 241 ≤ a ∧ a ≤ 243 then isCont b && isCont c && isCont d && validUtf8 rest4
                else if a = 244 then (128 ≤ b && b ≤ 143) && isCont c && isCont d && validUtf8 rest4
                else false

/-- `SliceRead::parse_str` after the opening quote: `parse_str_bytes` with `as_str` (UTF-8 check
of the decoded bytes; `ErrorCode::InvalidUnicodeCodePoint` otherwise). -/
def parseStrBody (f : Nat) (s : Str) : Option (Str × Str) :=
  match parseCharsF f s with
  | none => none
  | some (bs, r) => if validUtf8 bs then some (bs, r) else none

/-- A JSON string at the start of the input (opening quote included), decoded, without the UTF-8
check (`parse_str_raw`). -/
def parseStringRaw (s : Str) : Option (Str × Str) :=
  match s with
  | [] => none
  | c :: r => if c = 34 then parseCharsF s.length r else none

/-- A JSON string at the start of the input (opening quote included), as `parse_str` reads it. -/
def parseString (s : Str) : Option (Str × Str) :=
  match s with
  | [] => none
  | c :: r => if c = 34 then parseStrBody s.length r else none

/-- `deserialize_str` / `deserialize_string`: whitespace, a quote, the string. -/
def parseStr (f : Nat) (s : Str) : Option (Str × Str) :=
  match skipWs s with
  | [] => none
  | c :: r => if c = 34 then parseStrBody f r else none

/-- `deserialize_option` for `Option<String>`: `null`, or a string. -/
def parseOptStr (f : Nat) (s : Str) : Option (Option Str × Str) :=
  match skipWs s with
  | [] => none
  | c :: r =>
    if c = 110 then (expectLit [117, 108, 108] r).map fun r' => (none, r')
    else if c = 34 then (parseStrBody f r).map fun (v, r') => (some v, r')
    else none

def isDigit (c : Nat) : Bool := 48 ≤ c && c ≤ 57

/-- The maximal run of decimal digits, as its value so far, and what follows. -/
def takeDigits : Nat → Str → Nat × Str
  | acc, [] => (acc, [])
  | acc, c :: r => if isDigit c then takeDigits (acc * 10 + (c - 48)) r else (acc, c :: r)

/-- After the integer part: `parse_number` turns `.`, `e`, `E` into a float, which the visitors of
the integer types refuse. -/
def noFraction : Str → Bool
  | [] => true
  | c :: _ => !(c = 46 || c = 101 || c = 69)

/-- `parse_integer` on behalf of an integer type, after whitespace and an optional minus sign:
the value of `0` or of a digit run that does not start with `0`; `none` when the number has a
fraction or an exponent (`ParserNumber::F64`, "invalid type: floating point") or is malformed. -/
def parseMagnitude : Str → Option (Nat × Str)
  | [] => none
  | c :: r =>
    if c = 48 then
      match r with
      | d :: _ => if isDigit d then none else if noFraction r then some (0, r) else none
      | [] => some (0, r)
    else if isDigit c then
      let (v, r') := takeDigits (c - 48) r
      if noFraction r' then some (v, r') else none
    else none

/-- `deserialize_u64` / `deserialize_u32` (`deserialize_number` + `visit_u64` with the range check of
the primitive's visitor): a non-negative integer literal below `bound`.  A minus sign always fails
(`-0` is a float, other negatives are out of range). -/
def parseUnsigned (bound : Nat) (s : Str) : Option (Nat × Str) :=
  match parseMagnitude (skipWs s) with
  | none => none
  | some (v, r) => if v < bound then some (v, r) else none

/-- `deserialize_i64`: as above; `-0` is `ParserNumber::F64(-0.0)` and is refused, magnitudes above
2^63 (2^63-1 without sign) overflow into floats and are refused. -/
def parseI64 (s : Str) : Option (Int × Str) :=
  match skipWs s with
  | [] => none
  | c :: r =>
    if c = 45 then
      match parseMagnitude r with
      | none => none
      | some (v, r') => if v = 0 ∨ v > 9223372036854775808 then none else some (-(v : Int), r')
    else
      match parseMagnitude (c :: r) with
      | none => none
      | some (v, r') => if v < 9223372036854775808 then some ((v : Int), r') else none

/-- `UnixMode(Option<u32>)`: `deserialize_newtype_struct` hands the value to `Option<u32>`. -/
def parseOptU32 (s : Str) : Option (Option Nat × Str) :=
  match skipWs s with
  | [] => none
  | c :: r =>
    if c = 110 then (expectLit [117, 108, 108] r).map fun r' => (none, r')
    else (parseUnsigned 4294967296 (c :: r)).map fun (v, r') => (some v, r')

/-- `Option<u64>` (band tail). -/
def parseOptU64 (s : Str) : Option (Option Nat × Str) :=
  match skipWs s with
  | [] => none
  | c :: r =>
    if c = 110 then (expectLit [117, 108, 108] r).map fun r' => (none, r')
    else (parseUnsigned 18446744073709551616 (c :: r)).map fun (v, r') => (some v, r')

/-! ## Reader: skipping values

Two different routines of serde_json skip a value the struct has no field for:

* in `IndexEntry` (it has a `#[serde(flatten)]` member) every member that is not one of the seven
  plain fields is *buffered* as `serde::__private::de::Content` through `deserialize_any`: full
  parsing, strings UTF-8 checked, surrogates checked, recursion limit (128 in all, two levels are
  used up by the hunk array and the entry object), floats converted (and refused when they
  overflow to infinity).  This is `skipStrict`.
* in `Address`, `Head`, `Tail` (no `flatten`) an unknown member is skipped with
  `Deserializer::ignore_value`: grammar only, no recursion limit, strings not UTF-8 checked,
  `\u` escapes only need four hex digits, numbers only need the right shape.  This is `skipLenient`.
-/

/-- `ignore_integer` / `ignore_decimal` / `ignore_exponent` after the optional minus:
`(0|[1-9][0-9]*)(\.[0-9]+)?([eE][+-]?[0-9]+)?`.  Returns the shape for the overflow check of the
strict mode: significand (first 19–20 digits as serde keeps them), decimal exponent. -/
structure NumShape where
  significand : Nat
  exponent : Int
  /-- the exponent field itself was too long for an `i32` (`parse_exponent_overflow`) -/
  expOverflow : Bool := false
  expPositive : Bool := true
  deriving Repr

/-- Digits folded into a `u64` significand the way `parse_integer` / `parse_decimal` do: as long as
`significand * 10 + digit` fits in a `u64` the digit is taken; afterwards further digits are only
counted (integer part, `parse_long_integer`) or dropped (fraction, `parse_decimal_overflow`).
Returns significand, number of digits taken, number of digits not taken, rest. -/
def takeSignificand : Nat → Nat → Nat → Bool → Str → Nat × Nat × Nat × Str
  | sig, taken, skipped, _, [] => (sig, taken, skipped, [])
  | sig, taken, skipped, full, c :: r =>
    if isDigit c then
      if !full && sig * 10 + (c - 48) < 18446744073709551616 then
        takeSignificand (sig * 10 + (c - 48)) (taken + 1) skipped false r
      else takeSignificand sig taken (skipped + 1) true r
    else (sig, taken, skipped, c :: r)

/-- The exponent part after `e`/`E`: optional sign, at least one digit. -/
def parseExponentPart (s : Str) : Option (Bool × Nat × Nat × Str) :=
  let (pos, s1) := match s with
    | 43 :: r => (true, r)
    | 45 :: r => (false, r)
    | _ => (true, s)
  match s1 with
  | c :: _ =>
    if isDigit c then
      let (v, r) := takeDigits 0 s1
      some (pos, v, s1.length - r.length, r)
    else none
  | [] => none

/-- A JSON number after the optional minus sign; `none` when malformed. -/
def parseNumberShape (s : Str) : Option (NumShape × Str) :=
  match s with
  | [] => none
  | c :: r =>
    if !isDigit c then none
    else
      -- integer part
      let intPart : Option (Nat × Nat × Str) :=
        if c = 48 then
          match r with
          | d :: _ => if isDigit d then none else some (0, 0, r)
          | [] => some (0, 0, r)
        else
          let (sig, _, skipped, r') := takeSignificand 0 0 0 false (c :: r)
          some (sig, skipped, r')
      match intPart with
      | none => none
      | some (sig, skipped, r1) =>
        -- fraction
        let frac : Option (Nat × Int × Str) :=
          match r1 with
          | 46 :: r2 =>
            (match r2 with
             | d :: _ =>
               if isDigit d then
                 let (sig', taken, _, r3) := takeSignificand sig 0 0 false r2
                 some (sig', (skipped : Int) - (taken : Int), r3)
               else none
             | [] => none)
          | _ => some (sig, (skipped : Int), r1)
        match frac with
        | none => none
        | some (sig2, e0, r4) =>
          match r4 with
          | c2 :: r5 =>
            if c2 = 101 ∨ c2 = 69 then
              match parseExponentPart r5 with
              | none => none
              | some (pos, v, _, r6) =>
                if v ≥ 2147483648 then
                  some ({ significand := sig2, exponent := 0, expOverflow := true, expPositive := pos }, r6)
                else
                  some ({ significand := sig2, exponent := if pos then e0 + v else e0 - v }, r6)
            else some ({ significand := sig2, exponent := e0 }, r4)
          | [] => some ({ significand := sig2, exponent := e0 }, r4)

/-- The double nearest to a natural number (`u64 as f64`, a float literal such as `1e292`), as a
natural number: round to 53 significant bits, ties to even.  (Only used for values below 2^1024.) -/
def f64OfNat (n : Nat) : Nat :=
  let b := n.log2
  if b ≤ 52 then n
  else
    let sh := b - 52
    let q := n >>> sh
    let rem := n % 2 ^ sh
    let half := 2 ^ (sh - 1)
    let q' := if rem > half ∨ (rem = half ∧ q % 2 = 1) then q + 1 else q
    q' <<< sh

/-- `f64_from_parts` / `parse_exponent_overflow`: is the number refused with `NumberOutOfRange`?
`f64_from_parts` computes `(significand as f64) * POW10[exponent]` (for `0 ≤ exponent ≤ 308`; a
larger exponent is refused outright unless the significand is zero, a negative one divides and never
overflows) and refuses an infinite result.  An IEEE product rounds to infinity exactly when the
exact product of the two doubles is at least `2^1024 - 2^970` (half an ulp above the largest
double; the tie goes to the even neighbour, which is infinity). -/
def numOverflows (n : NumShape) : Bool :=
  if n.expOverflow then n.significand != 0 && n.expPositive
  else if n.significand = 0 then false
  else if n.exponent > 308 then true
  else if n.exponent < 0 then false
  else f64OfNat n.significand * f64OfNat (10 ^ n.exponent.toNat) ≥ 2 ^ 1024 - 2 ^ 970

/-- `ignore_str`: like `parseCharsF` without decoding; `\u` needs four hex digits and nothing more. -/
def skipCharsLenientF : Nat → Str → Option Str
  | 0, _ => none
  | _ + 1, [] => none
  | f + 1, c :: r =>
    if c = 34 then some r
    else if c = 92 then
      match r with
      | [] => none
      | e :: r' =>
        if e = 34 ∨ e = 92 ∨ e = 47 ∨ e = 98 ∨ e = 102 ∨ e = 110 ∨ e = 114 ∨ e = 116 then skipCharsLenientF f r'
        else if e = 117 then
          match hex4 r' with
          | none => none
          | some (_, r'') => skipCharsLenientF f r''
        else none
    else if c < 32 then none
    else skipCharsLenientF f r

mutual
/-- One JSON value.  `strict = true`: `deserialize_any` into `Content` with `depth` container levels
left; `strict = false`: `ignore_value`. -/
def skipValueF (strict : Bool) : Nat → Nat → Str → Option Str
  | 0, _, _ => none
  | f + 1, depth, s =>
    match skipWs s with
    | [] => none
    | c :: r =>
      if c = 110 then expectLit [117, 108, 108] r
      else if c = 116 then expectLit [114, 117, 101] r
      else if c = 102 then expectLit [97, 108, 115, 101] r
      else if c = 34 then
        if strict then (parseStrBody f r).map (·.2) else skipCharsLenientF f r
      else if c = 45 ∨ isDigit c then
        match parseNumberShape (if c = 45 then r else c :: r) with
        | none => none
        | some (n, r') => if strict && numOverflows n then none else some r'
      else if c = 91 then
        if strict && depth ≤ 1 then none else skipElemsF strict f (depth - 1) true r
      else if c = 123 then
        if strict && depth ≤ 1 then none else skipMembersF strict f (depth - 1) true r
      else none
/-- Elements of an array up to and including `]` (`SeqAccess::next_element_seed`, `end_seq`). -/
def skipElemsF (strict : Bool) : Nat → Nat → Bool → Str → Option Str
  | 0, _, _, _ => none
  | f + 1, depth, first, s =>
    match skipWs s with
    | [] => none
    | c :: r =>
      if c = 93 then some r
      else if first then
        match skipValueF strict f depth (c :: r) with
        | none => none
        | some r' => skipElemsF strict f depth false r'
      else if c = 44 then
        match skipWs r with
        | [] => none
        | c' :: r' =>
          if c' = 93 then none
          else match skipValueF strict f depth (c' :: r') with
            | none => none
            | some r'' => skipElemsF strict f depth false r''
      else none
/-- Members of an object up to and including `}` (`MapAccess::next_key_seed`, `end_map`). -/
def skipMembersF (strict : Bool) : Nat → Nat → Bool → Str → Option Str
  | 0, _, _, _ => none
  | f + 1, depth, first, s =>
    match skipWs s with
    | [] => none
    | c :: r =>
      if c = 125 then some r
      else
        let keyStart : Option Str :=
          if first then (if c = 34 then some r else none)
          else if c = 44 then
            (match skipWs r with
             | 34 :: r' => some r'
             | _ => none)
          else none
        match keyStart with
        | none => none
        | some r1 =>
          let afterKey : Option Str :=
            if strict then (parseStrBody f r1).map (·.2) else skipCharsLenientF f r1
          match afterKey with
          | none => none
          | some r2 =>
            match skipWs r2 with
            | 58 :: r3 =>
              (match skipValueF strict f depth r3 with
               | none => none
               | some r4 => skipMembersF strict f depth false r4)
            | _ => none
end

/-- An unknown member of an `IndexEntry` (buffered as `Content`): 126 of serde_json's 128 levels are
left inside an entry. -/
def skipStrict (f : Nat) (s : Str) : Option Str := skipValueF true f 126 s

/-- An unknown member of an `Address`, `Head` or `Tail` (`IgnoredAny`). -/
def skipLenient (f : Nat) (s : Str) : Option Str := skipValueF false f 0 s

/-! ## Reader: objects and arrays -/

/-- `MapAccess` driving a derived `visit_map`: members `"key" : value` separated by commas up to and
including `}`.  `field` consumes the value of one member and updates the state (`none` = error,
e.g. duplicate field).  Keys are parsed like every string (escapes are decoded before the
comparison with the field names). -/
def parseMembersF (field : Nat → σ → Str → Str → Option (σ × Str)) :
    Nat → Bool → σ → Str → Option (σ × Str)
  | 0, _, _, _ => none
  | f + 1, first, acc, s =>
    match skipWs s with
    | [] => none
    | c :: r =>
      if c = 125 then some (acc, r)
      else
        let keyStart : Option Str :=
          if first then (if c = 34 then some r else none)
          else if c = 44 then
            (match skipWs r with
             | 34 :: r' => some r'
             | _ => none)
          else none
        match keyStart with
        | none => none
        | some r1 =>
          match parseStrBody f r1 with
          | none => none
          | some (key, r2) =>
            match skipWs r2 with
            | 58 :: r3 =>
              (match field f acc key r3 with
               | none => none
               | some (acc', r4) => parseMembersF field f false acc' r4)
            | _ => none

/-- `SeqAccess` driving `Vec<T>`'s `visit_seq`, then `end_seq`: elements separated by commas up to
and including `]`; a trailing comma is an error. -/
def parseSeqF (elem : Nat → Str → Option (α × Str)) : Nat → Bool → Str → Option (List α × Str)
  | 0, _, _ => none
  | f + 1, first, s =>
    match skipWs s with
    | [] => none
    | c :: r =>
      if c = 93 then some ([], r)
      else if first then
        match elem f (c :: r) with
        | none => none
        | some (x, r') =>
          match parseSeqF elem f false r' with
          | none => none
          | some (xs, r'') => some (x :: xs, r'')
      else if c = 44 then
        match skipWs r with
        | [] => none
        | c' :: r' =>
          if c' = 93 then none
          else match elem f (c' :: r') with
            | none => none
            | some (x, r'') =>
              match parseSeqF elem f false r'' with
              | none => none
              | some (xs, r''') => some (x :: xs, r''')
      else none

/-- `deserialize_seq`: whitespace, `[`, the elements. -/
def parseArray (elem : Nat → Str → Option (α × Str)) (f : Nat) (s : Str) : Option (List α × Str) :=
  match skipWs s with
  | 91 :: r => parseSeqF elem f true r
  | _ => none

/-! ## Reader: the types of an index hunk -/

def kindOfName (n : Str) : Option Kind :=
  if n = kFile then some .file
  else if n = kDir then some .dir
  else if n = kSymlink then some .symlink
  else if n = kUnknown then some .unknown
  else none

/-- `deserialize_enum` for `Kind`: either the variant name as a string (`UnitVariantAccess`) or an
object with one member, the variant name, whose value is `null` (`VariantAccess::unit_variant`). -/
def parseKind (f : Nat) (s : Str) : Option (Kind × Str) :=
  match skipWs s with
  | 34 :: r =>
    match parseStrBody f r with
    | none => none
    | some (n, r') => (kindOfName n).map fun k => (k, r')
  | 123 :: r =>
    match parseStr f r with
    | none => none
    | some (n, r1) =>
      match kindOfName n with
      | none => none
      | some k =>
        match skipWs r1 with
        | 58 :: r2 =>
          (match skipWs r2 with
           | 110 :: r3 =>
             (match expectLit [117, 108, 108] r3 with
              | none => none
              | some r4 =>
                match skipWs r4 with
                | 125 :: r5 => some (k, r5)
                | _ => none)
           | _ => none)
        | _ => none
  | _ => none

/-- A string without escapes, after the opening quote: `BlockHash` is deserialised through
`<&str>::deserialize` (`#[serde(try_from = "&str")]`), which only succeeds for
`Reference::Borrowed`, i.e. when `parse_str_bytes` met no backslash. -/
def scanRaw : Str → Option (Str × Str)
  | [] => none
  | c :: r =>
    if c = 34 then some ([], r)
    else if c = 92 then none
    else if c < 32 then none
    else match scanRaw r with
      | none => none
      | some (s, r') => some (c :: s, r')

def isLowerHex (c : Nat) : Bool := (48 ≤ c && c ≤ 57) || (97 ≤ c && c ≤ 102)
def isHex (c : Nat) : Bool := isLowerHex c || (65 ≤ c && c ≤ 70)
def toLowerHex (c : Nat) : Nat := if 65 ≤ c ∧ c ≤ 70 then c + 32 else c

/-- `BlockHash::from_str`: 128 hex digits in either case (`hex::decode_to_slice`); the model keeps
the name as text, in the lower case `Display`/`Serialize` print. -/
def parseHash (s : Str) : Option (Str × Str) :=
  match skipWs s with
  | 34 :: r =>
    match scanRaw r with
    | none => none
    | some (h, r') =>
      if h.length = 128 ∧ h.all isHex then some (h.map toLowerHex, r') else none
  | _ => none

def u64Bound : Nat := 18446744073709551616
def u32Bound : Nat := 4294967296

structure AddrAcc where
  hash : Option Str := none
  start : Option Nat := none
  len : Option Nat := none

/-- One member of an `Address` object (derived `visit_map`): duplicate known keys are errors,
unknown keys are skipped with `ignore_value`. -/
def addrField (f : Nat) (acc : AddrAcc) (key : Str) (s : Str) : Option (AddrAcc × Str) :=
  if key = kHash then
    if acc.hash.isSome then none
    else (parseHash s).map fun (v, r) => ({ acc with hash := some v }, r)
  else if key = kStart then
    if acc.start.isSome then none
    else (parseUnsigned u64Bound s).map fun (v, r) => ({ acc with start := some v }, r)
  else if key = kLen then
    if acc.len.isSome then none
    else (parseUnsigned u64Bound s).map fun (v, r) => ({ acc with len := some v }, r)
  else (skipLenient f s).map fun r => (acc, r)

/-- End of the derived `visit_map`: `hash` and `len` are required, `start` defaults to 0. -/
def AddrAcc.finish (acc : AddrAcc) : Option Addr :=
  match acc.hash, acc.len with
  | some h, some l => some { hash := h, start := acc.start.getD 0, len := l }
  | _, _ => none

/-- The tuple form every derived struct without `flatten` also accepts (`visit_seq`):
`[hash, start, len]` — exactly three elements (`len` has no default, so it cannot be left out,
and `end_seq` refuses a fourth). -/
def parseAddrTuple (s : Str) : Option (Addr × Str) :=
  match parseHash s with
  | none => none
  | some (h, r1) =>
    match skipWs r1 with
    | 44 :: r2 =>
      (match parseUnsigned u64Bound r2 with
       | none => none
       | some (st, r3) =>
         match skipWs r3 with
         | 44 :: r4 =>
           (match parseUnsigned u64Bound r4 with
            | none => none
            | some (l, r5) =>
              match skipWs r5 with
              | 93 :: r6 => some ({ hash := h, start := st, len := l }, r6)
              | _ => none)
         | _ => none)
    | _ => none

/-- `deserialize_struct` for `Address`. -/
def parseAddr (f : Nat) (s : Str) : Option (Addr × Str) :=
  match skipWs s with
  | 123 :: r =>
    match parseMembersF addrField f true {} r with
    | none => none
    | some (acc, r') => acc.finish.map fun a => (a, r')
  | 91 :: r => parseAddrTuple r
  | _ => none

structure EntryAcc where
  apath : Option Str := none
  kind : Option Kind := none
  mtime : Option Int := none
  unixMode : Option (Option Nat) := none
  user : Option (Option Str) := none
  group : Option (Option Str) := none
  mtimeNanos : Option Nat := none
  addrs : Option (List Addr) := none
  target : Option (Option Str) := none

/-- One member of an `IndexEntry` object.  The seven plain fields are deserialised directly and
may occur once.  Everything else is buffered; `user` and `group` are then read from the buffer by
`Owner`'s own `visit_map` (through `FlatMapDeserializer`), which refuses duplicates and wants
`null` or a string; the rest of the buffer is dropped (no `deny_unknown_fields`). -/
def entryField (f : Nat) (acc : EntryAcc) (key : Str) (s : Str) : Option (EntryAcc × Str) :=
  if key = kApath then
    if acc.apath.isSome then none
    else (parseStr f s).map fun (v, r) => ({ acc with apath := some v }, r)
  else if key = kKind then
    if acc.kind.isSome then none
    else (parseKind f s).map fun (v, r) => ({ acc with kind := some v }, r)
  else if key = kMtime then
    if acc.mtime.isSome then none
    else (parseI64 s).map fun (v, r) => ({ acc with mtime := some v }, r)
  else if key = kUnixMode then
    if acc.unixMode.isSome then none
    else (parseOptU32 s).map fun (v, r) => ({ acc with unixMode := some v }, r)
  else if key = kMtimeNanos then
    if acc.mtimeNanos.isSome then none
    else (parseUnsigned u32Bound s).map fun (v, r) => ({ acc with mtimeNanos := some v }, r)
  else if key = kAddrs then
    if acc.addrs.isSome then none
    else (parseArray parseAddr f s).map fun (v, r) => ({ acc with addrs := some v }, r)
  else if key = kTarget then
    if acc.target.isSome then none
    else (parseOptStr f s).map fun (v, r) => ({ acc with target := some v }, r)
  else if key = kUser then
    if acc.user.isSome then none
    else (parseOptStr f s).map fun (v, r) => ({ acc with user := some v }, r)
  else if key = kGroup then
    if acc.group.isSome then none
    else (parseOptStr f s).map fun (v, r) => ({ acc with group := some v }, r)
  else (skipStrict f s).map fun r => (acc, r)

/-- End of the derived `visit_map`: `apath` and `kind` are required (`missing_field`), all others
have `#[serde(default)]` (`Owner`'s members are `Option`s, which `missing_field` turns into `None`). -/
def EntryAcc.finish (acc : EntryAcc) : Option IndexEntry :=
  match acc.apath, acc.kind with
  | some a, some k =>
    some { apath := a, kind := k, mtime := acc.mtime.getD 0, mtimeNanos := acc.mtimeNanos.getD 0,
           unixMode := acc.unixMode.getD none, user := acc.user.getD none,
           group := acc.group.getD none, addrs := acc.addrs.getD [], target := acc.target.getD none }
  | _, _ => none

/-- `deserialize_map` for `IndexEntry` (a struct with a flattened member is read as a map: the
tuple form `[…]` is not accepted). -/
def parseEntry (f : Nat) (s : Str) : Option (IndexEntry × Str) :=
  match skipWs s with
  | 123 :: r =>
    match parseMembersF entryField f true {} r with
    | none => none
    | some (acc, r') => acc.finish.map fun e => (e, r')
  | _ => none

/-- `serde_json::from_slice::<Vec<IndexEntry>>`: the array, then `Deserializer::end` (only
whitespace may follow). -/
def parseHunk (b : Str) : Option (List IndexEntry) :=
  match parseArray parseEntry b.length b with
  | none => none
  | some (es, r) => if (skipWs r).isEmpty then some es else none

/-! ## Band head and tail (src/band.rs `Head`, `Tail`; written by `jsonio::write_json`:
`serde_json::to_string` and a newline; read by `jsonio::read_json`: `serde_json::from_slice`) -/

structure HeadJson where
  startTime : Int
  bandFormatVersion : Option Str
  formatFlags : List Str
  deriving DecidableEq, Repr, Inhabited

structure TailJson where
  endTime : Int
  indexHunkCount : Option Nat
  deriving DecidableEq, Repr, Inhabited

def kStartTime : Str := [115, 116, 97, 114, 116, 95, 116, 105, 109, 101]
def kBandFormatVersion : Str :=
  [98, 97, 110, 100, 95, 102, 111, 114, 109, 97, 116, 95, 118, 101, 114, 115, 105, 111, 110]
def kFormatFlags : Str := [102, 111, 114, 109, 97, 116, 95, 102, 108, 97, 103, 115]
def kEndTime : Str := [101, 110, 100, 95, 116, 105, 109, 101]
def kIndexHunkCount : Str := [105, 110, 100, 101, 120, 95, 104, 117, 110, 107, 95, 99, 111, 117, 110, 116]

/-- `{"start_time":n,"band_format_version":"…"|null,"format_flags":[…]}` and a newline; no member is
ever skipped. -/
def renderHead (h : HeadJson) : Str :=
  123 :: (renderString kStartTime ++ 58 :: (renderInt h.startTime ++
    (commaKey kBandFormatVersion ++ (renderOptStr h.bandFormatVersion ++
    (commaKey kFormatFlags ++ (renderSeq renderString h.formatFlags ++ [125, 10]))))))

/-- `{"end_time":n,"index_hunk_count":n|null}` and a newline. -/
def renderTail (t : TailJson) : Str :=
  123 :: (renderString kEndTime ++ 58 :: (renderInt t.endTime ++
    (commaKey kIndexHunkCount ++ (renderOptNat t.indexHunkCount ++ [125, 10]))))

structure HeadAcc where
  startTime : Option Int := none
  bandFormatVersion : Option (Option Str) := none
  formatFlags : Option (List Str) := none

def headField (f : Nat) (acc : HeadAcc) (key : Str) (s : Str) : Option (HeadAcc × Str) :=
  if key = kStartTime then
    if acc.startTime.isSome then none
    else (parseI64 s).map fun (v, r) => ({ acc with startTime := some v }, r)
  else if key = kBandFormatVersion then
    if acc.bandFormatVersion.isSome then none
    else (parseOptStr f s).map fun (v, r) => ({ acc with bandFormatVersion := some v }, r)
  else if key = kFormatFlags then
    if acc.formatFlags.isSome then none
    else (parseArray parseStr f s).map fun (v, r) => ({ acc with formatFlags := some v }, r)
  else (skipLenient f s).map fun r => (acc, r)

/-- `start_time` is required; a missing `band_format_version` is `None` (`missing_field` of an
`Option`), `format_flags` has `#[serde(default)]`. -/
def HeadAcc.finish (acc : HeadAcc) : Option HeadJson :=
  match acc.startTime with
  | some t => some { startTime := t, bandFormatVersion := acc.bandFormatVersion.getD none,
                     formatFlags := acc.formatFlags.getD [] }
  | none => none

/-- The tuple form (`visit_seq`): `[start_time, band_format_version]` or with the flags as a third
element (only a `#[serde(default)]` field may be left out of a tuple). -/
def parseHeadTuple (f : Nat) (s : Str) : Option (HeadJson × Str) :=
  match parseI64 s with
  | none => none
  | some (t, r1) =>
    match skipWs r1 with
    | 44 :: r2 =>
      (match parseOptStr f r2 with
       | none => none
       | some (v, r3) =>
         match skipWs r3 with
         | 93 :: r4 => some ({ startTime := t, bandFormatVersion := v, formatFlags := [] }, r4)
         | 44 :: r4 =>
           (match parseArray parseStr f r4 with
            | none => none
            | some (fl, r5) =>
              match skipWs r5 with
              | 93 :: r6 => some ({ startTime := t, bandFormatVersion := v, formatFlags := fl }, r6)
              | _ => none)
         | _ => none)
    | _ => none

/-- `serde_json::from_slice::<Head>`. -/
def parseHead (b : Str) : Option HeadJson :=
  let res : Option (HeadJson × Str) :=
    match skipWs b with
    | 123 :: r =>
      (match parseMembersF headField b.length true {} r with
       | none => none
       | some (acc, r') => acc.finish.map fun h => (h, r'))
    | 91 :: r => parseHeadTuple b.length r
    | _ => none
  match res with
  | none => none
  | some (h, r) => if (skipWs r).isEmpty then some h else none

structure TailAcc where
  endTime : Option Int := none
  indexHunkCount : Option (Option Nat) := none

def tailField (f : Nat) (acc : TailAcc) (key : Str) (s : Str) : Option (TailAcc × Str) :=
  if key = kEndTime then
    if acc.endTime.isSome then none
    else (parseI64 s).map fun (v, r) => ({ acc with endTime := some v }, r)
  else if key = kIndexHunkCount then
    if acc.indexHunkCount.isSome then none
    else (parseOptU64 s).map fun (v, r) => ({ acc with indexHunkCount := some v }, r)
  else (skipLenient f s).map fun r => (acc, r)

def TailAcc.finish (acc : TailAcc) : Option TailJson :=
  match acc.endTime with
  | some t => some { endTime := t, indexHunkCount := acc.indexHunkCount.getD none }
  | none => none

/-- The tuple form: `[end_time, index_hunk_count]`, both elements. -/
def parseTailTuple (s : Str) : Option (TailJson × Str) :=
  match parseI64 s with
  | none => none
  | some (t, r1) =>
    match skipWs r1 with
    | 44 :: r2 =>
      (match parseOptU64 r2 with
       | none => none
       | some (v, r3) =>
         match skipWs r3 with
         | 93 :: r4 => some ({ endTime := t, indexHunkCount := v }, r4)
         | _ => none)
    | _ => none

/-- `serde_json::from_slice::<Tail>`. -/
def parseTail (b : Str) : Option TailJson :=
  let res : Option (TailJson × Str) :=
    match skipWs b with
    | 123 :: r =>
      (match parseMembersF tailField b.length true {} r with
       | none => none
       | some (acc, r') => acc.finish.map fun t => (t, r'))
    | 91 :: r => parseTailTuple r
    | _ => none
  match res with
  | none => none
  | some (t, r) => if (skipWs r).isEmpty then some t else none

/-! ## What the Rust types can hold

`String` is valid UTF-8 (`Apath(String)`, `Option<String>`), `mtime: i64`, `mtime_nanos: u32`,
`UnixMode(Option<u32>)`, `Address { start: u64, len: u64 }`, and a `BlockHash` is 64 bytes which
print as 128 lower-case hex digits. -/

def wfHash (h : Str) : Bool := h.length == 128 && h.all isLowerHex

def wfAddr (a : Addr) : Bool := wfHash a.hash && decide (a.start < u64Bound) && decide (a.len < u64Bound)

def wfOptStr : Option Str → Bool
  | none => true
  | some s => validUtf8 s

def wfOptU32 : Option Nat → Bool
  | none => true
  | some m => decide (m < u32Bound)

def wfEntry (e : IndexEntry) : Bool :=
  validUtf8 e.apath && decide (-9223372036854775808 ≤ e.mtime) && decide (e.mtime < 9223372036854775808) &&
  decide (e.mtimeNanos < u32Bound) && wfOptU32 e.unixMode && wfOptStr e.user && wfOptStr e.group &&
  e.addrs.all wfAddr && wfOptStr e.target

def wfHead (h : HeadJson) : Bool :=
  decide (-9223372036854775808 ≤ h.startTime) && decide (h.startTime < 9223372036854775808) &&
  wfOptStr h.bandFormatVersion && h.formatFlags.all validUtf8

def wfTail (t : TailJson) : Bool :=
  decide (-9223372036854775808 ≤ t.endTime) && decide (t.endTime < 9223372036854775808) &&
  (match t.indexHunkCount with
   | none => true
   | some n => decide (n < u64Bound))

/-- Every entry of the list is a value the Rust type `IndexEntry` can hold. -/
def WfEntries (es : List IndexEntry) : Prop := ∀ e ∈ es, wfEntry e = true

instance (es : List IndexEntry) : Decidable (WfEntries es) := by unfold WfEntries; infer_instance

/-
Deliberate differences from serde_json 1.0.149 + serde_derive 1.0.228:

* Errors are not distinguished: every rejection is `none`.
* In a buffered (unknown) member of an `IndexEntry`, a floating-point number is refused when it
  overflows to infinity.  The model decides this with exact integer arithmetic on the two doubles
  involved (`numOverflows`, `f64OfNat`) instead of floating-point operations; the harness compares
  the two around the boundary (1.797…e308).  No theorem depends on it.
* `Addr.hash` is kept as the 128 lower-case hex characters rather than 64 raw bytes.
* Inputs are lists of naturals; a "byte" ≥ 256 cannot occur in real input.  The parser treats it
  like any byte ≥ 0x80 (it then fails the UTF-8 check).
-/

end Conserve.Json
