import ConserveModel.Basic
import ConserveModel.Apath
import ConserveModel.ApathSpec
import ConserveModel.Driver.Blake
import ConserveModel.Driver.Glob
import ConserveModel.Driver.Diff
import ConserveModel.Driver.Mtime
import ConserveModel.Driver.Tree
import ConserveModel.Driver.Fs
import ConserveModel.Driver.Protocol
import ConserveModel.Driver.Ops
import ConserveModel.Driver.Json
/-
cvmodel: line-protocol driver for the executable model.
One request per line; the answer is zero or more lines followed by a line ".".
Unknown or malformed requests answer `bad-op` (the driver never defaults).
-/
open Conserve Conserve.DM

def handle (toks : List String) : List String :=
  match toks with
  | ["cmp", a, b] =>
    match parseBytes a, parseBytes b with
    | some a, some b => [showOrdering (apathCmp a b)]
    | _, _ => ["bad-op"]
  | ["doccmp", a, b] =>
    match parseBytes a, parseBytes b with
    | some a, some b => [showOrdering (docCmp a b)]
    | _, _ => ["bad-op"]
  | ["valid", a] =>
    match parseBytes a with
    | some a => [toString (isValid a)]
    | _ => ["bad-op"]
  | ["prefix", s, a] =>
    match parseBytes s, parseBytes a with
    | some s, some a => [toString (isPrefixOfImpl s a)]
    | _, _ => ["bad-op"]
  | ["prefix-charidx", s, a] =>
    match parseBytes s, parseBytes a with
    | some s, some a => [toString (isPrefixOfCharIndexed s a)]
    | _, _ => ["bad-op"]
  | ["ancestor", s, a] =>
    match parseBytes s, parseBytes a with
    | some s, some a => [toString (isAncestorOrSelf s a)]
    | _, _ => ["bad-op"]
  | _ => ["bad-op"]

/-- Stateless handlers, tried in order. -/
def handleStateless (toks : List String) : List String :=
  match handleBlake toks with
  | some r => r
  | none =>
    match [handleGlob, handleDiff, handleMtime, handleTree, Conserve.DFs.handleFs, Conserve.Proto.handleProtocol, Conserve.Json.handleJson].findSome? (fun h => h toks) with
    | some r => r
    | none => handle toks

partial def loop (h : IO.FS.Stream) (out : IO.FS.Stream) (st : Conserve.IO.DState) : IO Unit := do
  let line ← h.getLine
  if line.isEmpty then return ()
  let toks := (line.trimAscii.toString.splitOn " ").filter (· ≠ "")
  let (st', lines) := match Conserve.IO.step st toks with
    | some r => r
    | none => (st, handleStateless toks)
  for l in lines do
    out.putStrLn l
  out.putStrLn "."
  loop h out st'

def main : IO Unit := do
  let out ← IO.getStdout
  loop (← IO.getStdin) out {}
  out.flush
