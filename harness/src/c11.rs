//! C11: one total order on paths; validity.  Pure-function correspondence + oracles.
use crate::model::{run_model_1, s};
use crate::pathgen::*;
use crate::report::Report;
use crate::rng::Rng;
use conserve::Apath;
use serde_json::json;
use std::cmp::Ordering;

fn ord_str(o: Ordering) -> &'static str {
    match o {
        Ordering::Less => "lt",
        Ordering::Equal => "eq",
        Ordering::Greater => "gt",
    }
}

/// The documented rule, written independently: directory part (component-wise, byte-wise), then name.
pub fn doc_cmp(a: &str, b: &str) -> Ordering {
    let pa: Vec<&[u8]> = a.as_bytes().split(|c| *c == b'/').collect();
    let pb: Vec<&[u8]> = b.as_bytes().split(|c| *c == b'/').collect();
    let (la, da) = pa.split_last().unwrap();
    let (lb, db) = pb.split_last().unwrap();
    da.cmp(db).then(la.cmp(lb))
}

pub fn spec_valid(a: &str) -> bool {
    if !a.starts_with('/') {
        return false;
    }
    if a == "/" {
        return true;
    }
    components(a).iter().all(|c| !c.is_empty() && *c != "." && *c != ".." && !c.contains('\0'))
}

pub fn run(tier: &str, seed: u64, report: &mut Report) {
    let mut rng = Rng::new(seed);
    let thorough = tier == "thorough";
    // --- strings
    let mut strings = enumerate(COMPONENTS, 2);
    let deep = enumerate(COMPONENTS, 3);
    let n_deep = if thorough { 4000 } else { 600 };
    for _ in 0..n_deep {
        strings.push(rng.pick(&deep).clone());
    }
    for _ in 0..(if thorough { 3000 } else { 400 }) {
        strings.push(random_path(&mut rng, COMPONENTS, 5));
        strings.push(random_string(&mut rng));
    }
    // long components and long paths: legal wherever the rule says so — NTFS/HFS+ allow names of 255 UTF-16
    // units (up to 765 bytes of UTF-8), Linux paths up to 4096 bytes
    for (unit, n) in [("n", 255usize), ("n", 256), ("n", 1000), ("語", 86), ("語", 255), ("😀", 64), ("a/", 600), ("ab/", 2000)] {
        let body = unit.repeat(n);
        strings.push(format!("/{}", body.trim_end_matches('/')));
        strings.push(format!("/x/{}/y", body.trim_end_matches('/')));
    }
    strings.sort();
    strings.dedup();
    report.hit_n("strings", strings.len() as u64);

    // --- validity: impl vs model vs spec
    let reqs: Vec<String> = strings.iter().map(|x| format!("valid {}", s(x.as_bytes()))).collect();
    let ans = run_model_1(&reqs);
    for (x, m) in strings.iter().zip(ans.iter()) {
        let i = Apath::is_valid(x);
        report.case(&format!("valid {x:?}"), true);
        report.hit(if i { "valid:true" } else { "valid:false" });
        if i.to_string() != *m {
            report.disagree("valid", json!({"op":"is_valid","path":x}), json!(i), json!(m));
        }
        if i != spec_valid(x) {
            report.oracle_fail("valid-spec", json!({"op":"is_valid","path":x}), "is_valid differs from the documented rule", json!(i));
        }
    }

    // --- comparison: all pairs of the depth<=2 set (exhaustive), sampled pairs beyond
    let base = enumerate(COMPONENTS, 2);
    let mut pairs: Vec<(String, String)> = Vec::new();
    for a in &base {
        for b in &base {
            pairs.push((a.clone(), b.clone()));
        }
    }
    report.hit_n("pairs:exhaustive-depth2", pairs.len() as u64);
    let n_rand = if thorough { 1_500_000 } else { 150_000 };
    for _ in 0..n_rand {
        let a = rng.pick(&strings).clone();
        let b = if rng.chance(1, 4) {
            // near neighbour: mutate a
            let mut comps: Vec<String> = components(&a).iter().map(|c| c.to_string()).collect();
            match rng.below(3) {
                0 => comps.push(rng.pick(COMPONENTS).to_string()),
                1 => {
                    comps.pop();
                }
                _ => {
                    if let Some(l) = comps.last_mut() {
                        *l = rng.pick(COMPONENTS).to_string()
                    }
                }
            }
            join(&comps.iter().map(|c| c.as_str()).collect::<Vec<_>>())
        } else {
            rng.pick(&strings).clone()
        };
        pairs.push((a, b));
    }
    let reqs: Vec<String> = pairs.iter().map(|(a, b)| format!("cmp {} {}", s(a.as_bytes()), s(b.as_bytes()))).collect();
    let ans = run_model_1(&reqs);
    for ((a, b), m) in pairs.iter().zip(ans.iter()) {
        let (pa, pb) = (raw_apath(a), raw_apath(b));
        let i = pa.cmp(&pb);
        report.case(&format!("cmp {a:?} {b:?}"), a != b);
        report.hit(&format!("cmp:{}", ord_str(i)));
        let case = || json!({"op":"cmp","a":a,"b":b});
        if ord_str(i) != m {
            report.disagree("cmp", case(), json!(ord_str(i)), json!(m));
        }
        if i != doc_cmp(a, b) {
            report.oracle_fail("cmp-doc", case(), "order differs from the documented rule", json!(ord_str(i)));
        }
        if (i == Ordering::Equal) != (a == b) {
            report.oracle_fail("cmp-eq", case(), "compare-equal is not string equality", json!(ord_str(i)));
        }
        if pb.cmp(&pa) != i.reverse() {
            report.oracle_fail("cmp-antisym", case(), "cmp(b,a) is not the reverse of cmp(a,b)", json!(ord_str(i)));
        }
    }
    report.sample(json!({"op":"cmp","a":pairs[pairs.len()/2].0,"b":pairs[pairs.len()/2].1,"answer":ans[pairs.len()/2]}));
    report.sample(json!({"op":"cmp","a":pairs[pairs.len()-1].0,"b":pairs[pairs.len()-1].1,"answer":ans[pairs.len()-1]}));

    // --- transitivity on sampled triples (implementation only; the theorem covers the model)
    let n_tri = if thorough { 2_000_000 } else { 200_000 };
    for _ in 0..n_tri {
        let a = raw_apath(rng.pick(&strings[..]).as_str());
        let b = raw_apath(rng.pick(&strings[..]).as_str());
        let c = raw_apath(rng.pick(&strings[..]).as_str());
        report.evaluations += 1;
        if a < b && b < c && !(a < c) {
            report.oracle_fail("cmp-trans", json!({"op":"trans","a":&*a,"b":&*b,"c":&*c}), "a<b, b<c but not a<c", json!(null));
        }
    }
    report.hit_n("triples", n_tri as u64);

    // --- children before grandchildren, strict descendants contiguous (valid paths)
    let valid = enumerate(VALID_COMPONENTS, if thorough { 3 } else { 2 });
    let mut sorted: Vec<Apath> = valid.iter().map(|p| Apath::from(p.as_str())).collect();
    sorted.sort();
    for d in valid.iter().filter(|p| components(p).len() <= 1) {
        let dcomps = components(d);
        // positions of strict descendants of d must be contiguous
        let idx: Vec<usize> = sorted
            .iter()
            .enumerate()
            .filter(|(_, p)| {
                let pc = components(p);
                pc.len() > dcomps.len() && pc[..dcomps.len()] == dcomps[..]
            })
            .map(|(i, _)| i)
            .collect();
        report.evaluations += 1;
        if let (Some(first), Some(last)) = (idx.first(), idx.last()) {
            if last - first + 1 != idx.len() {
                report.oracle_fail("subtree-contiguous", json!({"op":"contiguous","dir":d}), "strict descendants are not contiguous in sorted order", json!(null));
            }
            // direct children come before deeper descendants
            let mut seen_deeper = false;
            for i in idx {
                let depth = components(&sorted[i]).len() - dcomps.len();
                if depth > 1 {
                    seen_deeper = true;
                } else if seen_deeper {
                    report.oracle_fail("children-first", json!({"op":"children-first","dir":d,"path":&*sorted[i]}), "a direct child sorts after a grandchild", json!(null));
                }
            }
        }
    }
}
