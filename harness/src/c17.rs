//! C17: the archive is a pure function of the source states and the operation history.
//!
//! Every generated history (as C02: tree replacements, backups with varying options,
//! interrupted + resumed backups, deletes, gc) is replayed into several FRESH archives under
//! different conditions, and the resulting archive directories are compared byte for byte
//! (after every step, so the first step at which they part is named):
//!
//!  * `plain`      – no interference, current-thread runtime, source created in the usual order;
//!  * `shuffle-a`  – the transport interceptor permutes EVERY `list_dir` result the program sees
//!                   (archive root, band directories, index directories, `d/`, `d/xxx`);
//!  * `reorder-mtN` – the source tree is created with siblings in REVERSE order on a tmpfs
//!                   (`/dev/shm`; tmpfs lists newest-first, so the kernel's `read_dir` order really
//!                   differs from the plain replay, which lives on the ext4 temp directory whose
//!                   order is hash order), and every operation runs on a MULTI-THREAD tokio
//!                   runtime with N in {1, 4, 16} workers.  `conserve::backup` is `!Send`, so it is
//!                   driven by `Runtime::block_on` on the calling thread; the tasks it spawns (the
//!                   block-directory listing JoinSet, the gc lock's Drop) and all `tokio::fs`
//!                   work run on the worker / blocking threads;
//!  * `shuffle-b+` – another shuffle seed, siblings created in a seeded random order (tmpfs),
//!                   and a multi-thread runtime with another worker count.
//!
//! Interrupted backups are kept: the crash point is "before mutating micro-step k" of the
//! fault-free run, k being derived from the length of a dry run on a scratch copy exactly as
//! hist.rs does; a backup's mutating operations are issued sequentially, so k means the same
//! under every condition (and the harness checks that the dry-run lengths agree).
//!
//! Separately (`gc_lock_probe`): the one place where the program leaves archive state to a
//! detached task — `GarbageCollectionLock::drop` after a delete that failed while holding the
//! lock — is run the way the command line runs it (runtime dropped when the operation returns)
//! under several runtimes, and what stays in the archive is tallied.
//!
//! Only `start_time` / `end_time` in `bNNNN/BANDHEAD` / `bNNNN/BANDTAIL` are masked.  Besides
//! the archives, the per-step results (result text with all stats, error and change events in
//! order, mutating-step count) are compared between replays, and EVERY replay is compared
//! with the Lean model (trace, result, events, store after every step).
use crate::absarch::abstract_archive;
use crate::compare::*;
use crate::hist::*;
use crate::icept::IceptConfig;
use crate::real::*;
use crate::report::Report;
use crate::rng::Rng;
use crate::treespec::*;
use serde_json::{Value, json};
use std::collections::BTreeMap;
use std::fs;
use std::path::{Path, PathBuf};

// ---------------------------------------------------------------------------------------------
// byte-for-byte archive snapshots and their comparison

/// Every path below the archive root: `None` = directory, `Some(bytes)` = file.
pub type ArchSnap = BTreeMap<String, Option<Vec<u8>>>;

pub fn snapshot(root: &Path) -> ArchSnap {
    fn rec(root: &Path, rel: &str, out: &mut ArchSnap) {
        let dir = if rel.is_empty() { root.to_path_buf() } else { root.join(rel) };
        for e in fs::read_dir(&dir).expect("read_dir archive") {
            let e = e.unwrap();
            let name = e.file_name().to_string_lossy().to_string();
            let r = if rel.is_empty() { name } else { format!("{rel}/{name}") };
            if e.file_type().unwrap().is_dir() {
                out.insert(r.clone(), None);
                rec(root, &r, out);
            } else {
                out.insert(r.clone(), Some(fs::read(root.join(&r)).expect("read archive file")));
            }
        }
    }
    let mut out = ArchSnap::new();
    rec(root, "", &mut out);
    out
}

fn is_band_dir_name(s: &str) -> bool {
    s.len() >= 5 && s.starts_with('b') && s[1..].bytes().all(|b| b.is_ascii_digit())
}

/// Is this one of the two files whose timestamps are exempt?
fn is_head_or_tail(path: &str) -> bool {
    match path.split_once('/') {
        Some((d, f)) => is_band_dir_name(d) && (f == "BANDHEAD" || f == "BANDTAIL"),
        None => false,
    }
}

fn find_sub(h: &[u8], n: &[u8]) -> Option<usize> {
    if n.is_empty() || h.len() < n.len() {
        return None;
    }
    (0..=h.len() - n.len()).find(|i| &h[*i..*i + n.len()] == n)
}

/// The bytes that have to agree.  For band heads and tails that parse as a JSON object the
/// values of `start_time` / `end_time` are blanked *in the text* (so key order, spacing and every
/// other field still count); if the value cannot be located textually, the parsed object without
/// those keys is used instead.  Everything else, and heads/tails that do not parse (an empty
/// leftover of an interrupted write), is compared raw.
pub fn masked(path: &str, bytes: &[u8]) -> Vec<u8> {
    if !is_head_or_tail(path) {
        return bytes.to_vec();
    }
    let Ok(Value::Object(mut obj)) = serde_json::from_slice::<Value>(bytes) else {
        return bytes.to_vec();
    };
    let mut text = bytes.to_vec();
    let mut textual = true;
    for key in ["start_time", "end_time"] {
        if let Some(v) = obj.remove(key) {
            let needle = format!("\"{key}\":{v}");
            match find_sub(&text, needle.as_bytes()) {
                Some(pos) => {
                    let repl = format!("\"{key}\":#");
                    text.splice(pos..pos + needle.len(), repl.into_bytes());
                }
                None => textual = false,
            }
        }
    }
    if textual {
        text
    } else {
        let mut keys: Vec<(&String, &Value)> = obj.iter().collect();
        keys.sort_by(|a, b| a.0.cmp(b.0));
        let mut out = b"json-without-times:".to_vec();
        out.extend(serde_json::to_vec(&keys).unwrap());
        out
    }
}

fn excerpt(b: &[u8], at: usize) -> String {
    let lo = at.saturating_sub(8);
    let hi = (at + 24).min(b.len());
    hex::encode(&b[lo..hi])
}

/// First path (in path order, directories and files together) at which two archives differ.
pub fn first_difference(a: &ArchSnap, b: &ArchSnap) -> Option<Value> {
    let mut paths: Vec<&String> = a.keys().chain(b.keys()).collect();
    paths.sort();
    paths.dedup();
    let kind = |x: &Option<Vec<u8>>| if x.is_some() { "file" } else { "dir" };
    for p in paths {
        match (a.get(p), b.get(p)) {
            (Some(x), None) => return Some(json!({"path": p, "difference": "only-in-first", "kind": kind(x)})),
            (None, Some(y)) => return Some(json!({"path": p, "difference": "only-in-second", "kind": kind(y)})),
            (Some(x), Some(y)) => match (x, y) {
                (None, None) => {}
                (Some(xb), Some(yb)) => {
                    let (xm, ym) = (masked(p, xb), masked(p, yb));
                    if xm != ym {
                        let at = xm.iter().zip(ym.iter()).position(|(u, v)| u != v).unwrap_or(xm.len().min(ym.len()));
                        return Some(json!({"path": p, "difference": "bytes-differ", "masked_times": is_head_or_tail(p), "first_len": xb.len(), "second_len": yb.len(), "first_differing_offset": at, "first_hex_around": excerpt(&xm, at), "second_hex_around": excerpt(&ym, at)}));
                    }
                }
                _ => return Some(json!({"path": p, "difference": "file-vs-directory", "first": kind(x), "second": kind(y)})),
            },
            (None, None) => unreachable!(),
        }
    }
    None
}

// ---------------------------------------------------------------------------------------------
// replay conditions

#[derive(Clone, Debug)]
struct Cond {
    name: String,
    /// permute every listing (seed; varied per operation)
    shuffle: Option<u64>,
    order: MatOrder,
    /// source tree on the tmpfs directory (if there is one)
    tmpfs: bool,
    workers: Option<usize>,
    /// move the clocks forward by an hour before every k-th storage operation (LD_PRELOAD shim)
    clock_jump: Option<usize>,
}

fn tmpfs_base() -> Option<PathBuf> {
    let p = PathBuf::from(std::env::var("C17_TMPFS").unwrap_or_else(|_| "/dev/shm".to_string()));
    if p.is_dir() && tempfile::tempdir_in(&p).is_ok() { Some(p) } else { None }
}

/// Names of every directory of a tree in the order the kernel lists them (directories visited
/// in sorted order).
fn readdir_orders(root: &Path) -> Vec<(String, Vec<String>)> {
    fn rec(root: &Path, rel: &Path, out: &mut Vec<(String, Vec<String>)>) {
        let mut names: Vec<String> = vec![];
        let mut subdirs: Vec<String> = vec![];
        for e in fs::read_dir(root.join(rel)).expect("read_dir source") {
            let e = e.unwrap();
            let n = e.file_name().to_string_lossy().to_string();
            if e.file_type().unwrap().is_dir() {
                subdirs.push(n.clone());
            }
            names.push(n);
        }
        out.push((rel.to_string_lossy().to_string(), names));
        subdirs.sort();
        for s in subdirs {
            rec(root, &rel.join(s), out);
        }
    }
    let mut out = vec![];
    rec(root, Path::new(""), &mut out);
    out
}

struct Replay {
    cond: Cond,
    run: HistRun,
    /// archive bytes after every step
    snaps: Vec<ArchSnap>,
    /// kernel listing order of the source after every SetTree
    src_orders: Vec<Vec<(String, Vec<String>)>>,
    /// per step: listings the program received
    listings: Vec<Vec<(String, Vec<String>)>>,
    /// per step: (dry-run length, crash point) of interrupted backups
    crash_points: Vec<Option<(usize, usize)>>,
    _src_holder: Option<tempfile::TempDir>,
}

fn icfg(cond: &Cond, op_index: usize, crash_at: Option<usize>) -> IceptConfig {
    IceptConfig { shuffle: cond.shuffle.map(|s| s.wrapping_mul(0x9E37_79B9).wrapping_add(op_index as u64)), crash_at, clock_jump_every: cond.clock_jump, ..Default::default() }
}

/// hist.rs::run_history with the interceptor configuration, the creation order of the source
/// and the runtime as parameters (no restores).
fn replay(steps: &[Step], cond: &Cond, tmpfs: &Option<PathBuf>, report: &mut Report, case_id: &Value) -> Replay {
    let work = tempfile::tempdir().expect("tempdir");
    let src_holder = if cond.tmpfs { tmpfs.as_ref().map(|b| tempfile::tempdir_in(b).expect("tmpfs tempdir")) } else { None };
    let src = match &src_holder {
        Some(d) => d.path().join("src"),
        None => work.path().join("src"),
    };
    let arch = work.path().join("arch");
    with_runtime_workers(cond.workers, || {
        fs::create_dir_all(&src).unwrap();
        create_archive(&arch);
        let mut run = HistRun { work, src: src.clone(), arch: arch.clone(), records: vec![], snapshots: BTreeMap::new(), session: Session::new(), restore_expect: vec![] };
        let (state0, _) = abstract_archive(&arch);
        run.session.load_store(&state0);
        let mut rp = Replay { cond: cond.clone(), run, snaps: vec![], src_orders: vec![], listings: vec![], crash_points: vec![], _src_holder: None };
        let mut obs: Vec<Obs> = vec![];
        let mut state = state0;
        let mut op_index = 0usize;
        for (si, step) in steps.iter().enumerate() {
            let case = json!({"history": case_id, "replay": cond.name, "step_index": si, "step": step_json(step)});
            let mut rec = StepRecord { step: step_json(step), real: None, i_req: None, state_before: state.clone(), state_after: vec![], i_dump: 0, raw_before: BTreeMap::new(), raw_after: BTreeMap::new(), crashed: false, kind: "set-tree", src_obs: vec![], snapshots_after: BTreeMap::new() };
            let mut crash_point = None;
            let _ = take_last_listings();
            match step {
                Step::SetTree(t) => {
                    if src.exists() {
                        fs::remove_dir_all(&src).unwrap();
                    }
                    t.materialize_ordered(&src, &cond.order);
                    obs = observe(&src);
                    rp.src_orders.push(readdir_orders(&src));
                    rp.run.session.load_src(&src_lines(&obs));
                }
                Step::Backup(p) => {
                    rec.kind = "backup";
                    let params = p.params();
                    rec.i_req = Some(rp.run.session.push(format!("backup {} -", params.model_args())));
                    op_index += 1;
                    rec.real = Some(real_backup(&arch, &src, &params, icfg(cond, op_index, None)));
                }
                Step::BackupCrash(p, num, den) => {
                    rec.kind = "backup-crash";
                    let params = p.params();
                    let scratch = rp.run.work.path().join("scratch-arch");
                    if scratch.exists() {
                        fs::remove_dir_all(&scratch).unwrap();
                    }
                    copy_dir(&arch, &scratch);
                    op_index += 1;
                    let dry = real_backup(&scratch, &src, &params, icfg(cond, op_index, None));
                    let _ = fs::remove_dir_all(&scratch);
                    let n = dry.steps.max(1);
                    let k = ((*num as usize) * n / (*den as usize)).min(n - 1);
                    crash_point = Some((dry.steps, k));
                    rec.i_req = Some(rp.run.session.push(format!("backup {} {}", params.model_args(), k)));
                    op_index += 1;
                    rec.real = Some(real_backup(&arch, &src, &params, icfg(cond, op_index, Some(k))));
                    rec.crashed = true;
                }
                Step::Delete(bands, dry) => {
                    rec.kind = "delete";
                    let names: Vec<String> = bands.iter().map(|b| band_name(*b)).collect();
                    rec.i_req = Some(rp.run.session.push(format!("delete {} 0 {} - {} {}", if *dry { 1 } else { 0 }, crate::c05::MODEL_STRICT, names.len(), names.join(" ")).trim_end().to_string()));
                    op_index += 1;
                    rec.real = Some(real_delete(&arch, bands, *dry, false, icfg(cond, op_index, None)));
                }
                Step::LegacyTail => {
                    rec.kind = "legacy-tail";
                    if let Some(b) = legacy_tail(&arch) {
                        rp.run.session.push(format!("put {}/BANDTAIL tail:-", band_name(b)));
                    }
                }
                Step::Gc => {
                    rec.kind = "gc";
                    rec.i_req = Some(rp.run.session.push(format!("delete 0 0 {} - 0", crate::c05::MODEL_STRICT)));
                    op_index += 1;
                    rec.real = Some(real_delete(&arch, &[], false, false, icfg(cond, op_index, None)));
                }
            }
            rp.listings.push(take_last_listings());
            rp.crash_points.push(crash_point);
            let (st, notes) = abstract_archive(&arch);
            for n in notes {
                report.oracle_fail("determinism:unexpected-file", case.clone(), "something outside the documented layout appeared in the archive", json!(n));
            }
            state = st.clone();
            rec.state_after = st;
            rec.i_dump = rp.run.session.push("dump".into());
            rec.src_obs = obs.clone();
            rp.snaps.push(snapshot(&arch));
            rp.run.records.push(rec);
        }
        rp._src_holder = src_holder;
        rp
    })
}

// ---------------------------------------------------------------------------------------------
// the comparator tests itself before it is trusted

fn selftest(report: &mut Report) -> bool {
    let work = tempfile::tempdir().unwrap();
    let src = work.path().join("src");
    let a = work.path().join("a");
    let b = work.path().join("b");
    let mut rng = Rng::new(17);
    let go = GenOpts { max_nodes: 10, block: 16, cap: 8, ..Default::default() };
    let mut tree = gen_tree(&mut rng, &go);
    tree.nodes.insert("/selftest".into(), Node { comps: vec!["selftest".into()], kind: NodeKind::File(b"a file that is certainly stored in a block of its own".to_vec()), mode: 0o644, mtime_ns: 1_600_000_000_000_000_000, uid: 0, gid: 0 });
    tree.materialize(&src);
    create_archive(&a);
    let r = real_backup(&a, &src, &BackupParams { max_entries_per_hunk: 3, max_block_size: 16, small_file_cap: 8, owner: true, exclude: vec![] }, IceptConfig::default());
    let case = json!({"selftest": "comparator"});
    let mut ok = r.result.starts_with("result ok");
    let fail = |report: &mut Report, what: &str, observed: Value| {
        report.oracle_fail("selftest:comparator-broken", case.clone(), what, observed);
    };
    if !ok {
        fail(report, "the self-test backup failed", json!(trunc(&r.result)));
        return false;
    }
    copy_dir(&a, &b);
    let sa = snapshot(&a);
    if let Some(d) = first_difference(&sa, &snapshot(&b)) {
        fail(report, "a copy of an archive does not compare equal", d);
        ok = false;
    } else {
        report.hit("selftest:copy-compares-equal");
    }
    // 1. one flipped byte in a block file
    let block = sa.iter().find(|(p, v)| p.starts_with("d/") && v.as_ref().map(|b| !b.is_empty()).unwrap_or(false)).map(|(p, _)| p.clone());
    match &block {
        Some(p) => {
            let mut bytes = fs::read(b.join(p)).unwrap();
            let i = bytes.len() / 2;
            bytes[i] ^= 0x01;
            fs::write(b.join(p), &bytes).unwrap();
            match first_difference(&sa, &snapshot(&b)) {
                Some(d) if d["path"] == json!(p) => report.hit("selftest:comparator-detects-difference"),
                other => {
                    fail(report, "one flipped byte in a block file was not reported (or at the wrong path)", json!({"flipped": p, "reported": other}));
                    ok = false;
                }
            }
            bytes[i] ^= 0x01;
            fs::write(b.join(p), &bytes).unwrap();
        }
        None => {
            fail(report, "self-test archive has no block file", json!(null));
            ok = false;
        }
    }
    // 2. head/tail differing only in the timestamps compare equal, in anything else they differ
    for (file, key) in [("b0000/BANDHEAD", "start_time"), ("b0000/BANDTAIL", "end_time")] {
        let orig = fs::read(b.join(file)).unwrap();
        let mut v: Value = serde_json::from_slice(&orig).expect("head/tail json");
        let t = v[key].as_i64().expect("timestamp present");
        v[key] = json!(t + 12345);
        let changed = String::from_utf8(orig.clone()).unwrap().replace(&format!("\"{key}\":{t}"), &format!("\"{key}\":{}", t + 12345));
        if changed.as_bytes() == &orig[..] {
            fail(report, "could not rewrite the timestamp textually", json!(String::from_utf8_lossy(&orig)));
            ok = false;
        }
        fs::write(b.join(file), changed.as_bytes()).unwrap();
        match first_difference(&sa, &snapshot(&b)) {
            None => report.hit(&format!("selftest:{key}-only-difference-compares-equal")),
            Some(d) => {
                fail(report, "a head/tail differing only in its timestamp was reported as different", d);
                ok = false;
            }
        }
        // same timestamp change, and an extra key
        v["extra"] = json!(1);
        fs::write(b.join(file), serde_json::to_vec(&v).unwrap()).unwrap();
        match first_difference(&sa, &snapshot(&b)) {
            Some(d) if d["path"] == json!(file) => report.hit("selftest:head-tail-other-field-detected"),
            other => {
                fail(report, "a head/tail with an extra field was not reported", json!({"file": file, "reported": other}));
                ok = false;
            }
        }
        fs::write(b.join(file), &orig).unwrap();
    }
    // a timestamp in any OTHER file is not exempt
    fs::write(a.join("x-start"), b"{\"start_time\":1}").unwrap();
    fs::write(b.join("x-start"), b"{\"start_time\":2}").unwrap();
    match first_difference(&snapshot(&a), &snapshot(&b)) {
        Some(d) if d["path"] == json!("x-start") => report.hit("selftest:times-elsewhere-not-masked"),
        other => {
            fail(report, "start_time in a file that is not a band head/tail was masked", json!(other));
            ok = false;
        }
    }
    fs::remove_file(a.join("x-start")).unwrap();
    fs::remove_file(b.join("x-start")).unwrap();
    // 3. directories count: an extra empty directory, a missing file
    fs::create_dir(b.join("d").join("zzz")).unwrap();
    match first_difference(&sa, &snapshot(&b)) {
        Some(d) if d["path"] == json!("d/zzz") && d["difference"] == json!("only-in-second") => report.hit("selftest:extra-empty-directory-detected"),
        other => {
            fail(report, "an extra empty directory was not reported", json!(other));
            ok = false;
        }
    }
    fs::remove_dir(b.join("d").join("zzz")).unwrap();
    if let Some(p) = &block {
        fs::remove_file(b.join(p)).unwrap();
        match first_difference(&sa, &snapshot(&b)) {
            Some(d) if d["path"] == json!(p) && d["difference"] == json!("only-in-first") => report.hit("selftest:missing-file-detected"),
            other => {
                fail(report, "a missing file was not reported", json!(other));
                ok = false;
            }
        }
    }
    ok
}

// ---------------------------------------------------------------------------------------------
// the one place where the program leaves archive state to a detached task

/// `delete_bands` the way the command line runs it (`#[tokio::main] async fn run` in
/// src/bin/conserve.rs): build a runtime, block on the operation, and DROP THE RUNTIME AS SOON AS
/// THE OPERATION RETURNS.  (The harness's `block_on_catch` keeps the runtime alive until spawned
/// tasks have finished, which hides what this probe is about.)
fn delete_like_cli(arch: &Path, bands: &[u32], workers: Option<usize>, linger_us: u64) -> String {
    delete_like_cli_faulted(arch, bands, workers, linger_us, vec![])
}

fn delete_like_cli_faulted(arch: &Path, bands: &[u32], workers: Option<usize>, linger_us: u64, faults: Vec<crate::icept::FaultSpec>) -> String {
    use conserve::monitor::test::TestMonitor;
    use conserve::transport::Transport;
    use conserve::{Archive, BandId, DeleteOptions};
    let rt = match workers {
        None => tokio::runtime::Builder::new_current_thread().enable_all().build().unwrap(),
        Some(n) => tokio::runtime::Builder::new_multi_thread().worker_threads(n).enable_all().build().unwrap(),
    };
    let ids: Vec<BandId> = bands.iter().map(|b| BandId::from(*b)).collect();
    let r = rt.block_on(async {
        let transport = if faults.is_empty() { Transport::local(arch) } else { transport_for(arch, &crate::icept::Icept::new(IceptConfig { faults: faults.clone(), ..Default::default() })) };
        let archive = Archive::open(transport).await?;
        archive.delete_bands(&ids, &DeleteOptions { dry_run: false, break_lock: false }, TestMonitor::arc()).await
    });
    // `linger_us` > 0 stands in for scheduling jitter between the operation returning and the
    // runtime shutting down (the calling thread does nothing in between)
    if linger_us > 0 {
        std::thread::sleep(std::time::Duration::from_micros(linger_us));
    }
    drop(rt);
    match r {
        Ok(stats) => format!("result ok {}", delete_stats_text(&stats)),
        Err(e) => format!("result err {}", err_text(&e)),
    }
}

/// A delete that FAILS after it took the gc lock (here: one of the named versions does not exist)
/// releases the lock from `Drop` by spawning a detached task (src/gc_lock.rs).  Whether that task
/// gets to remove `GC_LOCK` before the runtime goes away is up to the scheduler.  The probe runs
/// the same two-step history (backup; delete of a missing version) many times into copies of one
/// archive under several runtimes and tallies what is left behind, and what the next backup says.
fn gc_lock_probe(thorough: bool, report: &mut Report) {
    let work = tempfile::tempdir().unwrap();
    let src = work.path().join("src");
    let base = work.path().join("base");
    let mut tree = Tree::default();
    tree.nodes.insert("/".into(), Node { comps: vec![], kind: NodeKind::Dir, mode: 0o755, mtime_ns: 1_600_000_000_000_000_000, uid: 0, gid: 0 });
    tree.nodes.insert("/f".into(), Node { comps: vec!["f".into()], kind: NodeKind::File(b"hello".to_vec()), mode: 0o644, mtime_ns: 1_600_000_000_000_000_000, uid: 0, gid: 0 });
    tree.materialize(&src);
    create_archive(&base);
    let params = BackupParams::default();
    let r0 = real_backup(&base, &src, &params, IceptConfig::default());
    let case = json!({"source": {"/": "dir", "/f": "file 'hello'"}, "history": ["backup (default options) -> b0000", "delete b0001   (b0001 does not exist: fails after taking the gc lock)", "backup"], "runtime": "as the CLI: built, block_on(operation), dropped when the operation returns"});
    if !r0.result.starts_with("result ok") {
        report.oracle_fail("selftest:probe-backup-failed", case, "the probe's first backup failed", json!(trunc(&r0.result)));
        return;
    }
    let reps = if thorough { 40 } else { 8 };
    let mut tally: BTreeMap<String, BTreeMap<String, u64>> = BTreeMap::new();
    let mut outcomes: std::collections::BTreeSet<String> = Default::default();
    for (label, workers, linger_us) in [("current-thread", None, 0u64), ("multi-thread-1", Some(1usize), 0), ("multi-thread-4", Some(4), 0), ("multi-thread-16", Some(16), 0), ("multi-thread-4+50us-before-shutdown", Some(4), 50), ("multi-thread-4+500us-before-shutdown", Some(4), 500), ("multi-thread-4+5ms-before-shutdown", Some(4), 5000)] {
        for i in 0..reps {
            let arch = work.path().join(format!("probe-{label}-{i}"));
            copy_dir(&base, &arch);
            let del = delete_like_cli(&arch, &[1], workers, linger_us);
            let left = arch.join("GC_LOCK").exists();
            let next = real_backup(&arch, &src, &params, IceptConfig::default());
            let next_short: String = next.result.split(' ').take(3).collect::<Vec<_>>().join(" ");
            let outcome = format!("delete: {} | GC_LOCK {} | next backup: {}", del.split(' ').take(3).collect::<Vec<_>>().join(" "), if left { "left behind" } else { "removed" }, if next.result.starts_with("result ok") { "result ok".to_string() } else { next_short });
            *tally.entry(label.to_string()).or_default().entry(outcome.clone()).or_insert(0) += 1;
            outcomes.insert(outcome);
            report.hit(&format!("gc-lock-probe:{label}:{}", if left { "left-behind" } else { "removed" }));
            let _ = fs::remove_dir_all(&arch);
        }
    }
    // reference: the same with a runtime that outlives its tasks
    let arch = work.path().join("probe-drained");
    copy_dir(&base, &arch);
    let del = real_delete(&arch, &[1], false, false, IceptConfig::default());
    let drained_left = arch.join("GC_LOCK").exists();
    report.hit(&format!("gc-lock-probe:drained-runtime:{}", if drained_left { "left-behind" } else { "removed" }));
    report.case("gc-lock-probe", true);
    let observed = json!({"per_runtime": tally, "with_a_runtime_that_outlives_its_tasks": {"delete": trunc(&del.result), "GC_LOCK": if drained_left { "left behind" } else { "removed" }}});
    let any_left = outcomes.iter().any(|o| o.contains("left behind"));
    if outcomes.len() > 1 || any_left != drained_left {
        report.oracle_fail("determinism:gc-lock-after-failed-delete", case, "after a delete that fails once it holds the gc lock, whether GC_LOCK stays in the archive (and so whether the next backup is refused) depends on whether the detached cleanup task spawned by GarbageCollectionLock::drop runs before the runtime is dropped", observed);
    } else {
        report.sample(json!({"gc_lock_probe": observed}));
    }
}

/// Directed: an archive with MORE THAN A THOUSAND block sub-directories (1500 files with distinct contents, one
/// block each).  The same three-step history — backup, backup of the unchanged tree, delete of the first
/// version — replayed under a current-thread and a multi-thread runtime must give identical archives, and the
/// second backup must find every block again.  Real code + oracle (no model run).
fn many_block_dirs(report: &mut Report) {
    let work = tempfile::tempdir().unwrap();
    let src = work.path().join("src");
    fs::create_dir(&src).unwrap();
    for i in 0..1500u32 {
        fs::write(src.join(format!("f{i:04}")), format!("distinct content number {i}")).unwrap();
        filetime::set_file_mtime(src.join(format!("f{i:04}")), filetime::FileTime::from_unix_time(1_600_000_000, 0)).unwrap();
    }
    let p = BackupParams { max_entries_per_hunk: 100_000, max_block_size: 1 << 16, small_file_cap: 0, owner: true, exclude: vec![] };
    let mut snaps: Vec<ArchSnap> = vec![];
    let mut results: Vec<Vec<String>> = vec![];
    let mut subdirs = 0usize;
    for (label, workers) in [("current-thread", None), ("multi-thread-4", Some(4usize))] {
        let arch = work.path().join(format!("arch-{label}"));
        let res: Vec<String> = with_runtime_workers(workers, || {
            create_archive(&arch);
            let a = real_backup(&arch, &src, &p, IceptConfig::default());
            let b = real_backup(&arch, &src, &p, IceptConfig::default());
            let d = real_delete(&arch, &[0], false, false, IceptConfig::default());
            vec![a.result, b.result, d.result]
        });
        subdirs = fs::read_dir(arch.join("d")).map(|r| r.count()).unwrap_or(0);
        results.push(res.iter().map(|r| r.split(' ').take(2).chain(r.split(' ').filter(|t| t.starts_with("errors=") || t.starts_with("unmodified_files=") || t.starts_with("written_blocks=") || t.starts_with("deleted_block_count="))).collect::<Vec<_>>().join(" ")).collect());
        snaps.push(snapshot(&arch));
    }
    report.case("many-block-dirs", true);
    report.hit("directed:many-block-subdirectories(>1000)");
    report.hit_n("block-subdirectories", subdirs as u64);
    let case = json!({"directed": "many-block-dirs", "files": 1500, "block_subdirectories": subdirs, "history": ["backup", "backup (unchanged)", "delete b0000"]});
    if results[0] != results[1] {
        report.oracle_fail("determinism:results-differ", case.clone(), "the same three operations report different results under a current-thread and a multi-thread runtime", json!({"current-thread": results[0], "multi-thread-4": results[1]}));
    }
    if let Some(d) = first_difference(&snaps[0], &snaps[1]) {
        report.oracle_fail("determinism:archives-differ", case.clone(), "two replays of the same history produced different archives (more than a thousand block sub-directories)", d);
    }
    if !results[0][1].contains("unmodified_files=1500") || !results[0][1].contains("errors=0") {
        report.oracle_fail("determinism:unchanged-backup-not-clean", case, "the second backup of the unchanged tree did not find every file unchanged without errors", json!(results[0][1]));
    }
}

/// The same question for a gc that fails because ONE READ-CLASS OPERATION fails (a listing, a read, a stat):
/// for every such operation of the fault-free gc, under a current-thread and a multi-thread runtime dropped as
/// soon as the call returns — is `GC_LOCK` gone afterwards, and what does the next backup say?  The answers must
/// not depend on the runtime.
fn gc_fault_probe(thorough: bool, report: &mut Report) {
    let work = tempfile::tempdir().unwrap();
    let src = work.path().join("src");
    let base = work.path().join("base");
    let mut tree = Tree::default();
    tree.nodes.insert("/".into(), Node { comps: vec![], kind: NodeKind::Dir, mode: 0o755, mtime_ns: 1_600_000_000_000_000_000, uid: 0, gid: 0 });
    tree.nodes.insert("/f".into(), Node { comps: vec!["f".into()], kind: NodeKind::File(b"hello".to_vec()), mode: 0o644, mtime_ns: 1_600_000_000_000_000_000, uid: 0, gid: 0 });
    tree.materialize(&src);
    create_archive(&base);
    let params = BackupParams::default();
    if !real_backup(&base, &src, &params, IceptConfig::default()).result.starts_with("result ok") {
        return;
    }
    // fault-free gc trace (on a copy)
    let probe = work.path().join("ff");
    copy_dir(&base, &probe);
    let ff = real_delete(&probe, &[], false, false, IceptConfig::default());
    let _ = fs::remove_dir_all(&probe);
    let mut ops: Vec<(String, String, usize)> = vec![];
    for i in 0..ff.trace.len() {
        if let Some((verb, path, nth)) = crate::sweep::op_id_of(&ff.trace, i) {
            if verb == "read" || verb == "list" || verb == "stat" {
                ops.push((verb, path, nth));
            }
        }
    }
    let reps = if thorough { 6 } else { 2 };
    for (verb, path, nth) in ops {
        let mut outcomes: BTreeMap<String, Vec<String>> = BTreeMap::new();
        // the last variant leaves the runtime alive for 5 ms after the call returned (scheduling jitter):
        // enough for a detached clean-up task to run, if the code relies on one
        for (label, workers, linger_us) in [("current-thread", None, 0u64), ("multi-thread-4", Some(4usize), 0), ("multi-thread-4+5ms-before-shutdown", Some(4), 5000)] {
            for i in 0..reps {
                let arch = work.path().join(format!("fp-{label}-{i}"));
                copy_dir(&base, &arch);
                let f = crate::sweep::fault_spec(&verb, &path, nth, "ot");
                let del = delete_like_cli_faulted(&arch, &[], workers, linger_us, vec![f]);
                let left = arch.join("GC_LOCK").exists();
                let next = real_backup(&arch, &src, &params, IceptConfig::default());
                let outcome = format!("gc: {} | GC_LOCK {} | next backup: {}", del.split(' ').take(3).collect::<Vec<_>>().join(" "), if left { "left behind" } else { "removed" }, next.result.split(' ').take(3).collect::<Vec<_>>().join(" "));
                outcomes.entry(outcome).or_default().push(format!("{label}#{i}"));
                let _ = fs::remove_dir_all(&arch);
            }
        }
        if std::env::var("VERIF_DEBUG").is_ok() { eprintln!("PROBE {verb} {path} {nth}: {:?}", outcomes); }
        report.case(&format!("gc-fault-probe {verb} {path} {nth}"), true);
        report.hit("gc-fault-probe:op");
        if outcomes.len() > 1 {
            report.oracle_fail("determinism:gc-lock-after-faulted-gc", json!({"history": ["backup -> b0000", format!("gc with the {nth}-th `{verb} {path}` failing"), "backup"], "runtimes": "current-thread and multi-thread(4), dropped when the call returns"}), "after a gc in which one read-class operation fails, what is left in the archive (GC_LOCK) and what the next backup does depends on the runtime", json!(outcomes));
        }
    }
}

// ---------------------------------------------------------------------------------------------

fn cond_json(c: &Cond) -> Value {
    json!({"name": c.name, "shuffle_listings": c.shuffle, "source_creation_order": format!("{:?}", c.order), "source_on_tmpfs": c.tmpfs, "runtime_workers": c.workers, "clock_jump_every_n_ops": c.clock_jump})
}

fn same_multiset(a: &[String], b: &[String]) -> bool {
    let (mut x, mut y) = (a.to_vec(), b.to_vec());
    x.sort();
    y.sort();
    x == y
}

pub fn run(tier: &str, seed: u64, report: &mut Report) {
    let thorough = tier == "thorough";
    if !selftest(report) {
        report.notes.push("comparator self-test failed; results below are not to be trusted".into());
    }
    gc_lock_probe(thorough, report);
    gc_fault_probe(thorough, report);
    many_block_dirs(report);
    let tmpfs = tmpfs_base();
    match &tmpfs {
        Some(p) => report.notes.push(format!("re-ordered sources are created on {} (tmpfs lists newest first), the plain one in the default temp directory", p.display())),
        None => report.notes.push("no writable tmpfs directory (C17_TMPFS, default /dev/shm): re-ordered sources live on the same file system as the plain one; see the hit 'source-readdir-order-actually-differed' for whether the kernel order changed at all".into()),
    }
    let n_hist = if thorough { 150 } else { 20 };
    let max_steps = if thorough { 20 } else { 12 };
    for h in 0..n_hist {
        let case_seed = seed.wrapping_mul(1_000_003).wrapping_add(h as u64);
        let mut rng = Rng::new(case_seed);
        let go = GenOpts { max_nodes: 14, block: 16, cap: 8, ..Default::default() };
        let mut steps = gen_history(&mut rng, max_steps, &go, true, true);
        if h == 0 {
            // directed: a delete request that names several versions AND one that does not exist — it fails part
            // way; which versions are gone afterwards must be the same in every replay (twice, to compound)
            let mut clock = 1_700_000_000_000_000_000;
            let mut t = gen_tree(&mut rng, &go);
            steps = vec![];
            for _ in 0..4 {
                steps.push(Step::SetTree(t.clone()));
                steps.push(Step::Backup(gen_params(&mut rng)));
                t = mutate_tree(&mut rng, &t, &go, &mut clock);
            }
            steps.push(Step::Delete(vec![0, 1, 2, 7], false));
            steps.push(Step::SetTree(t.clone()));
            steps.push(Step::Backup(gen_params(&mut rng)));
            steps.push(Step::Backup(gen_params(&mut rng)));
            steps.push(Step::Delete(vec![4, 9, 3, 5], false));
            steps.push(Step::Backup(gen_params(&mut rng)));
            report.hit("directed:multi-version-delete-naming-a-missing-version");
        }
        let case_id = json!({"case_seed": case_seed, "steps": history_json(&steps)});
        let w = [1usize, 4, 16];
        let mut conds = vec![
            Cond { name: "plain".into(), shuffle: None, order: MatOrder::Normal, tmpfs: false, workers: None, clock_jump: None },
            Cond { name: "shuffle-a".into(), shuffle: Some(rng.next_u64() | 1), order: MatOrder::Normal, tmpfs: false, workers: None, clock_jump: None },
        ];
        let mt: Vec<usize> = if thorough { w.to_vec() } else { vec![w[h % 3]] };
        for n in mt {
            conds.push(Cond { name: format!("reorder-mt{n}"), shuffle: None, order: MatOrder::Reverse, tmpfs: true, workers: Some(n), clock_jump: None });
        }
        let n4 = w[(h + 1) % 3];
        conds.push(Cond { name: format!("shuffle-b+random-order+mt{n4}"), shuffle: Some(rng.next_u64() | 1), order: MatOrder::Shuffled(rng.next_u64()), tmpfs: true, workers: Some(n4), clock_jump: None });

        // elapsed / wall-clock time must not leak into what is written: one replay with the clocks jumping
        // ahead by an hour every few storage operations (only when started under the clock shim)
        if crate::clock::available() {
            conds.push(Cond { name: "clock-jumps".into(), shuffle: None, order: MatOrder::Normal, tmpfs: false, workers: None, clock_jump: Some(3 + h % 4) });
        } else if h == 0 {
            report.notes.push("clock shim not loaded (LD_PRELOAD harness/target/clockshim.so): the clock-jump replay is skipped".into());
            report.hit("clock-shim-missing");
        }
        let replays: Vec<Replay> = conds.iter().map(|c| replay(&steps, c, &tmpfs, report, &case_id)).collect();
        let base = &replays[0];
        for rp in &replays {
            report.hit(&format!("replay:{}", rp.cond.name.split("+").next().unwrap_or("")));
            if rp.cond.shuffle.is_some() {
                report.hit("shuffle");
            }
            if rp.cond.order != MatOrder::Normal {
                report.hit("reverse-materialise");
            }
            if let Some(n) = rp.cond.workers {
                report.hit(&format!("mt-runtime-{n}"));
            }
        }
        for rec in &base.run.records {
            report.hit(&format!("step:{}", rec.kind));
        }

        // ---- between replays
        for rp in &replays[1..] {
            let pair = json!({"first": cond_json(&base.cond), "second": cond_json(&rp.cond)});
            // the harness's own premise: both replays saw the same source states and issue the
            // same model requests (source lines come from an lstat walk of what was created)
            if rp.run.session.reqs != base.run.session.reqs {
                let d = first_diff(&base.run.session.reqs, &rp.run.session.reqs);
                // a differing crash point shows up here too; only a differing source is a harness fault
                let src_differs = base.run.session.reqs.iter().zip(rp.run.session.reqs.iter()).any(|(a, b)| a != b && a.starts_with("src "));
                if src_differs {
                    report.oracle_fail("selfcheck:source-trees-differ", json!({"history": case_id, "replays": pair}), "HARNESS: the re-created source tree is not identical (content or metadata) to the plain one", d);
                }
            }
            let mut archives_reported = false;
            let mut results_reported = false;
            for (si, (r0, r1)) in base.run.records.iter().zip(rp.run.records.iter()).enumerate() {
                let case = json!({"history": case_id, "replays": pair, "step_index": si, "step": r0.step});
                if !archives_reported {
                    if let Some(d) = first_difference(&base.snaps[si], &rp.snaps[si]) {
                        archives_reported = true;
                        report.oracle_fail("determinism:archives-differ", case.clone(), "two replays of the same history on the same source states produced archives that differ in more than head/tail timestamps (first differing path, after the first step at which they differ)", d);
                    }
                }
                if base.crash_points[si] != rp.crash_points[si] && !results_reported {
                    results_reported = true;
                    report.oracle_fail("determinism:results-differ", case.clone(), "the fault-free length of the same backup (number of mutating micro-steps) differs between replays", json!({"first (dry-run steps, crash point)": base.crash_points[si], "second": rp.crash_points[si]}));
                }
                if let (Some(a), Some(b)) = (&r0.real, &r1.real) {
                    let err_a: Vec<&String> = a.events.iter().filter(|l| l.starts_with("event error")).collect();
                    let err_b: Vec<&String> = b.events.iter().filter(|l| l.starts_with("event error")).collect();
                    let ch_a: Vec<&String> = a.events.iter().filter(|l| l.starts_with("event change")).collect();
                    let ch_b: Vec<&String> = b.events.iter().filter(|l| l.starts_with("event change")).collect();
                    let what = if a.result != b.result {
                        Some(("result/stats", json!({"first": trunc(&a.result), "second": trunc(&b.result)})))
                    } else if err_a != err_b {
                        Some(("error events", first_diff(&a.events, &b.events)))
                    } else if ch_a != ch_b {
                        Some(("change events", first_diff(&ch_a.iter().map(|s| s.to_string()).collect::<Vec<_>>(), &ch_b.iter().map(|s| s.to_string()).collect::<Vec<_>>())))
                    } else if a.steps != b.steps || a.dead != b.dead {
                        Some(("mutating-step count", json!({"first": [a.steps, a.dead as usize], "second": [b.steps, b.dead as usize]})))
                    } else {
                        None
                    };
                    if let (Some((which, d)), false) = (what, results_reported) {
                        results_reported = true;
                        report.oracle_fail("determinism:results-differ", case.clone(), &format!("the same step reported different {which} in two replays (impl = first, model = second in the diff)"), d);
                    }
                    // ---- did the condition bite?  (coverage only)
                    if a.trace != b.trace {
                        report.hit(if same_multiset(&a.trace, &b.trace) { "operation-order-differed" } else { "operation-multiset-differed" });
                    }
                }
                // listings: same path listed, same names, another order
                let mut l0: BTreeMap<&String, Vec<&Vec<String>>> = BTreeMap::new();
                for (p, names) in &base.listings[si] {
                    l0.entry(p).or_default().push(names);
                }
                let mut seen: BTreeMap<&String, usize> = BTreeMap::new();
                for (p, names) in &rp.listings[si] {
                    let i = seen.entry(p).or_insert(0);
                    if let Some(n0) = l0.get(p).and_then(|v| v.get(*i)) {
                        if *n0 != names && same_multiset(n0, names) {
                            report.hit("listing-order-actually-differed");
                            report.hit(&format!("listing-order-actually-differed:{}", match p.as_str() { "." => "root", "d" => "d", q if q.starts_with("d/") => "d/xxx", q if q.ends_with("/i") => "bNNNN/i", q if q.contains("/i/") => "bNNNN/i/NNNNN", _ => "bNNNN" }));
                        }
                    }
                    *i += 1;
                }
            }
            for (o0, o1) in base.src_orders.iter().zip(rp.src_orders.iter()) {
                let differs = o0.iter().zip(o1.iter()).any(|(a, b)| a.0 == b.0 && a.1 != b.1 && same_multiset(&a.1, &b.1));
                if differs {
                    report.hit("source-readdir-order-actually-differed");
                    report.hit(&format!("source-readdir-order-actually-differed:{}", rp.cond.name.split('+').next().unwrap_or("")));
                }
            }
            report.hit("replay-pairs-compared");
        }

        // ---- every replay against the model (one model run: the requests are the same)
        let answers = base.run.session.run();
        for rp in &replays {
            if rp.run.session.reqs != base.run.session.reqs {
                // already reported above (source or crash point); the answers belong to other requests
                report.hit("model-comparison-skipped:requests-differ");
                continue;
            }
            let sig: &'static str = if rp.cond.shuffle.is_some() && rp.cond.workers.is_some() { "det-shuffle-reorder-mt" } else if rp.cond.shuffle.is_some() { "det-shuffle" } else if rp.cond.workers.is_some() { "det-reorder-mt" } else { "det-plain" };
            let o = HistOpts { restore_each: false, raw: false, sig };
            let cid = json!({"case_seed": case_seed, "replay": cond_json(&rp.cond), "steps": history_json(&steps)});
            compare_history(&rp.run, &answers, 0, &o, report, &cid);
        }

        let backups = steps.iter().filter(|s| matches!(s, Step::Backup(_) | Step::BackupCrash(..))).count();
        let deletes = steps.iter().filter(|s| matches!(s, Step::Delete(..) | Step::Gc)).count();
        if steps.iter().any(|s| matches!(s, Step::Delete(..))) {
            report.hit("history-with-delete");
        }
        if steps.iter().any(|s| matches!(s, Step::Gc)) {
            report.hit("history-with-gc");
        }
        if steps.iter().any(|s| matches!(s, Step::BackupCrash(..))) {
            report.hit("history-with-interrupted-backup");
        }
        report.case(&serde_json::to_string(&case_id).unwrap(), backups > 1 || deletes > 0);
        report.hit_n("replays", replays.len() as u64);
        if h < 2 {
            report.sample(json!({"case_seed": case_seed, "replays": conds.iter().map(cond_json).collect::<Vec<_>>(), "final_archive_paths": base.snaps.last().map(|s| s.len()), "steps": steps.iter().map(|s| match s { Step::SetTree(t) => format!("set-tree({} nodes)", t.nodes.len()), other => step_json(other).to_string() }).collect::<Vec<_>>()}));
        }
    }
}
