//! Error plumbing on the READ side and around rare conditions (seeded round 9): directed, real code + the
//! property's own oracle.  Each function belongs to one property's check.
use crate::absarch::abstract_archive;
use crate::compare::trunc;
use crate::hist::{all_bands, copy_dir};
use crate::icept::{Icept, IceptConfig};
use crate::real::*;
use crate::report::Report;
use crate::sweep::*;
use crate::treespec::observe;
use serde_json::json;
use std::path::{Path, PathBuf};

fn small_source(dir: &Path, names: &[&str], tag: &str) {
    std::fs::create_dir_all(dir).unwrap();
    for (i, n) in names.iter().enumerate() {
        std::fs::write(dir.join(n), format!("{n}: content {tag} #{i}, long enough to be its own block")).unwrap();
        filetime::set_file_mtime(dir.join(n), filetime::FileTime::from_unix_time(1_650_000_000 + i as i64, 0)).unwrap();
    }
}

fn params(hunk: usize) -> BackupParams {
    BackupParams { max_entries_per_hunk: hunk, max_block_size: 1 << 20, small_file_cap: 8, owner: true, exclude: vec![] }
}

/// An interrupted backup of `src` into `arch` that leaves band `b` with exactly `hunks` index hunks and no tail.
fn interrupted_with_hunks(work: &Path, arch: &Path, src: &Path, p: &BackupParams, b: u32, hunks: usize) -> bool {
    let scratch = work.join("scratch-int");
    let _ = std::fs::remove_dir_all(&scratch);
    copy_dir(arch, &scratch);
    let dry = real_backup(&scratch, src, p, IceptConfig::default());
    for k in 0..dry.steps {
        let _ = std::fs::remove_dir_all(&scratch);
        copy_dir(arch, &scratch);
        let _ = real_backup(&scratch, src, p, IceptConfig { crash_at: Some(k), ..Default::default() });
        let (st, _) = abstract_archive(&scratch);
        let n = st.iter().filter(|l| l.contains(&format!(" {}/i/", band_name(b))) && l.contains(" hunk:")).count();
        let tail = st.iter().any(|l| l.contains(&format!(" {}/BANDTAIL ", band_name(b))));
        if n == hunks && !tail {
            let _ = std::fs::remove_dir_all(&scratch);
            let _ = real_backup(arch, src, p, IceptConfig { crash_at: Some(k), ..Default::default() });
            return true;
        }
    }
    let _ = std::fs::remove_dir_all(&scratch);
    false
}

fn listed_paths(r: &RunResult) -> Vec<String> {
    r.lines.iter().filter_map(|l| l.strip_prefix("entry ").and_then(|x| x.split(',').next()).and_then(|h| hex::decode(h).ok()).map(|b| String::from_utf8_lossy(&b).to_string())).collect()
}

/// C08: a gap in the version ids below an interrupted version holds a plain FILE named like a version (so the
/// look-up of its head fails with "not a directory", not with "not found"): the listing continues in the nearest
/// earlier version all the same.
pub fn c08_stray_file_in_gap(report: &mut Report) {
    let work = tempfile::tempdir().unwrap();
    let (src, arch) = (work.path().join("src"), work.path().join("arch"));
    let names = ["a", "b", "c", "d", "e"];
    small_source(&src, &names, "v0");
    create_archive(&arch);
    let p = params(2);
    let _ = real_backup(&arch, &src, &p, IceptConfig::default());
    std::fs::write(src.join("a"), b"a: changed for v1, again long enough").unwrap();
    let _ = real_backup(&arch, &src, &p, IceptConfig::default());
    std::fs::write(src.join("a"), b"a: changed for v2, and long enough too").unwrap();
    if !interrupted_with_hunks(work.path(), &arch, &src, &p, 2, 1) {
        report.hit("plumbing:c08:no-such-crash-point");
        return;
    }
    let v0 = listed_paths(&real_list(&arch, &Sel::Band(0), "/", &[], IceptConfig::default()));
    std::fs::remove_dir_all(arch.join("b0001")).unwrap();
    std::fs::write(arch.join("b0001"), b"not a version: a stray file").unwrap();
    let (st, _) = abstract_archive(&arch);
    let own: Vec<String> = band_entries(&state_map(&st), 2).into_iter().map(|x| x.1.apath).collect();
    let last = own.last().cloned().unwrap_or_default();
    let mut want = own.clone();
    want.extend(v0.iter().filter(|p| crate::c11::doc_cmp(p, &last) == std::cmp::Ordering::Greater).cloned());
    let l = real_list(&arch, &Sel::Band(2), "/", &[], IceptConfig::default());
    report.case("plumbing/c08/stray-file-in-gap", true);
    report.hit("directed:stray-file-named-like-a-version-in-a-gap");
    if listed_paths(&l) != want {
        report.oracle_fail("list:not-the-rule-stray-file-in-gap", json!({"directed": "b0000 complete, b0001 a plain file, b0002 interrupted after one hunk"}), "the listing of an interrupted version does not continue in the nearest earlier version when a plain file named like a version lies in between", json!({"listed": listed_paths(&l), "expected": want}));
    }
}

/// C02: "latest complete version" asked for while the stat of the newest version's tail fails (permission /
/// other): the restore may fail — it must not quietly hand back an OLDER version.
pub fn c02_latest_complete_under_stat_fault(report: &mut Report) {
    let work = tempfile::tempdir().unwrap();
    let (src, arch) = (work.path().join("src"), work.path().join("arch"));
    small_source(&src, &["a", "b", "gone-later"], "v0");
    create_archive(&arch);
    let p = params(1000);
    let _ = real_backup(&arch, &src, &p, IceptConfig::default());
    let snap0 = observe(&src);
    std::fs::remove_file(src.join("gone-later")).unwrap();
    std::fs::write(src.join("a"), b"a: the newest content, longer than before").unwrap();
    std::fs::write(src.join("added"), b"added in the newest version, long enough").unwrap();
    let _ = real_backup(&arch, &src, &p, IceptConfig::default());
    let snap1 = observe(&src);
    for kind in ["pd", "ot"] {
        for (verb, path) in [("stat", "b0001/BANDTAIL"), ("read", "b0001/BANDTAIL"), ("stat", "b0001/BANDHEAD")] {
            let dest = work.path().join(format!("dest-{kind}-{verb}-{}", path.replace('/', "_")));
            let rr = real_restore(&arch, &dest, &RestoreParams { sel: Sel::Closed, subtree: None, exclude: vec![], overwrite: false }, IceptConfig { faults: vec![fault_spec(verb, path, 0, kind)], ..Default::default() });
            let fired = rr.trace.iter().any(|l| l.contains(path) && !l.ends_with(" ok"));
            report.case(&format!("plumbing/c02/{kind}/{verb}/{path}"), fired);
            report.hit("directed:latest-complete-under-read-fault");
            let robs = if dest.exists() { observe(&dest) } else { vec![] };
            let silent = rr.result.starts_with("result ok") && rr.events.iter().all(|e| !e.starts_with("event error"));
            if silent && crate::c01::tree_diff(&snap1, &robs).is_some() {
                let is_older = crate::c01::tree_diff(&snap0, &robs).is_none();
                report.oracle_fail("hist:latest-complete-silently-older", json!({"directed": "two complete versions; restore of the latest complete one", "fault": format!("{verb} {path} fails ({kind})")}), "asked for the latest complete version while a look at the newest version failed, restore succeeded without any error but did not produce the newest version", json!({"restored_is_exactly_the_older_version": is_older, "result": trunc(&rr.result)}));
            }
        }
    }
}

fn restore_injecting(arch: &Path, dest: &Path, subtree: Option<&str>, fail_at: &str) -> (bool, usize) {
    use conserve::monitor::test::TestMonitor;
    let rt = tokio::runtime::Builder::new_current_thread().enable_all().build().unwrap();
    let monitor = TestMonitor::arc();
    let (a, d, m) = (arch.to_path_buf(), dest.to_path_buf(), monitor.clone());
    let sub = subtree.map(conserve::Apath::from);
    let fail = conserve::Apath::from(fail_at);
    let ok = rt.block_on(async move {
        let archive = conserve::Archive::open(conserve::transport::Transport::local(&a)).await?;
        let mut inject = std::collections::HashMap::new();
        inject.insert(fail, std::io::ErrorKind::Other);
        let options = conserve::RestoreOptions { only_subtree: sub, inject_failures: inject, ..Default::default() };
        conserve::restore(&archive, &d, options, m).await
    }).is_ok();
    (ok, monitor.take_errors().len())
}

/// C12: creating the selected directory S itself fails once during a restore of subtree S: everything below S
/// that a FULL restore with the same failure still restores (sub-directories recreate their parents) is restored
/// by the subtree restore too.
pub fn c12_subtree_restore_when_mkdir_fails(report: &mut Report) {
    let work = tempfile::tempdir().unwrap();
    let (src, arch) = (work.path().join("src"), work.path().join("arch"));
    for d in ["pré/données/ü", "pré.b", "préb", "other"] {
        std::fs::create_dir_all(src.join(d)).unwrap();
    }
    for f in ["pré/top.txt", "pré/données/d1", "pré/données/ü/deep", "pré.b/x", "préb/y", "other/z"] {
        std::fs::write(src.join(f), f).unwrap();
    }
    create_archive(&arch);
    let _ = real_backup(&arch, &src, &params(1000), IceptConfig::default());
    let (full, only) = (work.path().join("full"), work.path().join("only"));
    let (ok_f, err_f) = restore_injecting(&arch, &full, None, "/pré");
    let (ok_o, err_o) = restore_injecting(&arch, &only, Some("/pré"), "/pré");
    let under = |root: &Path| -> Vec<String> { if root.exists() { observe(root).into_iter().map(|o| o.apath).filter(|p| p == "/pré" || p.starts_with("/pré/")).collect() } else { vec![] } };
    report.case("plumbing/c12/mkdir-of-subtree-fails", true);
    report.hit("directed:subtree-restore-when-its-own-mkdir-fails");
    if under(&full) != under(&only) {
        report.oracle_fail("subtree-restore-differs-when-mkdir-fails", json!({"directed": "creating /pré fails once; full restore vs restore --only /pré"}), "with the same failure creating the selected directory, the subtree restore does not restore below it what the full restore restores there", json!({"full": under(&full), "subtree": under(&only), "returned_ok": [ok_f, ok_o], "errors_reported": [err_f, err_o]}));
    }
}

/// C18: diff of an interrupted version against the tree it was being made from, while reading an index hunk of
/// its PREDECESSOR fails: either an error is reported, or the diff is the fault-free one.
pub fn c18_diff_under_read_fault(report: &mut Report) {
    use conserve::monitor::test::TestMonitor;
    let work = tempfile::tempdir().unwrap();
    let (src, arch) = (work.path().join("src"), work.path().join("arch"));
    let names: Vec<String> = (0..12).map(|i| format!("f{i:02}")).collect();
    small_source(&src, &names.iter().map(|s| s.as_str()).collect::<Vec<_>>(), "v0");
    create_archive(&arch);
    let p = params(4);
    let _ = real_backup(&arch, &src, &p, IceptConfig::default());
    if !interrupted_with_hunks(work.path(), &arch, &src, &p, 1, 1) {
        report.hit("plumbing:c18:no-such-crash-point");
        return;
    }
    let diff_with = |faults: Vec<crate::icept::FaultSpec>| -> (Vec<String>, usize) {
        let rt = tokio::runtime::Builder::new_current_thread().enable_all().build().unwrap();
        let monitor = TestMonitor::arc();
        let ic = Icept::new(IceptConfig { faults, ..Default::default() });
        let (a, s, m) = (arch.clone(), src.clone(), monitor.clone());
        let lines: Vec<String> = rt.block_on(async move {
            let archive = conserve::Archive::open(transport_for(&a, &ic)).await.unwrap();
            let st = archive.open_stored_tree(conserve::BandSelectionPolicy::Latest).await.unwrap();
            let lt = conserve::SourceTree::open(&s).unwrap();
            let changes = conserve::diff(&st, &lt, conserve::DiffOptions::default(), m).await.unwrap().collect().await;
            changes.iter().map(|c| format!("{c}")).collect()
        });
        (lines, monitor.take_errors().len())
    };
    let (clean, e0) = diff_with(vec![]);
    let hunks: Vec<String> = state_map(&abstract_archive(&arch).0).keys().filter(|k| k.starts_with("b0000/i/") && k.matches('/').count() == 3).cloned().collect();
    for h in &hunks {
        for kind in ["pd", "ot"] {
            let (got, errs) = diff_with(vec![fault_spec("read", h, 0, kind)]);
            report.case(&format!("plumbing/c18/{h}/{kind}"), true);
            report.hit("directed:diff-of-interrupted-version-under-read-fault");
            if errs == 0 && got != clean {
                report.oracle_fail("diff-wrong-and-silent-under-read-fault", json!({"directed": "b0000 complete (12 files, 4 per hunk), b0001 interrupted after one hunk; diff of the latest version against the unchanged tree", "fault": format!("read {h} fails ({kind})")}), "a read of a predecessor's index hunk failed, the diff differs from the fault-free one, and no error was reported", json!({"diff": got, "fault_free_diff": clean, "fault_free_errors": e0}));
            }
        }
    }
}

/// C14: a backup whose basis walk passes over a gap in the version ids while one stat on the way fails with
/// something other than not-found (a diagnostic probe): what is stored again must not depend on it.
pub fn c14_basis_under_stat_fault(report: &mut Report) {
    let work = tempfile::tempdir().unwrap();
    let (src, arch) = (work.path().join("src"), work.path().join("arch"));
    small_source(&src, &["a", "b", "c", "d", "f", "g", "h", "i"], "v0");
    create_archive(&arch);
    let p = BackupParams { max_entries_per_hunk: 3, max_block_size: 64, small_file_cap: 1 << 10, owner: true, exclude: vec![] };
    let _ = real_backup(&arch, &src, &p, IceptConfig::default()); // b0
    std::fs::write(src.join("e"), b"e: added before the second version, long enough").unwrap();
    filetime::set_file_mtime(src.join("e"), filetime::FileTime::from_unix_time(1_650_000_100, 0)).unwrap();
    let _ = real_backup(&arch, &src, &p, IceptConfig::default()); // b1
    if !interrupted_with_hunks(work.path(), &arch, &src, &p, 2, 1) {
        report.hit("plumbing:c14:no-such-crash-point");
        return;
    }
    let _ = real_backup(&arch, &src, &p, IceptConfig::default()); // b3 complete
    let del = real_delete(&arch, &[1, 3], false, false, IceptConfig::default());
    if !del.result.starts_with("result ok") {
        report.hit("plumbing:c14:delete-refused");
        return;
    }
    let (a1, a2) = (work.path().join("copy1"), work.path().join("copy2"));
    copy_dir(&arch, &a1);
    copy_dir(&arch, &a2);
    let clean = real_backup(&a1, &src, &p, IceptConfig::default());
    report.hit("directed:basis-walk-over-a-gap-under-stat-fault");
    for kind in ["pd", "ot"] {
        for path in ["b0001/i/00000/000000000", "b0001/BANDHEAD"] {
            let a = work.path().join(format!("copy-{kind}-{}", path.replace('/', "_")));
            copy_dir(&arch, &a);
            let faulted = real_backup(&a, &src, &p, IceptConfig { faults: vec![fault_spec("stat", path, 0, kind)], ..Default::default() });
            report.case(&format!("plumbing/c14/{kind}/{path}"), true);
            let pick = |r: &RunResult, key: &str| r.result.split(' ').find_map(|t| t.strip_prefix(key)).map(|s| s.to_string());
            let same = ["unmodified_files=", "new_files=", "written_blocks=", "modified_files="].iter().all(|k| pick(&clean, k) == pick(&faulted, k));
            let reported = !faulted.result.starts_with("result ok") || !faulted.result.contains(" errors=0") || faulted.events.iter().any(|e| e.starts_with("event error"));
            if !same && !reported {
                report.oracle_fail("dedup:unchanged-file-not-reused-under-stat-fault", json!({"directed": "b0 complete, b1 complete, b2 interrupted, b3 complete, b1 and b3 deleted, then a backup of the unchanged tree", "fault": format!("stat {path} fails ({kind})")}), "one failing stat on the way through a gap in the version ids made the backup store unchanged files again, without reporting anything", json!({"fault_free": trunc(&clean.result), "with_fault": trunc(&faulted.result)}));
            }
        }
    }
    let _ = a2;
}

/// C17: a delete in which removing one block answers "not found" and the listing that may follow fails: what is
/// left must be the same in every replay.
pub fn c17_delete_two_faults(report: &mut Report) {
    let work = tempfile::tempdir().unwrap();
    let (src, arch) = (work.path().join("src"), work.path().join("arch"));
    let names: Vec<String> = (0..24).map(|i| format!("g{i:02}")).collect();
    small_source(&src, &names.iter().map(|s| s.as_str()).collect::<Vec<_>>(), "v0");
    create_archive(&arch);
    let p = BackupParams { max_entries_per_hunk: 1000, max_block_size: 1 << 20, small_file_cap: 0, owner: true, exclude: vec![] };
    let _ = real_backup(&arch, &src, &p, IceptConfig::default());
    small_source(&src, &names.iter().map(|s| s.as_str()).collect::<Vec<_>>(), "the second version, longer");
    let _ = real_backup(&arch, &src, &p, IceptConfig::default());
    // the blocks only b0000 needs, and how many times a fault-free delete lists the archive directory
    let probe = work.path().join("probe");
    copy_dir(&arch, &probe);
    let solo = real_delete(&probe, &[0], false, false, IceptConfig::default());
    let removed: Vec<String> = solo.trace.iter().filter(|l| l.starts_with("op rm d/")).filter_map(|l| l.split(' ').nth(2).map(|s| s.to_string())).collect();
    let n_list_root = solo.trace.iter().filter(|l| l.starts_with("op list . ")).count();
    let Some(victim) = removed.iter().min().cloned() else { return };
    report.hit("directed:delete-with-two-related-faults");
    let mut outcomes: Vec<(Vec<String>, String)> = Vec::new();
    for i in 0..5 {
        let a = work.path().join(format!("replay{i}"));
        copy_dir(&arch, &a);
        let faults = vec![fault_spec("rm", &victim, 0, "nf"), fault_spec("list", ".", n_list_root, "ot"), fault_spec("list", ".", n_list_root + 1, "ot")];
        let r = real_delete(&a, &[0], false, false, IceptConfig { faults, ..Default::default() });
        let (st, _) = abstract_archive(&a);
        outcomes.push((st, trunc(&r.result)));
        report.case(&format!("plumbing/c17/replay{i}"), true);
    }
    if let Some((i, o)) = outcomes.iter().enumerate().find(|(_, o)| o.0 != outcomes[0].0) {
        let a: std::collections::BTreeSet<&String> = outcomes[0].0.iter().collect();
        let b: std::collections::BTreeSet<&String> = o.0.iter().collect();
        report.oracle_fail("determinism:archives-differ-after-faulted-delete", json!({"directed": "delete b0000 (24 private blocks); removing one block answers not-found, the next extra listing of the archive directory fails", "replays": 5}), "replaying the same delete with the same two failures left different sets of files", json!({"replay": i, "files_first": a.len(), "files_this": b.len(), "only_in_first": a.difference(&b).take(3).collect::<Vec<_>>(), "results": [outcomes[0].1.clone(), o.1.clone()]}));
    }
}

#[allow(dead_code)]
pub fn unused(_: PathBuf) {}

/// C02 / C07: version ids beyond four digits.  `b10000` sorts BEFORE `b9999` as a string; ids are numbers.
/// One backup is made and its directory renamed to `b9998` — the layout of an archive whose first 9998 versions
/// were made and deleted long ago — then the history goes on across the boundary.
fn archive_near_10000(work: &Path) -> (PathBuf, PathBuf, Vec<(u32, Vec<crate::treespec::Obs>)>) {
    let (src, arch) = (work.join("src"), work.join("arch"));
    small_source(&src, &["a", "b"], "version 9998");
    create_archive(&arch);
    let p = params(1000);
    let _ = real_backup(&arch, &src, &p, IceptConfig::default());
    std::fs::rename(arch.join("b0000"), arch.join("b9998")).unwrap();
    let mut snaps = vec![(9998u32, observe(&src))];
    for id in [9999u32, 10000, 10001] {
        std::fs::write(src.join("a"), format!("a: this is the content of version {id}, each one longer {}", "x".repeat((id % 7) as usize))).unwrap();
        std::fs::write(src.join(format!("only-in-{id}")), format!("new in {id}")).unwrap();
        let _ = real_backup(&arch, &src, &p, IceptConfig::default());
        snaps.push((id, observe(&src)));
    }
    (src, arch, snaps)
}

pub fn c02_ids_beyond_9999(report: &mut Report) {
    let work = tempfile::tempdir().unwrap();
    let (_src, arch, snaps) = archive_near_10000(work.path());
    report.case("plumbing/c02/ids-beyond-9999", true);
    report.hit("directed:version-ids-beyond-9999");
    let case = json!({"directed": "versions b9998, b9999, b10000, b10001 (the first renamed from b0000)"});
    let (st, _) = abstract_archive(&arch);
    let mut ids = all_bands(&st);
    ids.sort();
    if ids != vec![9998, 9999, 10000, 10001] {
        report.oracle_fail("hist:wrong-version-ids-beyond-9999", case.clone(), "backups across the 9999/10000 boundary did not get consecutive ids above every existing one", json!(ids));
        return;
    }
    for (id, snap) in &snaps {
        let (rr, robs) = crate::hist::restore_observe(&arch, work.path(), &Sel::Band(*id), &format!("v{id}"));
        if !rr.result.starts_with("result ok") || !rr.events.is_empty() || crate::c01::tree_diff(snap, &robs).is_some() {
            report.oracle_fail("hist:restored-differs-beyond-9999", case.clone(), "a version near the 9999/10000 boundary does not restore as when it was made", json!({"band": band_name(*id), "result": trunc(&rr.result)}));
        }
    }
    let (rr, robs) = crate::hist::restore_observe(&arch, work.path(), &Sel::Closed, "latest");
    if !rr.result.starts_with("result ok") || crate::c01::tree_diff(&snaps.last().unwrap().1, &robs).is_some() {
        report.oracle_fail("hist:latest-not-newest-beyond-9999", case, "asking for the latest complete version does not give b10001, the newest (b10000 sorts before b9999 as a string)", json!({"result": trunc(&rr.result)}));
    }
}

pub fn c07_ids_beyond_9999(report: &mut Report) {
    let work = tempfile::tempdir().unwrap();
    let (src, arch, _snaps) = archive_near_10000(work.path());
    report.case("plumbing/c07/ids-beyond-9999", true);
    report.hit("directed:version-ids-beyond-9999");
    // leave {b9998, b10000}: the slot after the four-digit version is free again
    let _ = real_delete(&arch, &[9999, 10001], false, false, IceptConfig::default());
    let before = crate::hist::raw_files(&arch);
    std::fs::write(src.join("a"), b"a: yet another content, for the version after the deletions").unwrap();
    let r = real_backup(&arch, &src, &params(1000), IceptConfig::default());
    let after = crate::hist::raw_files(&arch);
    let case = json!({"directed": "versions b9998 and b10000 present (b9999 and b10001 deleted), then a backup", "result": trunc(&r.result)});
    for (k, v) in &before {
        if after.get(k) != Some(v) {
            report.oracle_fail("backup-altered-file", case.clone(), "a backup altered or removed an existing archive file", json!(k));
            break;
        }
    }
    let (st, _) = abstract_archive(&arch);
    let mut ids = all_bands(&st);
    ids.sort();
    let new: Vec<u32> = ids.iter().copied().filter(|b| *b != 9998 && *b != 10000).collect();
    if r.result.starts_with("result ok") && new != vec![10001] {
        report.oracle_fail("new-version-id-not-above-existing", case, "a new version did not get an id above every existing one", json!({"versions_now": ids}));
    }
}

/// C13: something else left a directory inside a version's index directory (a sync tool's `.rsync-partial`),
/// then gc runs.  What the independent reader finds afterwards must still hold: every address of every version
/// resolves inside a stored block.
pub fn c13_stray_dir_in_index(report: &mut Report) {
    let work = tempfile::tempdir().unwrap();
    let (src, arch) = (work.path().join("src"), work.path().join("arch"));
    small_source(&src, &["a", "b", "c"], "v0");
    create_archive(&arch);
    let p = params(2);
    let _ = real_backup(&arch, &src, &p, IceptConfig::default());
    small_source(&src, &["a", "b", "c", "d"], "the second version, other sizes");
    let _ = real_backup(&arch, &src, &p, IceptConfig::default());
    for stray in [".rsync-partial", "#recycle", "@eaDir"] {
        std::fs::create_dir_all(arch.join("b0001/i").join(stray)).unwrap();
    }
    let gc = real_delete(&arch, &[], false, false, IceptConfig::default());
    report.case("plumbing/c13/stray-dir-in-index", true);
    report.hit("directed:stray-directory-inside-an-index-directory");
    let case = json!({"directed": "stray directories (.rsync-partial, #recycle, @eaDir) inside b0001/i, then gc", "gc": trunc(&gc.result)});
    for band in [0u32, 1] {
        for (sig, what) in crate::c13::raw_reader(&arch, band, &std::collections::BTreeMap::new()) {
            report.oracle_fail(&sig, case.clone(), "after a gc on an archive with stray directories in an index directory the independent reader found a violation", what);
        }
    }
}

/// C05: garbage collection and a delete on an archive whose version ids cross 9999 → 10000: nothing a kept
/// version needs is removed, dry runs predict the same, and every kept version restores.
pub fn c05_ids_beyond_9999(report: &mut Report) {
    let work = tempfile::tempdir().unwrap();
    let (_src, arch, snaps) = archive_near_10000(work.path());
    report.case("plumbing/c05/ids-beyond-9999", true);
    report.hit("directed:version-ids-beyond-9999");
    let dry = real_delete(&arch, &[], true, false, IceptConfig::default());
    let gc = real_delete(&arch, &[], false, false, IceptConfig::default());
    let del = real_delete(&arch, &[9999], false, false, IceptConfig::default());
    let case = json!({"directed": "versions b9998, b9999, b10000, b10001; gc (dry and real), then delete b9999", "dry": trunc(&dry.result), "gc": trunc(&gc.result), "delete": trunc(&del.result)});
    let count = |r: &RunResult, key: &str| r.result.split(' ').find_map(|t| t.strip_prefix(key)).and_then(|v| v.parse::<u64>().ok());
    if count(&dry, "unreferenced_block_count=") != Some(0) || count(&gc, "deleted_block_count=") != Some(0) {
        report.oracle_fail("delete:referenced-block-removed", case.clone(), "a gc on an archive in which every block is referenced found (or removed) something", json!(null));
    }
    for (id, snap) in snaps.iter().filter(|(id, _)| *id != 9999) {
        let (rr, robs) = crate::hist::restore_observe(&arch, work.path(), &Sel::Band(*id), &format!("k{id}"));
        if !rr.result.starts_with("result ok") || !rr.events.is_empty() || crate::c01::tree_diff(snap, &robs).is_some() {
            report.oracle_fail("delete:kept-version-harmed", case.clone(), "a kept version near the 9999/10000 boundary no longer restores exactly after gc / delete", json!({"band": band_name(*id), "result": trunc(&rr.result), "events": rr.events.iter().take(2).collect::<Vec<_>>()}));
        }
    }
    let (st, _) = abstract_archive(&arch);
    let mut ids = all_bands(&st);
    ids.sort();
    if ids != vec![9998, 10000, 10001] {
        report.oracle_fail("delete:wrong-versions-gone", case, "not exactly the requested version was removed", json!(ids));
    }
}
