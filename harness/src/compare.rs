//! Build a model session (requests) alongside real runs, then compare answers.
use crate::model::run_model;
use crate::real::RunResult;
use crate::report::Report;
use serde_json::{Value, json};

#[derive(Clone, Debug, Default)]
pub struct ModelAnswer {
    pub trace: Vec<String>,
    pub events: Vec<String>,
    pub lines: Vec<String>,
    pub result: String,
    pub steps: usize,
    pub dead: bool,
    pub raw: Vec<String>,
}

pub fn parse_answer(lines: &[String]) -> ModelAnswer {
    let mut a = ModelAnswer { raw: lines.to_vec(), ..Default::default() };
    for l in lines {
        if l.starts_with("op ") {
            a.trace.push(l.clone());
        } else if l.starts_with("event ") {
            a.events.push(l.clone());
        } else if l.starts_with("result") {
            a.result = l.clone();
        } else if let Some(rest) = l.strip_prefix("steps ") {
            let mut it = rest.split(' ');
            a.steps = it.next().and_then(|s| s.parse().ok()).unwrap_or(0);
            a.dead = it.next() == Some("dead");
        } else {
            a.lines.push(l.clone());
        }
    }
    a
}

fn is_mutating_line(l: &str) -> bool {
    l.starts_with("op mkdir ") || l.starts_with("op write ") || l.starts_with("op rm ") || l.starts_with("op rmtree ")
}

fn verb_and_path(l: &str) -> (&str, &str) {
    let mut it = l.split(' ');
    it.next();
    (it.next().unwrap_or(""), it.next().unwrap_or(""))
}

/// Sort every maximal run of consecutive operations with the same verb on block-directory
/// paths (`d/…`): those run concurrently or in hash-set order in the code.
pub fn canon_trace(t: &[String]) -> Vec<String> {
    let mut out: Vec<String> = Vec::with_capacity(t.len());
    let mut i = 0;
    while i < t.len() {
        let (v, p) = verb_and_path(&t[i]);
        if p.starts_with("d/") {
            let mut j = i + 1;
            while j < t.len() {
                let (v2, p2) = verb_and_path(&t[j]);
                if v2 == v && p2.starts_with("d/") { j += 1 } else { break }
            }
            let mut run: Vec<String> = t[i..j].to_vec();
            run.sort();
            out.extend(run);
            i = j;
        } else {
            out.push(t[i].clone());
            i += 1;
        }
    }
    out
}

pub fn first_diff(a: &[String], b: &[String]) -> Value {
    let n = a.len().min(b.len());
    for i in 0..n {
        if a[i] != b[i] {
            return json!({"index": i, "impl": trunc(&a[i]), "model": trunc(&b[i])});
        }
    }
    json!({"index": n, "impl": a.get(n).map(|s| trunc(s)), "model": b.get(n).map(|s| trunc(s)), "impl_len": a.len(), "model_len": b.len()})
}

pub fn trunc(s: &str) -> String {
    if s.len() > 400 { format!("{}…({} bytes)", &s[..400], s.len()) } else { s.to_string() }
}

#[derive(Clone, Debug, Default)]
pub struct CmpOpts {
    /// the run was stopped by a crash point: result and later events are not compared
    pub crashed: bool,
    /// compare error events as a multiset (hash-map iteration order in the code)
    pub errors_unordered: bool,
    /// do not compare the result line
    pub skip_result: bool,
    /// removals of block files happen in hash-set order: compare them as a count only
    pub blur_block_rm: bool,
}

fn blur_rm(l: &str) -> String {
    if l.starts_with("op rm d/") { let tail = l.rsplit(' ').next().unwrap_or(""); format!("op rm d/* - - {tail}") } else { l.to_string() }
}

/// For states reached by stopping in the middle of hash-set-ordered block removals: keep
/// everything but block files, and their number.
pub fn blur_blocks(state: &[String]) -> Vec<String> {
    let mut out: Vec<String> = state.iter().filter(|l| !(l.starts_with("state d/") && l.matches('/').count() == 2)).cloned().collect();
    out.push(format!("blocks {}", state.len() - out.len()));
    out
}

/// Compare one real run with the model's answer.  Returns the number of L1 differences.
pub fn compare_run(report: &mut Report, sig_prefix: &str, case: &Value, real: &RunResult, model: &ModelAnswer, o: &CmpOpts) -> usize {
    let mut diffs = 0;
    let rt = canon_trace(&real.trace);
    let mt = canon_trace(&model.trace);
    // binding part: the mutating operations only (filtered first, so that reads in between do
    // not split a run), canonicalised
    let rm: Vec<String> = canon_trace(&real.trace.iter().filter(|l| is_mutating_line(l)).cloned().collect::<Vec<_>>());
    let mm: Vec<String> = canon_trace(&model.trace.iter().filter(|l| is_mutating_line(l)).cloned().collect::<Vec<_>>());
    let (rm, mm) = if o.blur_block_rm { (rm.iter().map(|l| blur_rm(l)).collect::<Vec<_>>(), mm.iter().map(|l| blur_rm(l)).collect::<Vec<_>>()) } else { (rm, mm) };
    if rm != mm {
        diffs += 1;
        report.disagree(&format!("{sig_prefix}:mutating-trace"), case.clone(), first_diff(&rm, &mm), json!("see impl/model in diff"));
    } else if rt != mt {
        report.hit("read_drift");
    }
    if !o.crashed {
        // panics: only the fact is compared, messages are free text
        // several concurrent block-subdirectory listings failing: which error wins is a race
        let norm = |r: &str| if r.starts_with("result panic") { "result panic".to_string() } else if r.starts_with("result err list-blocks:") { "result err list-blocks".to_string() } else { r.trim_end().to_string() };
        if !o.skip_result && norm(&real.result) != norm(&model.result) {
            diffs += 1;
            report.disagree(&format!("{sig_prefix}:result"), case.clone(), json!(trunc(&real.result)), json!(trunc(&model.result)));
        }
        // filesystem-level restore errors (a parent directory that was never created, …) are below
        // the store-level model; they are compared by the filesystem model (C16)
        let mut re: Vec<String> = real.events.iter().filter(|l| l.starts_with("event error") && !l.starts_with("event error other:Restore")).cloned().collect();
        let mut me: Vec<String> = model.events.iter().filter(|l| l.starts_with("event error")).cloned().collect();
        if o.errors_unordered {
            re.sort();
            me.sort();
        }
        if re != me {
            diffs += 1;
            report.disagree(&format!("{sig_prefix}:errors"), case.clone(), first_diff(&re, &me), json!(""));
        }
        let rc: Vec<String> = real.events.iter().filter(|l| l.starts_with("event change")).cloned().collect();
        let mc: Vec<String> = model.events.iter().filter(|l| l.starts_with("event change")).cloned().collect();
        if rc != mc {
            diffs += 1;
            report.disagree(&format!("{sig_prefix}:changes"), case.clone(), first_diff(&rc, &mc), json!(""));
        }
        if real.lines != model.lines {
            diffs += 1;
            report.disagree(&format!("{sig_prefix}:output"), case.clone(), first_diff(&real.lines, &model.lines), json!(""));
        }
    }
    report.traces_validated += 1;
    diffs
}

pub fn compare_state(report: &mut Report, sig_prefix: &str, case: &Value, real_state: &[String], model_dump: &[String]) -> usize {
    if real_state != model_dump {
        report.disagree(&format!("{sig_prefix}:state"), case.clone(), first_diff(real_state, model_dump), json!(""));
        1
    } else {
        0
    }
}

/// A batch of requests for one model process; `mark` remembers which request an answer belongs to.
#[derive(Default)]
pub struct Session {
    pub reqs: Vec<String>,
}

impl Session {
    pub fn new() -> Session {
        Session::default()
    }
    pub fn push(&mut self, r: String) -> usize {
        self.reqs.push(r);
        self.reqs.len() - 1
    }
    pub fn load_store(&mut self, state_lines: &[String]) {
        self.push("store-clear".into());
        for l in state_lines {
            let rest = l.strip_prefix("state ").expect("state line");
            self.push(format!("put {rest}"));
        }
    }
    pub fn load_src(&mut self, src_lines: &[String]) {
        self.push("src-clear".into());
        for l in src_lines {
            self.push(l.clone());
        }
    }
    pub fn run(&self) -> Vec<Vec<String>> {
        run_model(&self.reqs)
    }
}

pub fn fault_token(f: &crate::icept::FaultSpec) -> String {
    format!("{}@{}@{}@{}", crate::real::verb_text(f.verb), f.path, f.nth, crate::real::kind_text(f.kind))
}
