//! Source trees: description, generation, materialisation on disk, and observation (lstat walk).
use crate::rng::Rng;
use std::collections::BTreeMap;
use std::ffi::CString;
use std::fs;
use std::os::unix::fs::{MetadataExt, PermissionsExt};
use std::path::{Path, PathBuf};

#[derive(Clone, Debug, PartialEq, Eq)]
pub enum NodeKind {
    File(Vec<u8>),
    Dir,
    Symlink(String),
}

#[derive(Clone, Debug, PartialEq, Eq)]
pub struct Node {
    /// components below the root; empty = the root directory
    pub comps: Vec<String>,
    pub kind: NodeKind,
    pub mode: u32,
    pub mtime_ns: i64,
    pub uid: u32,
    pub gid: u32,
}

impl Node {
    pub fn apath(&self) -> String {
        if self.comps.is_empty() { "/".to_string() } else { format!("/{}", self.comps.join("/")) }
    }
    pub fn rel(&self) -> PathBuf {
        self.comps.iter().collect()
    }
}

/// A whole tree: nodes keyed by apath; parents always present; the root is a Dir.
#[derive(Clone, Debug, PartialEq, Eq, Default)]
pub struct Tree {
    pub nodes: BTreeMap<String, Node>,
}

pub struct GenOpts {
    pub max_nodes: usize,
    pub max_depth: usize,
    pub block: usize,
    pub cap: usize,
    pub pre_epoch_fraction: bool,
    pub owners: bool,
    pub special_modes: bool,
}

impl Default for GenOpts {
    fn default() -> Self {
        GenOpts { max_nodes: 24, max_depth: 4, block: 8, cap: 4, pre_epoch_fraction: false, owners: true, special_modes: true }
    }
}

pub const NAMES: &[&str] = &[" ", "-", ".a", "..a", "0", "a", "a-", "a.b", "ab", "b", "c", "~", "ñ", "ñx", "日本", "Z", "a b", "..\\x", "a\\..\\b", "...", "*"];
pub const OWNERS: &[(u32, u32)] = &[(0, 0), (1, 1), (2, 2), (0, 2), (8, 8)];
pub const MTIMES: &[i64] = &[
    0, 1, 1_000_000_000, 1_500_000_000, 999_999_999, 1_700_000_000_123_456_789, 2_147_483_648_000_000_000,
    1_600_000_000_000_000_000, 4_000_000_000_500_000_000, -1_000_000_000, -2_000_000_000, 86_400_000_000_000,
];
pub const MTIMES_PRE_EPOCH_FRACTION: &[i64] = &[-1, -1_500_000_000, -500_000_000, -1_000_000_001, -86_400_000_000_001];

pub fn gen_mtime(rng: &mut Rng, o: &GenOpts) -> i64 {
    if o.pre_epoch_fraction && rng.chance(1, 6) {
        *rng.pick(MTIMES_PRE_EPOCH_FRACTION)
    } else if rng.chance(1, 2) {
        *rng.pick(MTIMES)
    } else {
        rng.range(0, 2_000_000_000) * 1_000_000_000 + rng.range(0, 999_999_999)
    }
}

pub fn gen_mode(rng: &mut Rng, o: &GenOpts, dir: bool) -> u32 {
    let base = if rng.chance(1, 2) { *rng.pick(&[0o644u32, 0o755, 0o600, 0o700, 0o444, 0o777, 0o000, 0o750]) } else { rng.below(0o1000) as u32 };
    let special = if o.special_modes && rng.chance(1, 4) { (rng.below(8) as u32) << 9 } else { 0 };
    let m = base | special;
    if dir { m } else { m }
}

pub fn gen_content(rng: &mut Rng, o: &GenOpts) -> Vec<u8> {
    let (b, c) = (o.block.max(1), o.cap);
    let sizes = [0, 1, c.saturating_sub(1), c, c + 1, b.saturating_sub(1), b, b + 1, 2 * b, 3 * b + 1, 2 * b - 1];
    let n = if rng.chance(3, 4) { *rng.pick(&sizes) } else { rng.below(4 * b + 2) };
    // small pool of contents so duplicates and shared chunks occur
    let pool_id = rng.below(5) as u8;
    (0..n).map(|i| b'a' + ((i as u8).wrapping_mul(pool_id + 1).wrapping_add(pool_id)) % 23).collect()
}

pub fn gen_name(rng: &mut Rng) -> String {
    if rng.chance(4, 5) {
        rng.pick(NAMES).to_string()
    } else {
        let n = 1 + rng.below(5);
        (0..n).map(|_| *rng.pick(&['a', 'b', 'é', '.', '-', '_', 'x', 'Y', '1', ' '])).collect::<String>()
    }
}

fn valid_name(n: &str) -> bool {
    !n.is_empty() && n != "." && n != ".." && !n.contains('/') && !n.contains('\0')
}

pub fn gen_tree(rng: &mut Rng, o: &GenOpts) -> Tree {
    let mut t = Tree::default();
    let root = Node { comps: vec![], kind: NodeKind::Dir, mode: if rng.chance(3, 4) { 0o755 } else { gen_mode(rng, o, true) }, mtime_ns: gen_mtime(rng, o), uid: 0, gid: 0 };
    t.nodes.insert("/".into(), root);
    let n = rng.below(o.max_nodes + 1);
    let mut dirs: Vec<Vec<String>> = vec![vec![]];
    for _ in 0..n {
        let parent = rng.pick(&dirs).clone();
        if parent.len() >= o.max_depth {
            continue;
        }
        let name = gen_name(rng);
        if !valid_name(&name) {
            continue;
        }
        let mut comps = parent.clone();
        comps.push(name);
        let apath = format!("/{}", comps.join("/"));
        if t.nodes.contains_key(&apath) {
            continue;
        }
        let (uid, gid) = if o.owners { *rng.pick(OWNERS) } else { (0, 0) };
        let kind = match rng.below(10) {
            0..=5 => NodeKind::File(gen_content(rng, o)),
            6..=7 => NodeKind::Dir,
            _ => NodeKind::Symlink(rng.pick(&["a", "../x", "/etc/passwd", "nowhere", ".", "ab/c", "ñ"]).to_string()),
        };
        let is_dir = kind == NodeKind::Dir;
        if is_dir {
            dirs.push(comps.clone());
        }
        let node = Node { comps, kind, mode: gen_mode(rng, o, is_dir), mtime_ns: gen_mtime(rng, o), uid, gid };
        t.nodes.insert(apath, node);
    }
    t
}

fn set_times(path: &Path, ns: i64, symlink: bool) {
    let secs = ns.div_euclid(1_000_000_000);
    let nanos = ns.rem_euclid(1_000_000_000) as u32;
    let ft = filetime::FileTime::from_unix_time(secs, nanos);
    if symlink {
        filetime::set_symlink_file_times(path, ft, ft).expect("set symlink times");
    } else {
        filetime::set_file_times(path, ft, ft).expect("set times");
    }
}

fn lchown(path: &Path, uid: u32, gid: u32) {
    std::os::unix::fs::lchown(path, Some(uid), Some(gid)).expect("lchown");
}

impl Tree {
    pub fn children_of(&self, apath: &str) -> Vec<&Node> {
        let depth = if apath == "/" { 0 } else { apath.matches('/').count() };
        self.nodes
            .values()
            .filter(|n| n.comps.len() == depth + 1 && (apath == "/" || n.apath().starts_with(&format!("{apath}/"))))
            .collect()
    }

    /// Create the tree under `root` (which must not exist or be empty).
    pub fn materialize(&self, root: &Path) {
        fs::create_dir_all(root).unwrap();
        // creation in key order creates parents first ("/a" < "/a/b" as strings)
        let mut order: Vec<&Node> = self.nodes.values().collect();
        order.sort_by_key(|n| n.comps.len());
        for n in &order {
            let p = root.join(n.rel());
            match &n.kind {
                NodeKind::Dir => {
                    if !n.comps.is_empty() {
                        fs::create_dir(&p).unwrap();
                    }
                }
                NodeKind::File(c) => fs::write(&p, c).unwrap(),
                NodeKind::Symlink(t) => std::os::unix::fs::symlink(t, &p).unwrap(),
            }
        }
        // metadata bottom-up: owner, then mode, then times (deepest first so directory mtimes stick)
        order.sort_by_key(|n| std::cmp::Reverse(n.comps.len()));
        for n in &order {
            let p = root.join(n.rel());
            let is_link = matches!(n.kind, NodeKind::Symlink(_));
            lchown(&p, n.uid, n.gid);
            if !is_link {
                fs::set_permissions(&p, fs::Permissions::from_mode(n.mode)).unwrap();
            }
            set_times(&p, n.mtime_ns, is_link);
        }
    }

    /// Like `materialize`, but siblings are created in another order (parents still before their
    /// children), so that file systems whose `readdir` order depends on creation order (tmpfs:
    /// newest first) hand the program the same tree in another listing order.  Content and
    /// metadata of the result are identical to `materialize`: metadata is applied afterwards,
    /// deepest first, so directory mtimes stick.
    pub fn materialize_ordered(&self, root: &Path, order: &MatOrder) {
        fs::create_dir_all(root).unwrap();
        let mut nodes: Vec<&Node> = self.nodes.values().collect();
        match order {
            MatOrder::Normal => {}
            MatOrder::Reverse => nodes.reverse(),
            MatOrder::Shuffled(seed) => Rng::new(*seed).shuffle(&mut nodes),
        }
        // stable: keeps the chosen sibling order within one depth
        nodes.sort_by_key(|n| n.comps.len());
        for n in &nodes {
            let p = root.join(n.rel());
            match &n.kind {
                NodeKind::Dir => {
                    if !n.comps.is_empty() {
                        fs::create_dir(&p).unwrap();
                    }
                }
                NodeKind::File(c) => fs::write(&p, c).unwrap(),
                NodeKind::Symlink(t) => std::os::unix::fs::symlink(t, &p).unwrap(),
            }
        }
        nodes.sort_by_key(|n| std::cmp::Reverse(n.comps.len()));
        for n in &nodes {
            let p = root.join(n.rel());
            let is_link = matches!(n.kind, NodeKind::Symlink(_));
            lchown(&p, n.uid, n.gid);
            if !is_link {
                fs::set_permissions(&p, fs::Permissions::from_mode(n.mode)).unwrap();
            }
            set_times(&p, n.mtime_ns, is_link);
        }
    }
}

/// Sibling creation order for `Tree::materialize_ordered`.
#[derive(Clone, Debug, PartialEq, Eq)]
pub enum MatOrder {
    /// as `materialize`: by depth, then by apath
    Normal,
    /// by depth, then by apath descending
    Reverse,
    /// by depth, then in a seeded random order
    Shuffled(u64),
}

/// What lstat + read observe for one path.
#[derive(Clone, Debug, PartialEq, Eq)]
pub struct Obs {
    pub apath: String,
    pub kind: char,
    pub content: Vec<u8>,
    pub target: Option<String>,
    pub mode: u32,
    pub mtime_ns: i64,
    pub uid: u32,
    pub gid: u32,
}

/// Walk a directory with lstat, independent of conserve; sorted by apath string.
pub fn observe(root: &Path) -> Vec<Obs> {
    fn rec(root: &Path, rel: &Path, out: &mut Vec<Obs>) {
        let p = root.join(rel);
        let md = fs::symlink_metadata(&p).expect("lstat");
        let apath = if rel.as_os_str().is_empty() { "/".to_string() } else { format!("/{}", rel.to_str().expect("utf8 path")) };
        let ft = md.file_type();
        let kind = if ft.is_dir() { 'd' } else if ft.is_file() { 'f' } else if ft.is_symlink() { 'l' } else { 'u' };
        let content = if kind == 'f' { fs::read(&p).unwrap_or_default() } else { vec![] };
        let target = if kind == 'l' { Some(fs::read_link(&p).unwrap().to_str().unwrap().to_string()) } else { None };
        out.push(Obs {
            apath,
            kind,
            content,
            target,
            mode: md.mode() & 0o7777,
            mtime_ns: md.mtime() * 1_000_000_000 + md.mtime_nsec(),
            uid: md.uid(),
            gid: md.gid(),
        });
        if kind == 'd' {
            let mut names: Vec<_> = fs::read_dir(&p).expect("read_dir").map(|e| e.unwrap().file_name()).collect();
            names.sort();
            for n in names {
                rec(root, &rel.join(n), out);
            }
        }
    }
    let mut out = Vec::new();
    rec(root, Path::new(""), &mut out);
    out.sort_by(|a, b| a.apath.cmp(&b.apath));
    out
}

pub fn user_name(uid: u32) -> Option<String> {
    nix::unistd::User::from_uid(nix::unistd::Uid::from_raw(uid)).ok().flatten().map(|u| u.name)
}
pub fn group_name(gid: u32) -> Option<String> {
    nix::unistd::Group::from_gid(nix::unistd::Gid::from_raw(gid)).ok().flatten().map(|g| g.name)
}

fn opt_hex(s: &Option<String>) -> String {
    match s {
        Some(s) => format!("x{}", hex::encode(s.as_bytes())),
        None => "-".to_string(),
    }
}

/// The documented order, written independently (directory part component-wise, then name).
pub fn doc_order(a: &str, b: &str) -> std::cmp::Ordering {
    crate::c11::doc_cmp(a, b)
}

/// `src …` lines for the model: what the backup should see, in the documented order, from our own lstat.
pub fn src_lines(obs: &[Obs]) -> Vec<String> {
    let mut v: Vec<&Obs> = obs.iter().collect();
    v.sort_by(|a, b| doc_order(&a.apath, &b.apath));
    v.iter()
        .map(|o| {
            format!(
                "src {} {} {} {} {} {} {} {} {}",
                hex::encode(o.apath.as_bytes()),
                o.kind,
                o.mtime_ns,
                o.mode,
                opt_hex(&user_name(o.uid)),
                opt_hex(&group_name(o.gid)),
                o.content.len(),
                if o.content.is_empty() { "-".to_string() } else { hex::encode(&o.content) },
                opt_hex(&o.target)
            )
        })
        .collect()
}

#[allow(dead_code)]
pub fn cstr(p: &Path) -> CString {
    CString::new(p.to_str().unwrap()).unwrap()
}
