//! C01: backup then restore reproduces the source tree exactly.
//! Correspondence: storage trace, archive state, stats, events and restored nodes vs the model.
//! Oracle: restored tree == source tree, no errors, no crash.
use crate::absarch::abstract_archive;
use crate::compare::*;
use crate::icept::IceptConfig;
use crate::real::*;
use crate::report::Report;
use crate::rng::Rng;
use crate::treespec::*;
use serde_json::{Value, json};

pub const HUNK_SIZES: &[usize] = &[1, 2, 3, 1000];
pub const BLOCK_SIZES: &[usize] = &[1, 2, 7, 64, 1 << 20];
pub const SMALL_CAPS: &[u64] = &[0, 1, 8, 1 << 20];

pub fn node_line(o: &Obs) -> String {
    let x = |s: Option<String>| s.map(|s| format!("x{}", hex::encode(s.as_bytes()))).unwrap_or("-".into());
    format!(
        "node {} {} {} {} {} {} {} {} {} complete",
        hex::encode(o.apath.as_bytes()),
        o.kind,
        hex::encode(&o.content),
        o.mtime_ns.div_euclid(1_000_000_000),
        o.mtime_ns.rem_euclid(1_000_000_000),
        o.mode,
        x(user_name(o.uid)),
        x(group_name(o.gid)),
        x(o.target.clone())
    )
}

pub fn describe_tree(obs: &[Obs]) -> Value {
    json!(obs.iter().map(|o| json!({"apath": o.apath, "kind": o.kind.to_string(), "size": o.content.len(), "mode": format!("{:o}", o.mode), "mtime_ns": o.mtime_ns, "uid": o.uid, "gid": o.gid, "target": o.target, "content_hex": if o.content.len() <= 64 { hex::encode(&o.content) } else { format!("{}…", hex::encode(&o.content[..64])) }})).collect::<Vec<_>>())
}

/// Compare two observations of trees field by field; returns a description of the first difference.
pub fn tree_diff(expected: &[Obs], got: &[Obs]) -> Option<Value> {
    let mut i = 0;
    let mut j = 0;
    while i < expected.len() || j < got.len() {
        match (expected.get(i), got.get(j)) {
            (Some(e), Some(g)) if e.apath == g.apath => {
                if e != g {
                    let field = if e.kind != g.kind { "kind" } else if e.content != g.content { "content" } else if e.target != g.target { "target" } else if e.mtime_ns != g.mtime_ns { "mtime" } else if e.mode != g.mode { "mode" } else { "owner" };
                    return Some(json!({"path": e.apath, "field": field, "expected": format!("{e:?}").chars().take(300).collect::<String>(), "got": format!("{g:?}").chars().take(300).collect::<String>()}));
                }
                i += 1;
                j += 1;
            }
            (Some(e), Some(g)) => {
                return Some(if e.apath < g.apath { json!({"path": e.apath, "field": "missing"}) } else { json!({"path": g.apath, "field": "extra"}) });
            }
            (Some(e), None) => return Some(json!({"path": e.apath, "field": "missing"})),
            (None, Some(g)) => return Some(json!({"path": g.apath, "field": "extra"})),
            (None, None) => break,
        }
    }
    None
}

struct Pending {
    case: Value,
    backup: RunResult,
    i_backup: usize,
    state1: Vec<String>,
    i_dump: usize,
    restore: RunResult,
    i_restore: usize,
    restored: Vec<Obs>,
}

/// Directed: a file whose mtime lies beyond year 9999 (possible on tmpfs/btrfs, whose timestamps have 64-bit
/// seconds; ext4/xfs clamp earlier).  jiff's `Timestamp` cannot hold it: Lean `C01b.source_out_of_range_panics`
/// says the conversion panics — the hypothesis `mtimes in jiff's range` of `backup_restore_exact` is exactly
/// this.  Run the real code at the excluded point.
fn far_future_mtime(report: &mut Report) {
    let base = std::path::PathBuf::from(std::env::var("C17_TMPFS").unwrap_or_else(|_| "/dev/shm".to_string()));
    let Ok(work) = tempfile::tempdir_in(&base) else {
        report.hit("far-mtime:no-tmpfs");
        return;
    };
    let (src, arch) = (work.path().join("src"), work.path().join("arch"));
    std::fs::create_dir(&src).unwrap();
    std::fs::write(src.join("f"), b"x").unwrap();
    let secs: i64 = 300_000_000_000; // year 11476
    let ft = filetime::FileTime::from_unix_time(secs, 0);
    if filetime::set_file_mtime(src.join("f"), ft).is_err() || std::fs::metadata(src.join("f")).map(|m| std::os::unix::fs::MetadataExt::mtime(&m)).unwrap_or(0) != secs {
        report.hit("far-mtime:file-system-clamps");
        return;
    }
    create_archive(&arch);
    let p = BackupParams::default();
    let r = real_backup(&arch, &src, &p, IceptConfig::default());
    let case = json!({"op": "backup", "directed": "one file with mtime 300000000000 s (year 11476) on tmpfs"});
    report.case("far-mtime", true);
    report.hit("far-mtime:run");
    if !r.result.starts_with("result ok") || !r.result.contains(" errors=0") {
        report.oracle_fail("backup-crash:mtime-beyond-year-9999", case, "backup crashed (or reported errors) on a source file whose mtime is beyond year 9999", json!({"result": trunc(&r.result)}));
    }
}

/// Directed, real code + the property's oracle: owner and group are recorded and restored INDEPENDENTLY.  A uid
/// without a passwd entry (a deleted account, a container volume) is recorded as no user; the group of the same
/// entry is a named one and must come back, and the other way round — for files, directories and symlinks.
/// Needs the privilege to chown; skipped (with a hit) otherwise.
fn half_named_owner(report: &mut Report) {
    use std::os::unix::fs::MetadataExt;
    let work = tempfile::tempdir().expect("tempdir");
    let (src, arch, dest) = (work.path().join("src"), work.path().join("arch"), work.path().join("dest"));
    std::fs::create_dir(&src).unwrap();
    let nameless: u32 = 54321;
    if crate::treespec::user_name(nameless).is_some() || crate::treespec::group_name(nameless).is_some() || crate::treespec::user_name(1).is_none() || crate::treespec::group_name(1).is_none() {
        report.hit("half-named-owner:ids-not-as-assumed");
        return;
    }
    let cases: &[(&str, u32, u32)] = &[("nameless-user-named-group", nameless, 1), ("named-user-nameless-group", 1, nameless), ("both-nameless", nameless, nameless), ("both-named", 2, 1)];
    for (n, u, g) in cases {
        std::fs::write(src.join(format!("f-{n}")), n.as_bytes()).unwrap();
        std::fs::create_dir(src.join(format!("d-{n}"))).unwrap();
        std::os::unix::fs::symlink("somewhere", src.join(format!("l-{n}"))).unwrap();
        for k in ["f", "d", "l"] {
            if std::os::unix::fs::lchown(src.join(format!("{k}-{n}")), Some(*u), Some(*g)).is_err() {
                report.hit("half-named-owner:no-chown-privilege");
                return;
            }
        }
    }
    create_archive(&arch);
    let r = real_backup(&arch, &src, &BackupParams::default(), IceptConfig::default());
    let rr = real_restore(&arch, &dest, &RestoreParams { sel: Sel::Latest, subtree: None, exclude: vec![], overwrite: false }, IceptConfig::default());
    report.case("half-named-owner", true);
    report.hit("directed:half-named-owner");
    let case = json!({"directed": "entries owned by a uid / gid without a name next to a named gid / uid"});
    if !r.result.starts_with("result ok") || !rr.result.starts_with("result ok") || !rr.events.is_empty() {
        report.oracle_fail("restore-not-clean-half-named-owner", case, "backup or restore of entries with a nameless uid or gid did not succeed cleanly", json!({"backup": trunc(&r.result), "restore": trunc(&rr.result), "events": rr.events.iter().take(3).collect::<Vec<_>>()}));
        return;
    }
    let me = (unsafe_getuid(), unsafe_getgid());
    for (n, u, g) in cases {
        for k in ["f", "d", "l"] {
            let md = std::fs::symlink_metadata(dest.join(format!("{k}-{n}"))).unwrap();
            // a half that has a name comes back; a nameless half is whatever the restoring user creates
            let want = (if *u == nameless { me.0 } else { *u }, if *g == nameless { me.1 } else { *g });
            if (md.uid(), md.gid()) != want {
                report.oracle_fail("restored-owner-differs-half-named", case.clone(), "the named half of an entry's ownership was not restored because the other half has no name", json!({"entry": format!("{k}-{n}"), "source": [u, g], "restored": [md.uid(), md.gid()], "expected": [want.0, want.1]}));
            }
        }
    }
}

fn unsafe_getuid() -> u32 {
    std::fs::metadata("/proc/self").map(|m| std::os::unix::fs::MetadataExt::uid(&m)).unwrap_or(0)
}

fn unsafe_getgid() -> u32 {
    std::fs::metadata("/proc/self").map(|m| std::os::unix::fs::MetadataExt::gid(&m)).unwrap_or(0)
}

/// Directed, real code + the property's oracle: things named `CACHEDIR.TAG` that are NOT a cache tag — a
/// directory of that name, a symlink of that name pointing at itself, an empty file, a file with other content.
/// None marks its directory as a cache; everything is backed up and restored, with no error.  (A properly signed
/// tag does exclude its directory: "cache-tagged directories aside".)
fn cachedir_tag_lookalikes(report: &mut Report) {
    let work = tempfile::tempdir().expect("tempdir");
    let (src, arch) = (work.path().join("src"), work.path().join("arch"));
    for d in ["proj/CACHEDIR.TAG/inner", "loop", "empty-tag", "wrong-tag", "plain"] {
        std::fs::create_dir_all(src.join(d)).unwrap();
    }
    std::fs::write(src.join("proj/CACHEDIR.TAG/inner/f"), b"inside a directory named like a tag").unwrap();
    std::fs::write(src.join("proj/data"), b"proj data").unwrap();
    std::os::unix::fs::symlink("CACHEDIR.TAG", src.join("loop/CACHEDIR.TAG")).unwrap();
    std::fs::write(src.join("loop/data"), b"loop data").unwrap();
    std::fs::write(src.join("empty-tag/CACHEDIR.TAG"), b"").unwrap();
    std::fs::write(src.join("empty-tag/data"), b"e data").unwrap();
    std::fs::write(src.join("wrong-tag/CACHEDIR.TAG"), b"Signature: not the one").unwrap();
    std::fs::write(src.join("wrong-tag/data"), b"w data").unwrap();
    std::fs::write(src.join("plain/data"), b"p data").unwrap();
    create_archive(&arch);
    let r = real_backup(&arch, &src, &BackupParams::default(), IceptConfig::default());
    let (rr, robs) = crate::hist::restore_observe(&arch, work.path(), &Sel::Latest, "tags");
    report.case("cachedir-tag-lookalikes", true);
    report.hit("directed:cachedir-tag-lookalikes");
    let case = json!({"directed": "CACHEDIR.TAG as a directory, as a self-referring symlink, empty, with another signature"});
    if !r.result.starts_with("result ok") || !r.result.contains(" errors=0") || !rr.result.starts_with("result ok") || !rr.events.is_empty() {
        report.oracle_fail("restore-not-clean-tag-lookalikes", case.clone(), "backup or restore of a tree with CACHEDIR.TAG look-alikes reported errors", json!({"backup": trunc(&r.result), "restore": trunc(&rr.result)}));
    }
    if let Some(d) = tree_diff(&observe(&src), &robs) {
        report.oracle_fail("restored-tree-differs-tag-lookalikes", case, "a directory holding something merely NAMED CACHEDIR.TAG was not backed up and restored like any other", d);
    }
}

/// Directed, real code + oracle only (no model run: the byte-list model is not meant for megabytes): sizes and
/// shapes the random generator never reaches — files of several MiB around block-size multiples with default-like
/// options, a 255-byte name, forty levels of nesting, a directory with 3000 entries.
fn large_scale(seed: u64, defaults: bool, report: &mut Report) {
    let work = tempfile::tempdir().expect("tempdir");
    let (src, arch, dest) = (work.path().join("src"), work.path().join("arch"), work.path().join("dest"));
    std::fs::create_dir(&src).unwrap();
    let mut rng = Rng::new(seed ^ 0xB16);
    let mib = 1usize << 20;
    let mut data = |n: usize| -> Vec<u8> { let mut x = rng.next_u64(); (0..n).map(|_| { x ^= x << 13; x ^= x >> 7; x ^= x << 17; (x >> 24) as u8 }).collect() };
    for (name, n) in [("big-exact", 2 * mib), ("big-plus-one", mib + 1), ("big-minus-one", 3 * mib - 1), ("big-zeros", 0usize), ("mid", 65_537)] {
        let body = if name == "big-zeros" { vec![0u8; 4 * mib + 3] } else { data(n) };
        std::fs::write(src.join(name), body).unwrap();
    }
    let long = "n".repeat(255);
    std::fs::write(src.join(&long), b"long name").unwrap();
    let mut deep = src.clone();
    for i in 0..40 {
        deep = deep.join(format!("d{i}"));
    }
    std::fs::create_dir_all(&deep).unwrap();
    std::fs::write(deep.join("leaf"), b"deep").unwrap();
    let wide = src.join("wide");
    std::fs::create_dir(&wide).unwrap();
    for i in 0..3000 {
        std::fs::write(wide.join(format!("w{i:04}")), if i % 7 == 0 { b"x".as_slice() } else { b"".as_slice() }).unwrap();
    }
    // with the tool's DEFAULT options (20 MiB blocks, 1 MiB small-file cap, 100000 entries per hunk) on odd seeds:
    // then also 36 files of 700 KiB, which the combiner packs into blocks a little ABOVE 20 MiB
    if defaults {
        let many = src.join("medium");
        std::fs::create_dir(&many).unwrap();
        for i in 0..36 {
            std::fs::write(many.join(format!("m{i:02}")), data(700 * 1024)).unwrap();
        }
    }
    let obs = observe(&src);
    create_archive(&arch);
    let p = if defaults { BackupParams { max_entries_per_hunk: 100_000, max_block_size: 20 << 20, small_file_cap: 1 << 20, owner: true, exclude: vec![] } } else { BackupParams { max_entries_per_hunk: 1000, max_block_size: mib, small_file_cap: 65_536, owner: true, exclude: vec![] } };
    report.hit(if defaults { "directed:large-scale:default-options" } else { "directed:large-scale:1MiB-blocks" });
    let backup = real_backup(&arch, &src, &p, IceptConfig::default());
    let restore = real_restore(&arch, &dest, &RestoreParams { sel: Sel::Closed, subtree: None, exclude: vec![], overwrite: false }, IceptConfig::default());
    let restored = if dest.exists() { observe(&dest) } else { vec![] };
    let case = json!({"op": "backup-restore", "directed": "large-scale: files of 2 MiB, 1 MiB+1, 3 MiB-1, 4 MiB+3 of zeros, 65537 B; a 255-byte name; 40 levels; a directory of 3000 entries", "options": {"max_entries_per_hunk": p.max_entries_per_hunk, "max_block_size": p.max_block_size, "small_file_cap": p.small_file_cap}, "plus_36_files_of_700KiB": defaults});
    report.case("large-scale", true);
    report.hit("directed:large-scale");
    if !backup.result.starts_with("result ok") || !backup.result.contains(" errors=0") || backup.events.iter().any(|e| e.starts_with("event error")) {
        report.oracle_fail("backup-not-clean-large-scale", case, "backup crashed or reported errors", json!({"result": trunc(&backup.result)}));
    } else if !restore.result.starts_with("result ok") || !restore.events.is_empty() {
        report.oracle_fail("restore-not-clean-large-scale", case, "restore crashed or reported errors", json!({"result": trunc(&restore.result), "events": restore.events.iter().take(3).collect::<Vec<_>>()}));
    } else if let Some(d) = tree_diff(&obs, &restored) {
        report.oracle_fail("restored-tree-differs-large-scale", case, "restored tree differs from the source tree", json!({"field": d["field"], "apath": d["apath"]}));
    } else if !defaults {
        // and the format reader agrees with what was written (blocks named by their hash, addresses inside, sizes)
        let (state, _) = abstract_archive(&arch);
        for (sig, what) in crate::c13::format_violations(&state, &std::collections::BTreeMap::new()) {
            report.oracle_fail(&sig, case.clone(), "the independent reader of the documented format found a violation (large-scale case)", what);
        }
    }
}

pub fn run(tier: &str, seed: u64, report: &mut Report) {
    let thorough = tier == "thorough";
    far_future_mtime(report);
    half_named_owner(report);
    cachedir_tag_lookalikes(report);
    large_scale(seed, false, report);
    large_scale(seed, true, report);
    let n_cases = if thorough { 1500 } else { 120 };
    let mut session = Session::new();
    let mut pend: Vec<Pending> = Vec::new();
    for i in 0..n_cases {
        let mut rng = Rng::new(seed.wrapping_mul(1000003).wrapping_add(i as u64));
        let p = BackupParams {
            max_entries_per_hunk: *rng.pick(HUNK_SIZES),
            max_block_size: *rng.pick(BLOCK_SIZES),
            small_file_cap: *rng.pick(SMALL_CAPS),
            owner: true,
            exclude: vec![],
        };
        let go = GenOpts {
            block: p.max_block_size.min(64),
            cap: (p.small_file_cap.min(64)) as usize,
            max_nodes: if thorough { 40 } else { 24 },
            pre_epoch_fraction: true,
            ..Default::default()
        };
        let tree = gen_tree(&mut rng, &go);
        let work = tempfile::tempdir().expect("tempdir");
        let (src, arch, dest) = (work.path().join("src"), work.path().join("arch"), work.path().join("dest"));
        tree.materialize(&src);
        let obs = observe(&src);
        create_archive(&arch);
        let (state0, _) = abstract_archive(&arch);
        let case = json!({"op": "backup-restore", "case_seed": seed.wrapping_mul(1000003).wrapping_add(i as u64),
            "options": {"max_entries_per_hunk": p.max_entries_per_hunk, "max_block_size": p.max_block_size, "small_file_cap": p.small_file_cap},
            "tree": describe_tree(&obs)});
        session.load_store(&state0);
        session.load_src(&src_lines(&obs));
        let i_backup = session.push(format!("backup {} -", p.model_args()));
        let i_dump = session.push("dump".into());
        let i_restore = session.push("restore closed s:2f 0".into());
        let backup = real_backup(&arch, &src, &p, IceptConfig::default());
        let (state1, notes) = abstract_archive(&arch);
        for n in notes {
            report.oracle_fail("unexpected-file", case.clone(), "backup left something outside the documented layout", json!(n));
        }
        let restore = real_restore(&arch, &dest, &RestoreParams { sel: Sel::Closed, subtree: None, exclude: vec![], overwrite: false }, IceptConfig::default());
        let restored = if dest.exists() { observe(&dest) } else { vec![] };

        // ---- oracle on the implementation (no model involved)
        let pre_epoch_frac = obs.iter().any(|o| o.mtime_ns < 0 && o.mtime_ns.rem_euclid(1_000_000_000) != 0);
        let special = obs.iter().any(|o| o.kind == 'f' && o.mode & 0o6000 != 0);
        let sig_suffix = if pre_epoch_frac { "-pre-epoch-fraction" } else { "" };
        if !backup.result.starts_with("result ok") || !backup.result.contains(" errors=0") || backup.events.iter().any(|e| e.starts_with("event error")) {
            report.oracle_fail(&format!("backup-not-clean{sig_suffix}"), case.clone(), "backup crashed or reported errors", json!({"result": trunc(&backup.result), "events": backup.events.iter().filter(|e| e.starts_with("event error")).take(3).collect::<Vec<_>>()}));
        } else if !restore.result.starts_with("result ok") || !restore.events.is_empty() {
            report.oracle_fail(&format!("restore-not-clean{sig_suffix}"), case.clone(), "restore crashed or reported errors", json!({"result": trunc(&restore.result), "events": restore.events.iter().take(3).collect::<Vec<_>>()}));
        } else if let Some(d) = tree_diff(&obs, &restored) {
            let field = d["field"].as_str().unwrap_or("?").to_string();
            let sig = if field == "mode" && special { "restored-tree-mode-setid".to_string() } else { format!("restored-tree-{field}{sig_suffix}") };
            report.oracle_fail(&sig, case.clone(), "restored tree differs from the source tree", d);
        }
        // ---- coverage accounting
        let nontrivial = obs.len() > 1;
        report.case(&serde_json::to_string(&case).unwrap(), nontrivial);
        report.hit(&format!("hunk={} block={} cap={}", p.max_entries_per_hunk, p.max_block_size, p.small_file_cap));
        for o in &obs {
            match o.kind {
                'f' => {
                    let n = o.content.len();
                    report.hit(if n == 0 { "file:empty" } else if n as u64 <= p.small_file_cap { "file:small" } else if n <= p.max_block_size { "file:one-block" } else { "file:multi-block" });
                    if o.mode & 0o7000 != 0 {
                        report.hit("mode:setuid/setgid/sticky");
                    }
                }
                'd' => report.hit("dir"),
                'l' => report.hit("symlink"),
                _ => {}
            }
            if o.mtime_ns < 0 {
                report.hit("mtime:pre-epoch");
            }
        }
        if i < 3 {
            report.sample(case.clone());
        }
        pend.push(Pending { case, backup, i_backup, state1, i_dump, restore, i_restore, restored });
    }
    // ---- correspondence with the model
    let answers = session.run();
    for p in &pend {
        let mb = parse_answer(&answers[p.i_backup]);
        compare_run(report, "backup", &p.case, &p.backup, &mb, &CmpOpts::default());
        compare_state(report, "backup", &p.case, &p.state1, &answers[p.i_dump]);
        let mr = parse_answer(&answers[p.i_restore]);
        // restored nodes: compare what the model says restore creates with what is on disk
        let mut real_nodes: Vec<String> = p.restored.iter().map(node_line).collect();
        let mut model_nodes: Vec<String> = mr.lines.clone();
        real_nodes.sort();
        model_nodes.sort();
        let mut r2 = p.restore.clone();
        r2.lines = real_nodes;
        let mut m2 = mr.clone();
        m2.lines = model_nodes;
        if p.backup.result.starts_with("result ok") {
            compare_run(report, "restore", &p.case, &r2, &m2, &CmpOpts::default());
        }
    }
}
