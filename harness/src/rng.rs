//! One small deterministic PRNG (SplitMix64) so every choice derives from VERIF_SEED.
#[derive(Clone, Debug)]
pub struct Rng(pub u64);

impl Rng {
    pub fn new(seed: u64) -> Rng {
        Rng(seed ^ 0x9E37_79B9_7F4A_7C15)
    }
    pub fn next_u64(&mut self) -> u64 {
        self.0 = self.0.wrapping_add(0x9E37_79B9_7F4A_7C15);
        let mut z = self.0;
        z = (z ^ (z >> 30)).wrapping_mul(0xBF58_476D_1CE4_E5B9);
        z = (z ^ (z >> 27)).wrapping_mul(0x94D0_49BB_1331_11EB);
        z ^ (z >> 31)
    }
    /// Uniform in 0..n (n > 0).
    pub fn below(&mut self, n: usize) -> usize {
        (self.next_u64() % (n as u64)) as usize
    }
    pub fn range(&mut self, lo: i64, hi: i64) -> i64 {
        lo + (self.next_u64() % ((hi - lo + 1) as u64)) as i64
    }
    pub fn chance(&mut self, num: u32, den: u32) -> bool {
        (self.next_u64() % den as u64) < num as u64
    }
    pub fn pick<'a, T>(&mut self, xs: &'a [T]) -> &'a T {
        &xs[self.below(xs.len())]
    }
    pub fn fork(&mut self) -> Rng {
        Rng(self.next_u64())
    }
    pub fn shuffle<T>(&mut self, xs: &mut [T]) {
        for i in (1..xs.len()).rev() {
            let j = self.below(i + 1);
            xs.swap(i, j);
        }
    }
}
