mod absarch;
mod blake;
mod c01;
mod c01b;
mod c02;
mod c03;
mod c04;
mod c05;
mod c06;
mod c07;
mod c08;
mod c11;
mod c11walk;
mod c12;
mod c13;
mod c13json;
mod c14;
mod c15;
mod c16;
mod c17;
mod c18;
mod compare;
mod conc;
mod damage;
mod filtered;
mod hist;
mod cli;
mod clock;
mod icept;
mod real;
mod treespec;
mod model;
mod pathgen;
mod plumbing;
mod report;
mod rng;
mod subtree;
mod sweep;

use report::Report;

fn arg(args: &[String], name: &str) -> Option<String> {
    args.iter().position(|a| a == name).and_then(|i| args.get(i + 1).cloned())
}

fn main() {
    // panics of the code under test are caught and reported as results; keep stderr quiet
    if std::env::var("VERIF_SHOW_PANICS").is_err() {
        std::panic::set_hook(Box::new(|_| {}));
    }
    let args: Vec<String> = std::env::args().collect();
    let prop = args.get(1).cloned().unwrap_or_default();
    let tier = arg(&args, "--tier").unwrap_or_else(|| "quick".into());
    let seed: u64 = arg(&args, "--seed").and_then(|s| s.parse().ok()).unwrap_or(1);
    let out = arg(&args, "--out");
    let mut report;
    match prop.as_str() {
        "C11" => {
            report = Report::new("C11", "pairs/triples of paths over a component alphabet (exhaustive to depth 2, sampled to depth 5, plus arbitrary strings); non-trivial = the two paths differ; distinct by canonical text of the case");
            c11::run(&tier, seed, &mut report);
            c11walk::run(&tier, seed, &mut report);
            // "every listing … in strictly increasing order": the stitched listings of C08's arrangements of
            // complete / interrupted / empty / deleted versions, kept only for their order
            let mut sub = Report::new("C08", "");
            c08::run(&tier, seed, &mut sub);
            report.hit_n("stitched-listings-checked-for-order", sub.evaluations);
            report.evaluations += sub.evaluations;
            for f in sub.oracle_failures.iter().filter(|f| f["signature"] == "list:not-sorted" || f["signature"] == "list:no-termination") {
                report.oracle_fail("listing-not-increasing", f["case"].clone(), "a stitched listing is not strictly increasing in path order", f["observed"].clone());
            }
        }
        "C12" => {
            report = Report::new("C12", "pairs (subtree, path) of valid apaths: exhaustive to depth 2, sampled extensions (by component and textual) to depth 4; non-trivial = the subtree is a textual prefix of the path");
            c12::run_pure(&tier, seed, &mut report);
            subtree::run_c12(&tier, seed, &mut report);
            filtered::run("C12", filtered::Mode::Subtree, &tier, &mut report);
            plumbing::c12_subtree_restore_when_mkdir_fails(&mut report);
        }
        "C01" => {
            report = Report::new("C01", "generated source trees (names around '/', multi-byte, sizes around the small-file cap and block size, all modes, pre/post-epoch mtimes, owners) x option triples; each backed up into a fresh archive and restored; non-trivial = more than the root entry; distinct by canonical case text");
            c01::run(&tier, seed, &mut report);
            c01b::run(&tier, seed, &mut report);
        }
        "C02" => {
            report = Report::new("C02", "generated histories over {replace tree by a mutated one (add/modify/touch/chmod/chown/remove/rename/file<->dir), backup(options), backup interrupted at a random mutating micro-step, resume, delete(subset), gc}; after every step each surviving complete version and 'latest complete' is restored and compared with the snapshot taken when it was made; non-trivial = more than one backup step; distinct by canonical history text");
            c02::run(&tier, seed, &mut report);
            plumbing::c02_latest_complete_under_stat_fault(&mut report);
            plumbing::c02_ids_beyond_9999(&mut report);
        }
        "C03" => {
            report = Report::new("C03", "scenarios (history prefix, changed tree, options) x EVERY mutating micro-step k of the backup's storage trace (before each operation, and after a write created its file empty); each crash state is checked by the property's oracles, compared with the model's prefix state, and (sampled in quick, all in thorough) resumed by a full backup; all cases non-trivial; distinct by scenario seed and k");
            c03::run(&tier, seed, &mut report);
        }
        "C04" => {
            report = Report::new("C04", "scenarios (history prefix + changed tree + small block sizes); for EVERY operation of the fault-free backup trace x {not-found, already-exists, permission-denied, other} one run with that single fault (by OpId), plus random multi-fault runs (p = 1/20, 1/5); non-trivial = at least one operation actually failed; distinct by scenario seed and plan index");
            c04::run(&tier, seed, &mut report);
        }
        "C05" => {
            report = Report::new("C05", "scenarios (history with several versions, garbage from deletes/interrupted runs); EVERY subset of (up to 5) existing versions x {dry-run, real}; for selected (thorough: all) real runs every crash point and every single failing read/list operation; non-trivial = something to delete or collect, or a crash/fault; distinct by scenario seed, subset and plan");
            c05::run(&tier, seed, &mut report);
            plumbing::c05_ids_beyond_9999(&mut report);
        }
        "C06" => {
            report = Report::new("C06", "archives with one or two complete versions plus one garbage block whose content reappears in the new source; one backup (A) and one gc / delete of the oldest version (B) under schedules 'A runs i ops, B runs j, A runs k, B runs l, then A to the end, then B' covering the window around gc's check() and the backup's mkdir exhaustively, plus random schedules; non-trivial = both actors move inside the schedule; distinct by scenario seed and schedule");
            c06::run(&tier, seed, &mut report);
        }
        "C16" => {
            report = Report::new("C16", "sandboxes (destination empty | empty set-group-ID | absent | pre-populated, with sentinels beside it) x generated source trees with symlinks aimed at the sentinels (upward, absolute, '..', '.', other entries, dangling) x histories (one version; directory replaced by an outward symlink with the second backup complete or interrupted before its tail; the D11 shape) x restore selections (version, subtree, exclusions, overwrite); non-trivial = sandbox with more than 6 nodes; distinct by canonical case text");
            c16::run(&tier, seed, &mut report);
        }
        "C17" => {
            report = Report::new("C17", "generated histories (as C02) each replayed into 4 (thorough 6) fresh archives: plain; every list_dir result shuffled by the interceptor; source created in another order under multi-thread runtimes with 1/4/16 workers; archives compared byte for byte after every step (start_time/end_time masked) and with the model; non-trivial = history with more than one backup; distinct by seed");
            c17::run(&tier, seed, &mut report);
            plumbing::c17_delete_two_faults(&mut report);
        }
        "C07" => {
            report = Report::new("C07", "a direct CreateNew test on the transport; histories (as C02, incl. interrupted and resumed backups) with byte-for-byte snapshots of the archive before/after every step; and two backups of differing sources racing on one archive under schedules (A runs i ops, B runs j, A runs k, for i,j<=10, plus random schedules); non-trivial = history with more than one backup / schedule in which both actors move; distinct by seed and schedule");
            c07::run(&tier, seed, &mut report);
            plumbing::c07_ids_beyond_9999(&mut report);
        }
        "C08" => {
            report = Report::new("C08", "archives written directly in the documented format by the harness's own encoder: every arrangement of {absent, incomplete, complete} versions over small path pools with every subset of entries cut into hunks in every way (2 and 3 versions), plus random layouts of up to 8 versions in every state (no directory, directory only, empty/junk/missing head, no index directory, open, closed, tail without readable head, unreadable tail) with empty hunks and deleted/junk/zero-length hunk files; each version listed unfiltered and with subtrees and exclusions; non-trivial = the rule's chain visits at least two versions; distinct by canonical text of layout and query");
            c08::run(&tier, seed, &mut report);
            plumbing::c08_stray_file_in_gap(&mut report);
        }
        "C09" => {
            report = Report::new("C09", "healthy side: final states of generated histories (completed and interrupted backups, deletes, gc) validated full and quick; damage side: EVERY file of scenario archives x {delete, truncate 0, truncate half, garbage} plus sampled bit flips, each followed by restore of every version and full+quick validation; all cases non-trivial; distinct by seed, file and damage");
            damage::run_c09(&tier, seed, &mut report);
        }
        "C10" => {
            report = Report::new("C10", "EVERY file (header aside) of scenario archives x {delete, truncate 0, truncate half, garbage} plus sampled bit flips; then versions, list and restore of every band, validate full and quick, and (for deleted/emptied files) a new backup + restore, each under catch_unwind and a timeout; all cases non-trivial; distinct by seed, file and damage");
            damage::run_c10(&tier, seed, &mut report);
            damage::run_c10_malformed(&tier, seed, &mut report);
        }
        "C13" => {
            report = Report::new("C13", "generated histories (as C02: option combinations, interrupted and resumed backups, deletes, gc); after EVERY mutating step the real archive is decoded by an independent reader and checked clause by clause against doc/format.md, and the Lean predicate Conforms is evaluated on it; one case per (history, step); all non-trivial");
            c13::run(&tier, seed, &mut report);
            // the JSON layer: real hunk bytes and malformed variants against Json.lean
            c13json::run(&tier, seed, &mut report);
            plumbing::c13_stray_dir_in_index(&mut report);
        }
        "C13J" => {
            // the JSON-layer step of C13 on its own (for replay and development)
            report = Report::new("C13J", "index hunks written by the real backup on generated trees with odd names, targets, owners and times, and generated entries through the real serialiser, each decoded and re-rendered by the byte-level model; plus hand-made and generated variant / malformed JSON sent to the real deserialiser and to the model; non-trivial = more than two bytes; distinct by input bytes");
            c13json::run(&tier, seed, &mut report);
        }
        "C14" => {
            report = Report::new("C14", "generated histories containing backups of unchanged trees with other options, interrupted backups followed by a resume, deletes/gc; block writes are tracked over the whole history; non-trivial = more than three steps; distinct by seed");
            c14::run(&tier, seed, &mut report);
            plumbing::c14_basis_under_stat_fault(&mut report);
        }
        "C15" => {
            report = Report::new("C15", "(pattern set, apath) pairs: 1-3 exclusion patterns built from anchored/unanchored names, *, ?, ** in every position, classes, escapes, non-ASCII names, plus malformed patterns; apaths to depth 4 over a component alphabet; and (single glob, arbitrary string) pairs; non-trivial = the real code answers true; distinct by canonical text of the case");
            c15::run(&tier, seed, &mut report);
            subtree::run_c15_trees(&tier, seed, &mut report);
            filtered::run("C15", filtered::Mode::Exclusions, &tier, &mut report);
        }
        "C01B" => {
            report = Report::new("C01B", "source mtimes (ns) put through the real backup+restore (fixed list around the epoch and the second boundary, plus random times inside the file system's range), hand-made (mtime, mtime_nanos) pairs through IndexEntry::mtime(), and rewritten index pairs through restore; all are non-trivial; distinct by canonical text");
            c01b::run(&tier, seed, &mut report);
        }
        "C18" => {
            report = Report::new("C18", "generated trees (files, dirs, symlinks, owners, modes, mtimes) backed up by the real code, then mutated by a generated mutation list; one evaluation per (tree, mutation list, include_unchanged) diff, per entry pair (diffmeta) and per second-backup event list; non-trivial = at least one mutation applied; distinct by canonical text of tree+mutations");
            c18::run(&tier, seed, &mut report);
            filtered::run("C18", filtered::Mode::Diff, &tier, &mut report);
            plumbing::c18_diff_under_read_fault(&mut report);
        }
        "BLAKE" => {
            report = Report::new("BLAKE", "BLAKE2b-512 of the Lean model vs blake2-rfc on lengths 0..=300 and block boundaries");
            blake::run(&tier, seed, &mut report);
        }
        _ => {
            eprintln!("usage: cvharness <C01..C18> [--tier quick|thorough] [--seed N] [--out file]");
            std::process::exit(2);
        }
    }
    if matches!(prop.as_str(), "C01" | "C02" | "C05" | "C06" | "C07" | "C08" | "C09" | "C10" | "C12" | "C15" | "C16" | "C18") {
        // the command-line layer, which the in-process runs above bypass
        cli::run(&prop, &tier, seed, &mut report);
    }
    let text = serde_json::to_string_pretty(&report.to_json()).unwrap();
    match out {
        Some(p) => std::fs::write(p, text).expect("write report"),
        None => println!("{text}"),
    }
}
