mod c11;
mod c12;
mod model;
mod pathgen;
mod report;
mod rng;

use report::Report;

fn arg(args: &[String], name: &str) -> Option<String> {
    args.iter().position(|a| a == name).and_then(|i| args.get(i + 1).cloned())
}

fn main() {
    let args: Vec<String> = std::env::args().collect();
    let prop = args.get(1).cloned().unwrap_or_default();
    let tier = arg(&args, "--tier").unwrap_or_else(|| "quick".into());
    let seed: u64 = arg(&args, "--seed").and_then(|s| s.parse().ok()).unwrap_or(1);
    let out = arg(&args, "--out");
    let mut report;
    match prop.as_str() {
        "C11" => {
            report = Report::new("C11", "pairs/triples of paths over a component alphabet (exhaustive to depth 2, sampled to depth 5, plus arbitrary strings); non-trivial = the two paths differ; distinct by canonical text of the case");
            c11::run(&tier, seed, &mut report);
        }
        "C12" => {
            report = Report::new("C12", "pairs (subtree, path) of valid apaths: exhaustive to depth 2, sampled extensions (by component and textual) to depth 4; non-trivial = the subtree is a textual prefix of the path");
            c12::run_pure(&tier, seed, &mut report);
        }
        _ => {
            eprintln!("usage: cvharness <C01..C18> [--tier quick|thorough] [--seed N] [--out file]");
            std::process::exit(2);
        }
    }
    let text = serde_json::to_string_pretty(&report.to_json()).unwrap();
    match out {
        Some(p) => std::fs::write(p, text).expect("write report"),
        None => println!("{text}"),
    }
}
