//! C08: listing a version follows the stitching rule and is strictly ordered.
//!
//! Layout-driven: archives are written directly in the documented format by the encoder in
//! this file (conserve never writes them), listed by the REAL `Archive::iter_entries`, and
//!  * compared with the Lean model's `list` on the same archive (read back by absarch.rs);
//!  * checked WITHOUT the model against an independent implementation of the rule in the
//!    property text, evaluated on the generated layout (not on the bytes):
//!      list:not-sorted    the listing is not strictly increasing in path order
//!      list:not-the-rule  the listing differs from the rule
//!      list:provenance    an entry is not the generating version's entry, or does not come
//!                         from the newest version of the chain that covers its path
//!      list:filter        listing with subtree/exclusions != filtered unfiltered listing
//!      list:no-termination / list:panic / list:unexpected-error
use crate::absarch::{self, HEntry, HKind, abstract_archive};
use crate::compare::*;
use crate::icept::{Icept, IceptConfig};
use crate::real::{RunResult, Sel, band_name, err_text, op_text, panic_text, real_list, transport_for};
use crate::report::Report;
use crate::rng::Rng;
use conserve::monitor::test::TestMonitor;
use conserve::{Apath, Archive, BandId, BandSelectionPolicy, Exclude, IndexEntry};
use serde_json::{Value, json};
use std::cmp::Ordering;
use std::fs;
use std::panic::AssertUnwindSafe;
use std::path::{Path, PathBuf};
use std::time::Duration;

// ------------------------------------------------------------------------------------------
// paths and their order

/// The pool of the task: exercises files-before-subdirectories, '.' < '/' < letters as bytes,
/// multi-byte names, and `~` (0x7e) below `ñ` (0xc3 0xb1).
pub const POOL8: &[&str] = &["/", "/a", "/a.b", "/ab", "/a/b", "/a/b/c", "/ñ", "/~"];
/// Extension used by part of the random layouts (content below `/ñ` and `/a.b`, a sibling `/b`).
pub const POOL_EXTRA: &[&str] = &["/a/~", "/a.b/x", "/ñ/a", "/b"];

pub const SUBTREES: &[&str] = &["/", "/a", "/ñ", "/a/b"];
pub const EXCLUDES: &[&[&str]] = &[&[], &["/a"], &["b"]];

/// The documented order, written from the format description: an entry is (directory, name);
/// all entries directly in a directory come before anything in its subdirectories; directories
/// compare component by component (bytes), names compare as bytes.
pub fn spec_cmp(a: &str, b: &str) -> Ordering {
    fn parts(p: &str) -> (Vec<&str>, &str) {
        let body = p.strip_prefix('/').unwrap_or(p);
        let mut comps: Vec<&str> = body.split('/').collect();
        let name = comps.pop().unwrap_or("");
        (comps, name)
    }
    let (da, na) = parts(a);
    let (db, nb) = parts(b);
    for i in 0..da.len().min(db.len()) {
        match da[i].as_bytes().cmp(db[i].as_bytes()) {
            Ordering::Equal => {}
            o => return o,
        }
    }
    match da.len().cmp(&db.len()) {
        // a lies directly in a directory in whose subdirectory b lies: files first
        Ordering::Less => Ordering::Less,
        Ordering::Greater => Ordering::Greater,
        Ordering::Equal => na.as_bytes().cmp(nb.as_bytes()),
    }
}

/// Whole-component ancestry (or equality).
pub fn spec_within(subtree: &str, path: &str) -> bool {
    fn comps(p: &str) -> Vec<&str> {
        p.split('/').filter(|c| !c.is_empty()).collect()
    }
    let s = comps(subtree);
    let p = comps(path);
    p.len() >= s.len() && p[..s.len()] == s[..]
}

fn sorted_pool(paths: &[&'static str]) -> Vec<&'static str> {
    let mut v: Vec<&'static str> = paths.to_vec();
    v.sort_by(|a, b| Apath::from(*a).cmp(&Apath::from(*b)));
    v
}

fn pool_order_oracle(report: &mut Report) {
    let all: Vec<&'static str> = POOL8.iter().chain(POOL_EXTRA.iter()).copied().collect();
    let by_code = sorted_pool(&all);
    let mut by_spec = all.clone();
    by_spec.sort_by(|a, b| spec_cmp(a, b));
    report.case(&format!("pool-sort {all:?}"), true);
    if by_code != by_spec {
        report.oracle_fail("order:pool-sort", json!({"pool": all}), "sorting the pool with Apath::cmp differs from the documented order", json!({"code": by_code, "spec": by_spec}));
    }
    for a in &all {
        assert!(Apath::is_valid(a), "pool path {a:?} must be valid");
        for b in &all {
            let c = Apath::from(*a).cmp(&Apath::from(*b));
            report.hit("order:pool-pair");
            if c != spec_cmp(a, b) {
                report.oracle_fail("order:pool-pair", json!({"a": a, "b": b}), "Apath::cmp differs from the documented order", json!(format!("{c:?}")));
            }
        }
    }
    report.notes.push(format!("path pool in conserve's order: {}", by_code.join(" ")));
}

// ------------------------------------------------------------------------------------------
// layouts

#[derive(Clone, Debug, PartialEq, Eq)]
pub struct Ent {
    pub path: &'static str,
    /// 'f' | 'd' | 'l'
    pub kind: char,
    /// generating band, stored as the entry's mtime; symlinks get target "t<band>"
    pub band: u32,
}

impl Ent {
    fn hentry(&self) -> HEntry {
        HEntry {
            apath: self.path.to_string(),
            kind: match self.kind {
                'f' => HKind::File,
                'd' => HKind::Dir,
                _ => HKind::Symlink,
            },
            mtime: self.band as i64,
            unix_mode: None,
            user: None,
            group: None,
            mtime_nanos: 0,
            addrs: vec![],
            target: if self.kind == 'l' { Some(format!("t{}", self.band)) } else { None },
        }
    }
    fn line(&self) -> String {
        format!("entry {}", absarch::entry_text(&self.hentry()))
    }
    /// Own encoder for the documented entry JSON.
    fn json(&self) -> String {
        let kind = match self.kind {
            'f' => "File",
            'd' => "Dir",
            _ => "Symlink",
        };
        let mut s = format!("{{\"apath\":{},\"kind\":\"{}\",\"mtime\":{},\"unix_mode\":null", serde_json::to_string(self.path).unwrap(), kind, self.band);
        if self.kind == 'l' {
            s.push_str(&format!(",\"target\":\"t{}\"", self.band));
        }
        s.push('}');
        s
    }
    fn short(&self) -> String {
        format!("{}@{}{}", self.path, self.band, self.kind)
    }
}

#[derive(Clone, Copy, Debug, PartialEq, Eq)]
pub enum FileSt {
    Absent,
    Empty,
    Junk,
    Ok,
}

fn filest_text(f: FileSt) -> &'static str {
    match f {
        FileSt::Absent => "-",
        FileSt::Empty => "empty",
        FileSt::Junk => "junk",
        FileSt::Ok => "ok",
    }
}

#[derive(Clone, Copy, Debug, PartialEq, Eq)]
pub enum HunkSt {
    Ok,
    /// the file was removed after writing
    Deleted,
    /// not snappy
    Junk,
    /// snappy of something that is not JSON
    JunkJson,
    ZeroLen,
}

#[derive(Clone, Debug)]
pub struct Hunk {
    /// what the hunk holds (or held, when the file is damaged)
    pub ents: Vec<Ent>,
    pub st: HunkSt,
}

#[derive(Clone, Debug)]
pub struct BandL {
    pub dir: bool,
    pub head: FileSt,
    /// the `i` directory exists
    pub idir: bool,
    /// number of the first hunk (0, or 9999 so that the hunks straddle the 00000/00001 subdirectories)
    pub base: u32,
    pub hunks: Vec<Hunk>,
    pub tail: FileSt,
}

impl BandL {
    fn absent() -> BandL {
        BandL { dir: false, head: FileSt::Absent, idir: false, base: 0, hunks: vec![], tail: FileSt::Absent }
    }
    fn state_name(&self) -> &'static str {
        if !self.dir {
            return "absent";
        }
        let t = self.tail != FileSt::Absent;
        match (self.head, self.idir, t) {
            (FileSt::Absent, false, false) => "dir-only",
            (FileSt::Absent, _, true) => "no-head+tail",
            (FileSt::Absent, true, false) => "no-head+index",
            (FileSt::Empty, _, false) => "empty-head",
            (FileSt::Empty, _, true) => "empty-head+tail",
            (FileSt::Junk, _, false) => "junk-head",
            (FileSt::Junk, _, true) => "junk-head+tail",
            (FileSt::Ok, false, false) => "head-only(no-index-dir)",
            (FileSt::Ok, false, true) => "head+tail(no-index-dir)",
            (FileSt::Ok, true, false) => "open(head+hunks)",
            (FileSt::Ok, true, true) => if self.tail == FileSt::Ok { "closed(head+hunks+tail)" } else { "closed(unreadable-tail)" },
        }
    }
    fn text(&self) -> String {
        if !self.dir {
            return "absent".into();
        }
        let hunks: Vec<String> = self
            .hunks
            .iter()
            .map(|h| {
                let es = h.ents.iter().map(|e| format!("{} {}", e.path, e.kind)).collect::<Vec<_>>().join(",");
                match h.st {
                    HunkSt::Ok => format!("ok({es})"),
                    HunkSt::Deleted => format!("deleted({es})"),
                    HunkSt::Junk => format!("junk({es})"),
                    HunkSt::JunkJson => format!("junkjson({es})"),
                    HunkSt::ZeroLen => format!("zerolen({es})"),
                }
            })
            .collect();
        format!("head={} i={} first-hunk={} hunks=[{}] tail={}", filest_text(self.head), if self.idir { "dir" } else { "-" }, self.base, hunks.join(" "), filest_text(self.tail))
    }
}

#[derive(Clone, Debug)]
pub struct Layout {
    pub bands: Vec<BandL>,
    /// version ids start here (0, or 9998 so that ids cross from four to five digits)
    pub id_base: u32,
}

impl Layout {
    pub fn text(&self) -> String {
        self.bands.iter().enumerate().map(|(i, b)| format!("{}: {}", band_name(self.id_base + i as u32), b.text())).collect::<Vec<_>>().join(" | ")
    }
    pub fn json(&self) -> Value {
        json!(self.bands.iter().enumerate().map(|(i, b)| format!("{}: {}", band_name(self.id_base + i as u32), b.text())).collect::<Vec<_>>())
    }
    fn get(&self, b: u32) -> Option<&BandL> {
        self.bands.get(b as usize).filter(|x| x.dir)
    }
}

// ------------------------------------------------------------------------------------------
// the encoder (documented format, none of conserve's code)

const HEADER: &[u8] = b"{\"conserve_archive_version\":\"0.6\"}\n";
const HEAD: &[u8] = b"{\"start_time\":1,\"band_format_version\":\"0.6.3\"}\n";
const JUNK_TEXT: &[u8] = b"this is not json\n";
const JUNK_SNAPPY: &[u8] = &[0xff, 0xff, 0xff, 0xff, 0x7f, 0x00, b'j', b'u', b'n', b'k'];

fn snappy(raw: &[u8]) -> Vec<u8> {
    snap::raw::Encoder::new().compress_vec(raw).expect("snappy")
}

fn init_archive(root: &Path) {
    fs::create_dir_all(root.join("d")).expect("mkdir d");
    fs::write(root.join("CONSERVE"), HEADER).expect("write header");
}

fn write_st(path: PathBuf, st: FileSt, ok: &[u8]) {
    match st {
        FileSt::Absent => {}
        FileSt::Empty => fs::write(path, b"").expect("write"),
        FileSt::Junk => fs::write(path, JUNK_TEXT).expect("write"),
        FileSt::Ok => fs::write(path, ok).expect("write"),
    }
}

/// Replace the versions of the archive at `root` by those of the layout.
fn materialize(root: &Path, l: &Layout) {
    for e in fs::read_dir(root).expect("read archive dir") {
        let e = e.expect("dir entry");
        let name = e.file_name().to_string_lossy().to_string();
        if name.starts_with('b') {
            fs::remove_dir_all(e.path()).expect("remove band");
        }
    }
    for (i, b) in l.bands.iter().enumerate() {
        if !b.dir {
            continue;
        }
        let bd = root.join(band_name(l.id_base + i as u32));
        fs::create_dir(&bd).expect("mkdir band");
        write_st(bd.join("BANDHEAD"), b.head, HEAD);
        if b.idir {
            fs::create_dir(bd.join("i")).expect("mkdir i");
            for (k, h) in b.hunks.iter().enumerate() {
                let n = b.base + k as u32;
                let sub = bd.join("i").join(format!("{:05}", n / 10000));
                if !sub.exists() {
                    fs::create_dir(&sub).expect("mkdir hunk subdir");
                }
                let bytes: Option<Vec<u8>> = match h.st {
                    HunkSt::Ok => Some(snappy(format!("[{}]", h.ents.iter().map(|e| e.json()).collect::<Vec<_>>().join(",")).as_bytes())),
                    HunkSt::Deleted => None,
                    HunkSt::Junk => Some(JUNK_SNAPPY.to_vec()),
                    HunkSt::JunkJson => Some(snappy(b"[{\"apath\": truncated")),
                    HunkSt::ZeroLen => Some(vec![]),
                };
                if let Some(bytes) = bytes {
                    fs::write(sub.join(format!("{n:09}")), bytes).expect("write hunk");
                }
            }
        } else {
            assert!(b.hunks.is_empty(), "hunks need an index directory");
        }
        let n_hunks = b.hunks.len();
        write_st(bd.join("BANDTAIL"), b.tail, format!("{{\"end_time\":2,\"index_hunk_count\":{n_hunks}}}\n").as_bytes());
    }
}

// ------------------------------------------------------------------------------------------
// the rule, from the property text, on the layout

/// Can the version be opened and its index be listed?  (head readable, index directory there)
fn readable(b: &BandL) -> bool {
    b.dir && b.head == FileSt::Ok && b.idir
}

/// A version's own entries: its decodable hunk files in hunk-number order.
fn own_entries(b: &BandL) -> Vec<Ent> {
    if !readable(b) {
        return vec![];
    }
    b.hunks.iter().filter(|h| h.st == HunkSt::Ok).flat_map(|h| h.ents.iter().cloned()).collect()
}

fn exists(b: &BandL) -> bool {
    b.dir && b.head != FileSt::Absent
}

fn complete(b: &BandL) -> bool {
    b.dir && b.tail != FileSt::Absent
}

#[derive(Clone, Debug)]
struct Visit {
    band: u32,
    /// last path taken before this version was consulted
    resume: Option<&'static str>,
    taken: usize,
}

#[derive(Clone, Debug)]
struct RuleResult {
    entries: Vec<Ent>,
    chain: Vec<Visit>,
    stopped_at_complete: bool,
}

/// "Listing version N yields N's own entries and, if N is incomplete, continues with the entries
/// of the nearest earlier existing version that sort after the last path taken so far,
/// recursively, stopping at the first complete version or when no earlier version exists."
fn rule(l: &Layout, n: u32) -> RuleResult {
    let mut out: Vec<Ent> = Vec::new();
    let mut chain = Vec::new();
    let mut last: Option<&'static str> = None;
    let mut cur = n;
    loop {
        let band = l.get(cur);
        let own = band.map(own_entries).unwrap_or_default();
        let resume = last;
        let mut taken = 0;
        for e in own {
            if resume.is_none_or(|r| spec_cmp(e.path, r) == Ordering::Greater) {
                last = Some(e.path);
                out.push(e);
                taken += 1;
            }
        }
        chain.push(Visit { band: cur, resume, taken });
        if band.is_some_and(complete) {
            return RuleResult { entries: out, chain, stopped_at_complete: true };
        }
        match (0..cur).rev().find(|b| l.get(*b).is_some_and(exists)) {
            Some(b) => cur = b,
            None => return RuleResult { entries: out, chain, stopped_at_complete: false },
        }
    }
}

fn account_layout(report: &mut Report, l: &Layout) {
    if l.id_base > 0 {
        report.hit("layout:version-ids-cross-10000");
    }
    report.hit(&format!("layout:bands={}", l.bands.len()));
    for b in &l.bands {
        report.hit(&format!("band:{}", b.state_name()));
        if b.base != 0 && !b.hunks.is_empty() {
            report.hit("band:hunks-across-subdirs(first=9999)");
        }
        let n = b.hunks.len();
        for (k, h) in b.hunks.iter().enumerate() {
            let pos = if k + 1 == n { "trailing" } else if k == 0 { "leading" } else { "middle" };
            match h.st {
                HunkSt::Ok => report.hit(if h.ents.is_empty() { "hunk:empty-array" } else { "hunk:ok" }),
                HunkSt::Deleted => report.hit(&format!("hunk:deleted-{pos}")),
                HunkSt::Junk => report.hit(&format!("hunk:junk-not-snappy-{pos}")),
                HunkSt::JunkJson => report.hit(&format!("hunk:junk-not-json-{pos}")),
                HunkSt::ZeroLen => report.hit(&format!("hunk:zero-length-{pos}")),
            }
        }
    }
}

/// Coverage of the unfiltered listing of one version: chain shape, and how each later
/// version's hunks lie with respect to the resume path.
fn account_query(report: &mut Report, l: &Layout, rr: &RuleResult) {
    report.hit(&format!("chain:len={}", rr.chain.len()));
    report.hit(if rr.stopped_at_complete { "stop:at-complete-version" } else { "stop:no-earlier-version" });
    for (i, v) in rr.chain.iter().enumerate() {
        let band = l.get(v.band);
        if i > 0 {
            report.hit(match band {
                Some(b) if readable(b) => if v.taken > 0 { "chain:later-version-contributes" } else { "chain:later-version-contributes-nothing" },
                _ => "chain:later-version-unreadable",
            });
        }
        let (Some(b), Some(r)) = (band, v.resume) else { continue };
        if !readable(b) {
            continue;
        }
        for h in b.hunks.iter().filter(|h| h.st == HunkSt::Ok) {
            let (Some(first), Some(lastp)) = (h.ents.first(), h.ents.last()) else {
                report.hit("resume:empty-hunk");
                continue;
            };
            let cf = spec_cmp(first.path, r);
            let cl = spec_cmp(lastp.path, r);
            let key = if cl == Ordering::Less {
                "resume:whole-hunk-skip"
            } else if cl == Ordering::Equal {
                if h.ents.len() == 1 { "resume:whole-hunk-skip(resume=only-entry)" } else { "resume:whole-hunk-skip(resume=last-entry)" }
            } else if cf == Ordering::Greater {
                "resume:whole-hunk-take"
            } else if cf == Ordering::Equal {
                "resume:straddle(resume=first-entry)"
            } else if h.ents.iter().any(|e| e.path == r) {
                "resume:straddle(resume=inner-entry)"
            } else {
                "resume:straddle(resume-between-entries)"
            };
            report.hit(key);
            if cf == Ordering::Greater {
                break;
            }
        }
    }
}

// ------------------------------------------------------------------------------------------
// the real code

struct Runner {
    rt: tokio::runtime::Runtime,
}

const ENTRY_LIMIT: usize = 5000;

fn index_entry_text(e: &IndexEntry) -> String {
    let v = serde_json::to_value(e).expect("entry to json");
    let h: HEntry = serde_json::from_value(v).expect("entry json shape");
    absarch::entry_text(&h)
}

fn new_rt() -> tokio::runtime::Runtime {
    tokio::runtime::Builder::new_current_thread().enable_all().build().expect("runtime")
}

/// One listing: what `real::real_list` does for `Sel::Band`, with an entry limit.
async fn list_once(archive_dir: PathBuf, ic: std::sync::Arc<Icept>, monitor: std::sync::Arc<TestMonitor>, band: u32, subtree: String, exclude: Vec<String>) -> conserve::Result<(Vec<String>, bool)> {
    let archive = Archive::open(transport_for(&archive_dir, &ic)).await?;
    let mut stitch = archive
        .iter_entries(BandSelectionPolicy::Specified(BandId::from(band)), Apath::from(subtree.as_str()), Exclude::from_strings(&exclude)?, monitor)
        .await?;
    let mut out = Vec::new();
    while let Some(e) = stitch.next().await {
        out.push(format!("entry {}", index_entry_text(&e)));
        if out.len() > ENTRY_LIMIT {
            return Ok((out, false));
        }
    }
    Ok((out, true))
}

pub struct Query {
    pub band: u32,
    pub subtree: String,
    pub exclude: Vec<String>,
}

impl Runner {
    fn new() -> Runner {
        Runner { rt: new_rt() }
    }

    /// `real::real_list` for `Sel::Band`, for several independent (read-only) listings of one
    /// archive at once: on one long-lived runtime, interleaved (the file operations of the local
    /// transport run on tokio's blocking pool, so one listing at a time is mostly waiting), and
    /// without the settle delays (listing spawns nothing); plus a time limit and an entry limit
    /// for termination.  Each listing has its own interceptor and monitor.
    fn list_many(&mut self, archive_dir: &Path, qs: &[Query]) -> Vec<RunResult> {
        let parts: Vec<(std::sync::Arc<Icept>, std::sync::Arc<TestMonitor>)> = qs.iter().map(|_| (Icept::new(IceptConfig::default()), TestMonitor::arc())).collect();
        let local = tokio::task::LocalSet::new();
        let handles: Vec<_> = qs
            .iter()
            .zip(parts.iter())
            .map(|(q, (ic, mon))| {
                let fut = list_once(archive_dir.to_path_buf(), ic.clone(), mon.clone(), q.band, q.subtree.clone(), q.exclude.clone());
                local.spawn_local(async move { tokio::time::timeout(Duration::from_secs(60), fut).await })
            })
            .collect();
        let outs = std::panic::catch_unwind(AssertUnwindSafe(|| {
            self.rt.block_on(local.run_until(async move {
                let mut v = Vec::new();
                for h in handles {
                    v.push(h.await);
                }
                v
            }))
        }));
        let outs = match outs {
            Ok(v) => v,
            Err(p) => {
                // not expected: panics of the listings are caught per task
                self.rt = new_rt();
                let text = panic_text(p);
                return parts.iter().map(|_| RunResult { result: format!("result panic {text}"), ..Default::default() }).collect();
            }
        };
        outs.into_iter()
            .zip(parts.iter())
            .map(|(r, (ic, monitor))| {
                let (result, lines) = match r {
                    Ok(Ok(Ok((lines, true)))) => ("result ok ".to_string(), lines),
                    Ok(Ok(Ok((lines, false)))) => ("result endless".to_string(), lines),
                    Ok(Ok(Err(e))) => (format!("result err {}", err_text(&e)), vec![]),
                    Ok(Err(_elapsed)) => ("result timeout".to_string(), vec![]),
                    Err(join) => (if join.is_panic() { format!("result panic {}", panic_text(join.into_panic())) } else { "result panic cancelled".to_string() }, vec![]),
                };
                let events: Vec<String> = monitor.take_errors().iter().map(|e| format!("event error {}", err_text(e))).collect();
                RunResult { trace: ic.log().iter().map(op_text).collect(), events, result, lines, steps: ic.steps(), dead: ic.dead(), injected: ic.injected() }
            })
            .collect()
    }
}

// ------------------------------------------------------------------------------------------
// one layout

struct Listed {
    path: String,
    kind: char,
    mtime: i64,
    target: Option<String>,
}

fn parse_line(l: &str) -> Option<Listed> {
    let rest = l.strip_prefix("entry ")?;
    let f: Vec<&str> = rest.split(',').collect();
    if f.len() != 9 {
        return None;
    }
    let path = String::from_utf8(hex::decode(f[0]).ok()?).ok()?;
    let target = match f[7] {
        "-" => None,
        t => Some(String::from_utf8(hex::decode(t.strip_prefix('x')?).ok()?).ok()?),
    };
    // nanos, mode, owner and addresses are never set by the generator
    if f[3] != "0" || f[4] != "-" || f[5] != "-" || f[6] != "-" || f[8] != "-" {
        return None;
    }
    Some(Listed { path, kind: f[1].chars().next()?, mtime: f[2].parse().ok()?, target })
}

fn short_lines(lines: &[String]) -> Vec<String> {
    lines.iter().map(|l| match parse_line(l) { Some(e) => format!("{}@{}{}", e.path, e.mtime, e.kind), None => l.clone() }).collect()
}

struct PendingQ {
    case: Value,
    real: RunResult,
    idx: usize,
}

struct Ctx<'a> {
    report: &'a mut Report,
    dir: PathBuf,
    runner: Runner,
    session: Session,
    pend: Vec<PendingQ>,
    /// pool paths matched by each exclusion list (by the real `Exclude`)
    excluded: Vec<Vec<&'static str>>,
    layouts: u64,
    queries: u64,
    batch: usize,
    model_secs: f64,
    t_mat: f64,
    t_abs: f64,
    t_real: f64,
}

impl Ctx<'_> {
    fn flush(&mut self) {
        if self.pend.is_empty() {
            self.session = Session::new();
            return;
        }
        let tm = std::time::Instant::now();
        let answers = self.session.run();
        self.model_secs += tm.elapsed().as_secs_f64();
        for p in self.pend.drain(..) {
            let m = parse_answer(&answers[p.idx]);
            let ev = |v: &[String]| v.iter().filter(|l| l.starts_with("event error")).cloned().collect::<Vec<_>>();
            let mut detail: Option<String> = None;
            let class = if p.real.lines != m.lines {
                "model:entries-differ"
            } else if p.real.result.trim_end() != m.result.trim_end() {
                "model:result-differs"
            } else if ev(&p.real.events) != ev(&m.events) {
                let (re, me) = (ev(&p.real.events), ev(&m.events));
                let only = |a: &[String], b: &[String]| {
                    let mut v: Vec<String> = a.iter().filter(|x| a.iter().filter(|y| y == x).count() > b.iter().filter(|y| y == x).count()).map(|x| x.trim_start_matches("event error ").to_string()).collect();
                    v.sort();
                    v.dedup();
                    v.join(",")
                };
                detail = Some(format!("model:error-events real-only={{{}}} model-only={{{}}}", only(&re, &me), only(&me, &re)));
                "model:same-entries-and-result,error-events-differ"
            } else {
                "model:agrees"
            };
            self.report.hit(class);
            if let Some(d) = detail {
                self.report.hit(&d);
            }
            let before = self.report.disagreements.len();
            let d = compare_run(self.report, "list", &p.case, &p.real, &m, &CmpOpts::default());
            if d > 0 && self.report.disagreements.len() > before {
                // make the record self-contained
                let i = self.report.disagreements.len() - 1;
                self.report.disagreements[i]["real_output"] = json!({"result": p.real.result.trim_end(), "events": p.real.events, "entries": short_lines(&p.real.lines)});
                self.report.disagreements[i]["model_output"] = json!({"result": m.result.trim_end(), "events": m.events, "entries": short_lines(&m.lines)});
            }
        }
        self.session = Session::new();
    }

    fn process(&mut self, l: &Layout, extra_filtered: u32, rng: &mut Rng) {
        let tm = std::time::Instant::now();
        materialize(&self.dir, l);
        self.t_mat += tm.elapsed().as_secs_f64();
        let ltext = l.text();
        self.layouts += 1;
        account_layout(self.report, l);
        let tm = std::time::Instant::now();
        let (state, notes) = abstract_archive(&self.dir);
        self.t_abs += tm.elapsed().as_secs_f64();
        assert!(notes.is_empty(), "the encoder wrote something outside the documented layout: {notes:?}");
        self.session.load_store(&state);

        let nb = l.bands.len() as u32;
        let mut starts: Vec<u32> = Vec::new();
        for b in 0..nb {
            if l.bands[b as usize].dir || rng.chance(1, 4) {
                starts.push(b);
            }
        }
        if rng.chance(1, 8) {
            starts.push(nb);
        }
        // every listing of this layout: (start version, subtree index, exclusion index)
        let mut plan: Vec<(u32, usize, usize)> = Vec::new();
        for n in starts {
            plan.push((n, 0, 0));
            for k in 0..2u32 {
                // quarters: 4 = always one, 5..8 = sometimes a second one
                if !rng.chance(extra_filtered.saturating_sub(4 * k).min(4), 4) {
                    continue;
                }
                let q = (n, rng.below(SUBTREES.len()), rng.below(EXCLUDES.len()));
                if (q.1, q.2) != (0, 0) && !plan.contains(&q) {
                    plan.push(q);
                }
            }
        }
        let qs: Vec<Query> = plan.iter().map(|(n, si, xi)| Query { band: l.id_base + *n, subtree: SUBTREES[*si].to_string(), exclude: EXCLUDES[*xi].iter().map(|s| s.to_string()).collect() }).collect();
        let tm = std::time::Instant::now();
        let reals = self.runner.list_many(&self.dir, &qs);
        self.t_real += tm.elapsed().as_secs_f64();

        let mut rr = rule(l, 0);
        let mut rr_for: Option<u32> = None;
        let mut unfiltered_ok = true;
        for (((n, si, xi), q), real) in plan.iter().copied().zip(qs.iter()).zip(reals) {
            if rr_for != Some(n) {
                rr = rule(l, n);
                rr_for = Some(n);
                // the listing terminates: the chain of the rule strictly descends
                assert!(rr.chain.windows(2).all(|w| w[1].band < w[0].band));
            }
            let subtree = SUBTREES[si];
            let patterns = &q.exclude;
            let excluded = self.excluded[xi].clone();
            let plain = (si, xi) == (0, 0);
            let case = json!({"op": "list", "layout": l.json(), "version": band_name(l.id_base + n), "subtree": subtree, "exclude": patterns, "excluded_pool_paths": excluded});
            self.queries += 1;
            if self.queries <= 40 || self.queries % 997 == 0 {
                // the fast runner is real::real_list minus delays: keep them identical
                let slow = real_list(&self.dir, &Sel::Band(l.id_base + n), subtree, patterns, IceptConfig::default());
                self.report.hit("runner:cross-checked-with-real_list");
                if slow.lines != real.lines || slow.events != real.events || slow.result != real.result || slow.trace != real.trace {
                    self.report.oracle_fail("harness:runner-mismatch", case.clone(), "fast runner and real::real_list differ", json!({"fast": real.result, "slow": slow.result}));
                }
            }
            let canonical = format!("{ltext} ? list {} {subtree} {patterns:?}", band_name(l.id_base + n));
            let nontrivial = rr.chain.len() >= 2;
            self.report.case(&canonical, nontrivial);
            self.report.hit(&format!("query:subtree={subtree} exclude={:?}", EXCLUDES[xi]));
            if plain {
                account_query(self.report, l, &rr);
                if self.layouts % 7 == 3 && nontrivial && !rr.entries.is_empty() {
                    self.report.sample(json!({"case": case, "real": {"result": real.result.trim_end(), "events": real.events, "entries": short_lines(&real.lines)}, "rule_chain": rr.chain.iter().map(|v| format!("{} resume={:?} taken={}", band_name(v.band), v.resume, v.taken)).collect::<Vec<_>>()}));
                }
            }
            let ok = self.oracle(l, n, &rr, subtree, &excluded, plain, unfiltered_ok, &case, &real);
            if plain {
                unfiltered_ok = ok;
            }
            // the model's turn
            let mut req = format!("list {} s:{} {}", band_name(l.id_base + n), hex::encode(subtree.as_bytes()), excluded.len());
            for x in &excluded {
                req.push_str(&format!(" s:{}", hex::encode(x.as_bytes())));
            }
            let idx = self.session.push(req);
            self.pend.push(PendingQ { case, real, idx });
        }
        if self.layouts % self.batch as u64 == 0 {
            self.flush();
        }
    }

    /// The property on the implementation, without the model.  Returns whether the listing was the rule's.
    #[allow(clippy::too_many_arguments)]
    fn oracle(&mut self, l: &Layout, n: u32, rr: &RuleResult, subtree: &str, excluded: &[&'static str], plain: bool, unfiltered_ok: bool, case: &Value, real: &RunResult) -> bool {
        let observed = |real: &RunResult, expected: &[Ent]| json!({"real_result": real.result.trim_end(), "real_events": real.events, "real": short_lines(&real.lines), "rule": expected.iter().map(|e| e.short()).collect::<Vec<_>>()});
        let expected: Vec<Ent> = rr.entries.iter().filter(|e| spec_within(subtree, e.path) && !excluded.contains(&e.path)).cloned().collect();
        if real.result.starts_with("result panic") {
            self.report.oracle_fail("list:panic", case.clone(), "listing panicked", observed(real, &expected));
            return false;
        }
        if real.result.starts_with("result timeout") || real.result.starts_with("result endless") {
            self.report.oracle_fail("list:no-termination", case.clone(), "listing did not terminate (30 s / 5000 entries)", observed(real, &expected));
            return false;
        }
        if real.result.starts_with("result err") {
            // `Archive::iter_entries` opens the requested version before stitching starts, so a
            // version whose head cannot be read is refused instead of being treated as empty.
            let start_openable = l.get(n).is_some_and(|b| b.head == FileSt::Ok);
            if start_openable || !real.lines.is_empty() {
                self.report.oracle_fail("list:unexpected-error", case.clone(), "listing a version whose head is readable failed", observed(real, &expected));
                return false;
            }
            self.report.hit(&format!("start-unreadable:refused({})", real.result.trim_start_matches("result err ").split(':').next().unwrap_or("?")));
            if plain {
                self.report.hit(if rr.entries.is_empty() { "start-unreadable:rule-lists-nothing-either" } else { "start-unreadable:rule-would-list-earlier-versions" });
            }
            return true;
        }
        // (1) strictly increasing, under the code's order and under the documented one
        let parsed: Vec<Option<Listed>> = real.lines.iter().map(|l| parse_line(l)).collect();
        if parsed.iter().any(|p| p.is_none()) {
            self.report.oracle_fail("list:provenance", case.clone(), "a listed entry carries fields no generated entry has", observed(real, &expected));
            return false;
        }
        let parsed: Vec<Listed> = parsed.into_iter().flatten().collect();
        for w in parsed.windows(2) {
            if Apath::from(w[0].path.as_str()).cmp(&Apath::from(w[1].path.as_str())) != Ordering::Less || spec_cmp(&w[0].path, &w[1].path) != Ordering::Less {
                self.report.oracle_fail("list:not-sorted", case.clone(), "listing is not strictly increasing in path order", observed(real, &expected));
                break;
            }
        }
        // (2) / (4) the rule, filtered
        let expected_lines: Vec<String> = expected.iter().map(|e| e.line()).collect();
        let is_rule = real.lines == expected_lines;
        if !is_rule {
            if plain || !unfiltered_ok {
                self.report.oracle_fail("list:not-the-rule", case.clone(), "listing differs from the stitching rule evaluated on the layout", observed(real, &expected));
            } else {
                self.report.oracle_fail("list:filter", case.clone(), "filtered listing differs from the filtered unfiltered listing", observed(real, &expected));
            }
        }
        // (3) provenance, entry by entry, stated without the rule's evaluation order
        let chain_bands: Vec<u32> = rr.chain.iter().map(|v| v.band).collect();
        for e in &parsed {
            let src = u32::try_from(e.mtime).ok().filter(|b| chain_bands.contains(b)).and_then(|b| l.get(b).map(|x| (b, x)));
            let problem = match src {
                None => Some("marker names a version outside the chain".to_string()),
                Some((b, band)) => {
                    let own = own_entries(band);
                    match own.iter().find(|o| o.path == e.path) {
                        None => Some(format!("{} has no entry for this path", band_name(b))),
                        Some(o) if o.kind != e.kind || o.hentry().target != e.target || o.band as i64 != e.mtime => Some(format!("entry differs from the one stored in {}", band_name(b))),
                        Some(_) => {
                            // no newer version of the chain covers the path: their indexes end before it
                            let newer_covering = chain_bands.iter().filter(|c| **c > b).find(|c| {
                                l.get(**c).map(own_entries).unwrap_or_default().last().is_some_and(|last| spec_cmp(last.path, &e.path) != Ordering::Less)
                            });
                            newer_covering.map(|c| format!("{} is newer, is in the chain and covers the path", band_name(*c)))
                        }
                    }
                }
            };
            if let Some(p) = problem {
                self.report.oracle_fail("list:provenance", case.clone(), &format!("{}: {p}", e.path), observed(real, &expected));
                break;
            }
        }
        self.report.hit(if expected.is_empty() { "listing:empty" } else { "listing:non-empty" });
        is_rule
    }
}

// ------------------------------------------------------------------------------------------
// generators

fn kind_for(rng: &mut Rng, path: &str) -> char {
    if path == "/" { 'd' } else { *rng.pick(&['f', 'd', 'l']) }
}

fn gen_band(rng: &mut Rng, b: u32, pool: &[&'static str]) -> BandL {
    let pick_bad = |rng: &mut Rng| *rng.pick(&[FileSt::Absent, FileSt::Junk, FileSt::Empty]);
    let (head, idir, tail) = match rng.below(100) {
        0..=9 => return BandL::absent(),
        10..=13 => (FileSt::Absent, false, FileSt::Absent),
        14..=17 => (FileSt::Empty, rng.chance(1, 2), FileSt::Absent),
        18..=21 => (FileSt::Junk, rng.chance(1, 2), FileSt::Absent),
        22..=27 => (FileSt::Ok, false, FileSt::Absent),
        28..=67 => (FileSt::Ok, true, FileSt::Absent),
        68..=87 => (FileSt::Ok, true, FileSt::Ok),
        88..=90 => (pick_bad(rng), true, FileSt::Ok),
        91..=92 => (FileSt::Ok, false, FileSt::Ok),
        93..=95 => (FileSt::Ok, true, *rng.pick(&[FileSt::Junk, FileSt::Empty])),
        _ => (FileSt::Absent, true, FileSt::Absent),
    };
    let mut band = BandL { dir: true, head, idir, base: 0, hunks: vec![], tail };
    if !idir {
        return band;
    }
    let density = 1 + rng.below(4);
    let mut ents: Vec<Ent> = Vec::new();
    for p in pool {
        if rng.below(4) < density {
            ents.push(Ent { path: p, kind: kind_for(rng, p), band: b });
        }
    }
    if rng.chance(1, 3) && !ents.is_empty() {
        // an interrupted backup holds a prefix
        let keep = rng.below(ents.len() + 1);
        ents.truncate(keep);
    }
    let mut hunks: Vec<Vec<Ent>> = Vec::new();
    if ents.is_empty() {
        if rng.chance(1, 3) {
            hunks.push(vec![]);
        }
    } else {
        let cut_den = *rng.pick(&[1u32, 2, 2, 3, 6]);
        let mut cur: Vec<Ent> = Vec::new();
        if rng.chance(1, 10) {
            hunks.push(vec![]);
        }
        for e in ents {
            if !cur.is_empty() && rng.chance(1, cut_den) {
                hunks.push(std::mem::take(&mut cur));
                if rng.chance(1, 10) {
                    hunks.push(vec![]);
                }
            }
            cur.push(e);
        }
        hunks.push(cur);
        if rng.chance(1, 10) {
            hunks.push(vec![]);
        }
    }
    band.hunks = hunks.into_iter().map(|ents| Hunk { ents, st: HunkSt::Ok }).collect();
    if !band.hunks.is_empty() && rng.chance(1, 3) {
        let damages = if rng.chance(1, 6) { 2 } else { 1 };
        for _ in 0..damages {
            let n = band.hunks.len();
            let k = match rng.below(3) {
                0 => n - 1,
                1 => n / 2,
                _ => rng.below(n),
            };
            band.hunks[k].st = *rng.pick(&[HunkSt::Deleted, HunkSt::Deleted, HunkSt::Junk, HunkSt::JunkJson, HunkSt::ZeroLen]);
        }
    }
    if rng.chance(1, 12) {
        band.base = 9999;
    }
    band
}

fn gen_layout(rng: &mut Rng, max_bands: usize, pool8: &[&'static str], pool12: &[&'static str]) -> Layout {
    let nb = 1 + rng.below(max_bands);
    let pool = if rng.chance(3, 5) { pool8 } else { pool12 };
    // sometimes a smaller window of the pool, so that versions overlap more
    let pool: Vec<&'static str> = if rng.chance(1, 4) {
        let k = 2 + rng.below(pool.len() - 2);
        let start = rng.below(pool.len() - k + 1);
        pool[start..start + k].to_vec()
    } else {
        pool.to_vec()
    };
    let bands: Vec<BandL> = (0..nb).map(|b| gen_band(rng, b as u32, &pool)).collect();
    // ids crossing from four to five digits (b9998 … b10001) — only when the oldest version is complete, so that
    // no listing walks down through ten thousand absent ids one stat at a time (correct, but slow)
    let oldest_complete = bands.first().is_some_and(|b| b.dir && b.head == FileSt::Ok && b.idir && b.tail == FileSt::Ok);
    Layout { bands, id_base: if oldest_complete && rng.chance(1, 3) { 9998 } else { 0 } }
}

/// Every configuration of one version over a (sorted) pool: absent, or {incomplete, complete} x
/// every subset of the pool x every way to cut it into non-empty hunks.
fn band_configs(pool: &[&'static str]) -> Vec<Option<(bool, Vec<Vec<&'static str>>)>> {
    let mut out = vec![None];
    let n = pool.len();
    for mask in 0..(1u32 << n) {
        let chosen: Vec<&'static str> = (0..n).filter(|i| mask & (1 << i) != 0).map(|i| pool[i]).collect();
        let k = chosen.len();
        let cuts: Vec<Vec<Vec<&'static str>>> = if k == 0 {
            vec![vec![]]
        } else {
            (0..(1u32 << (k - 1)))
                .map(|cm| {
                    let mut hunks = vec![vec![chosen[0]]];
                    for (i, p) in chosen.iter().enumerate().skip(1) {
                        if cm & (1 << (i - 1)) != 0 {
                            hunks.push(vec![]);
                        }
                        hunks.last_mut().unwrap().push(*p);
                    }
                    hunks
                })
                .collect()
        };
        for c in cuts {
            for closed in [false, true] {
                out.push(Some((closed, c.clone())));
            }
        }
    }
    out
}

fn exhaustive(cx: &mut Ctx, nb: usize, pool: &[&'static str]) -> u64 {
    let pool = sorted_pool(pool);
    let cfgs = band_configs(&pool);
    let mut idx = vec![0usize; nb];
    let mut count = 0u64;
    loop {
        let bands: Vec<BandL> = idx
            .iter()
            .enumerate()
            .map(|(b, i)| match &cfgs[*i] {
                None => BandL::absent(),
                Some((closed, hunks)) => BandL {
                    dir: true,
                    head: FileSt::Ok,
                    idir: true,
                    base: 0,
                    hunks: hunks.iter().map(|h| Hunk { ents: h.iter().map(|p| Ent { path: p, kind: if *p == "/" { 'd' } else { 'f' }, band: b as u32 }).collect(), st: HunkSt::Ok }).collect(),
                    tail: if *closed { FileSt::Ok } else { FileSt::Absent },
                },
            })
            .collect();
        let l = Layout { bands, id_base: 0 };
        let mut rng = Rng::new(0xC08 ^ count);
        cx.process(&l, 1, &mut rng);
        count += 1;
        // next index vector
        let mut k = 0;
        loop {
            if k == nb {
                cx.report.hit_n(&format!("exhaustive:{}-versions-over-{:?}", nb, pool), count);
                return count;
            }
            idx[k] += 1;
            if idx[k] < cfgs.len() {
                break;
            }
            idx[k] = 0;
            k += 1;
        }
    }
}

pub fn run(tier: &str, seed: u64, report: &mut Report) {
    let thorough = tier == "thorough";
    pool_order_oracle(report);
    // thousands of small archives: prefer a memory file system when there is one
    let work = if Path::new("/dev/shm").is_dir() { tempfile::tempdir_in("/dev/shm").or_else(|_| tempfile::tempdir()) } else { tempfile::tempdir() }.expect("tempdir");
    let dir = work.path().join("arch");
    init_archive(&dir);
    let all: Vec<&'static str> = POOL8.iter().chain(POOL_EXTRA.iter()).copied().collect();
    let excluded: Vec<Vec<&'static str>> = EXCLUDES
        .iter()
        .map(|pats| {
            let ex = Exclude::from_strings(pats.iter()).expect("exclude patterns");
            all.iter().copied().filter(|p| ex.matches(*p)).collect()
        })
        .collect();
    let t0 = std::time::Instant::now();
    let mut cx = Ctx { report, dir, runner: Runner::new(), session: Session::new(), pend: Vec::new(), excluded, layouts: 0, queries: 0, batch: 400, model_secs: 0.0, t_mat: 0.0, t_abs: 0.0, t_real: 0.0 };

    // exhaustive for small bounds: every arrangement of {absent, incomplete, complete} versions
    // whose entries are any subset of a small pool cut into hunks in every way
    let (p2, p3): (&[&'static str], &[&'static str]) = if thorough { (&["/", "/a", "/ab", "/a/b"], &["/", "/ab", "/a/b"]) } else { (&["/", "/ab", "/a/b"], &["/ab", "/a/b"]) };
    let e2 = exhaustive(&mut cx, 2, p2);
    let e3 = exhaustive(&mut cx, 3, p3);
    cx.flush();
    let t_exh = t0.elapsed();

    // random: up to 8 versions in every state, damaged hunks, empty hunks, both pools
    let pool8 = sorted_pool(POOL8);
    let pool12 = sorted_pool(&all);
    let n_random = if thorough { 25_000 } else { 2_000 };
    for i in 0..n_random {
        let mut rng = Rng::new(seed.wrapping_mul(1_000_003).wrapping_add(i as u64) ^ 0xC08);
        let l = gen_layout(&mut rng, 8, &pool8, &pool12);
        cx.process(&l, 4, &mut rng);
    }
    cx.flush();
    let (layouts, queries) = (cx.layouts, cx.queries);
    let timing = format!("materialize {:.1} s, read back {:.1} s, real listings {:.1} s, model {:.1} s", cx.t_mat, cx.t_abs, cx.t_real, cx.model_secs);
    report.notes.push(format!(
        "{layouts} layouts ({e2} exhaustive over 2 versions, {e3} exhaustive over 3 versions, {n_random} random with up to 8 versions), {queries} listings; exhaustive part {:.1} s, total {:.1} s ({timing})",
        t_exh.as_secs_f64(),
        t0.elapsed().as_secs_f64()
    ));
    report.notes.push("a requested version whose BANDHEAD is missing/empty/junk is refused with an error by Archive::iter_entries (it opens the version before stitching starts); counted under start-unreadable:*, the rule is only checked on listings that succeed".to_string());
}
