//! C13 (JSON layer): the bytes of index hunks, as the real code writes and reads them, against the
//! byte-level model `ConserveModel/Json.lean` (`renderHunk`, `parseHunk`).
//!
//! (a) real archives written by the real backup on generated trees (odd names, targets, owners,
//!     times, many addresses): every index hunk is decompressed and its raw JSON is sent to the model;
//!     the model must accept it, decode the same entries as the independent decoder (absarch) and as
//!     the real `serde_json::from_slice::<Vec<IndexEntry>>`, and `renderHunk` of what it decoded must be
//!     byte-identical to what the real code wrote.
//! (a') generated `IndexEntry` values over the whole range of the field types, serialised by the real
//!     `serde_json::to_vec`: same three checks (reaches values a backup never produces).
//! (b) a variant / malformed stream: hand-made and generated JSON texts (reordered members, whitespace,
//!     missing / unknown / duplicate members, escapes, number forms, other encodings serde accepts,
//!     truncation, trailing bytes, byte-level damage) sent to the real deserialiser and to the model:
//!     accept/reject and the decoded entries must agree.
use crate::absarch;
use crate::hist::{gen_params, mutate_tree};
use crate::icept::IceptConfig;
use crate::model::{run_model, s as shex};
use crate::real::{BackupParams, create_archive, real_backup};
use crate::report::Report;
use crate::rng::Rng;
use crate::treespec::*;
use conserve::{Archive, Band, BandId, Error, IndexEntry};
use crate::real::block_on_catch;
use serde_json::{Value, json};
use std::path::Path;

/// The text form of one entry as the real deserialiser sees it (same route as `real.rs`).
fn real_entry_text(e: &IndexEntry) -> String {
    let v = serde_json::to_value(e).expect("entry to json");
    let h: absarch::HEntry = serde_json::from_value(v).expect("entry json shape");
    absarch::entry_text(&h)
}

/// What the real code makes of raw hunk JSON: `Some(entry texts)` or `None` (rejected).
fn real_decode(raw: &[u8]) -> Option<Vec<String>> {
    serde_json::from_slice::<Vec<IndexEntry>>(raw).ok().map(|es| es.iter().map(real_entry_text).collect())
}

/// The model's answer to `jsonhunk`: `Some((entry texts, rerender_same))` or `None` (reject).
fn model_decode(ans: &[String]) -> Result<Option<(Vec<String>, bool)>, String> {
    match ans.first().map(|s| s.as_str()) {
        Some("reject") => Ok(None),
        Some(l) if l.starts_with("ok ") => {
            let n: usize = l[3..].parse().map_err(|_| format!("bad count line {l}"))?;
            if ans.len() != n + 2 {
                return Err(format!("{} lines for {n} entries", ans.len()));
            }
            let es: Vec<String> = ans[1..=n].iter().map(|l| l.strip_prefix("entry ").unwrap_or(l).to_string()).collect();
            match ans[n + 1].as_str() {
                "rerender same" => Ok(Some((es, true))),
                "rerender different" => Ok(Some((es, false))),
                other => Err(format!("bad last line {other}")),
            }
        }
        other => Err(format!("unexpected answer {other:?}")),
    }
}

fn show(raw: &[u8]) -> Value {
    let cut = &raw[..raw.len().min(600)];
    json!({"len": raw.len(), "text": String::from_utf8_lossy(cut), "hex": hex::encode(cut)})
}

// ---------------------------------------------------------------------------------------------
// (a) real archives

const ODD_NAMES: &[&str] = &[
    "q\"uote", "back\\slash", "tab\there", "nl\nline", "cr\rx", "bell\x07", "\x01", "\x1f", "del\x7f", "\x08\x0c", "\x0b\x0e", "é", "日本語", "😀",
    "\u{10FFFF}", "\u{80}", "\u{7ff}\u{800}", "\u{FFFF}", "\u{D7FF}\u{E000}", "a\\u0041", "\\\"", "\\\\", "{\"apath\":1}", "[", "]", ",", ":", " lead", "trail ",
    "null", "\"", "\\", "'", "\\n", "\u{2028}", "\u{feff}bom", "a\x1bb",
];
const ODD_TARGETS: &[&str] = &[
    "plain", "../up", "/abs/\"q\"", "back\\slash\\", "ctl\x01\x02\x1f", "tab\tnl\n", "ñ/日本/😀", "", " ", "\\u0000", "a\x7fb", "\u{10FFFF}", "//", "\x08\x0c\r",
];
/// (uid, gid): known names, unknown ids (owner member absent or half-present).
const ODD_OWNERS: &[(u32, u32)] = &[(0, 0), (1, 1), (0, 54321), (54321, 0), (54321, 54321), (2, 8)];

fn odd_name(rng: &mut Rng) -> String {
    match rng.below(10) {
        0 => "x".repeat(*rng.pick(&[200usize, 254, 255])),
        1 => "é".repeat(*rng.pick(&[100usize, 127])),
        2 => format!("{}\"{}\\", "n".repeat(rng.below(40)), "\x01".repeat(rng.below(30) + 1)),
        3 | 4 => gen_name(rng),
        5 => {
            // random short string over a risky alphabet
            let n = 1 + rng.below(6);
            (0..n).map(|_| *rng.pick(&['"', '\\', '\x00', '\x01', '\t', '\n', '\x1f', ' ', 'a', 'u', '0', 'é', '😀', '\x7f', '{', '}'])).filter(|c| *c != '\x00').collect()
        }
        _ => rng.pick(ODD_NAMES).to_string(),
    }
}

fn valid_name(n: &str) -> bool {
    !n.is_empty() && n != "." && n != ".." && !n.contains('/') && !n.contains('\0') && n.len() <= 255
}

fn gen_odd_tree(rng: &mut Rng, go: &GenOpts, max_nodes: usize) -> Tree {
    let mut t = Tree::default();
    t.nodes.insert("/".into(), Node { comps: vec![], kind: NodeKind::Dir, mode: 0o755, mtime_ns: gen_mtime(rng, go), uid: 0, gid: 0 });
    let mut dirs: Vec<Vec<String>> = vec![vec![]];
    let n = 1 + rng.below(max_nodes);
    for _ in 0..n {
        let parent = rng.pick(&dirs).clone();
        if parent.len() >= 3 {
            continue;
        }
        let name = odd_name(rng);
        if !valid_name(&name) {
            continue;
        }
        let mut comps = parent;
        comps.push(name);
        let apath = format!("/{}", comps.join("/"));
        if apath.len() > 900 || t.nodes.contains_key(&apath) {
            continue;
        }
        let kind = match rng.below(10) {
            0..=4 => {
                if rng.chance(1, 5) {
                    // many addresses with small blocks
                    let n = 30 + rng.below(200);
                    NodeKind::File((0..n).map(|i| (i * 7 + 3) as u8).collect())
                } else {
                    NodeKind::File(gen_content(rng, go))
                }
            }
            5..=6 => NodeKind::Dir,
            _ => {
                let t = if rng.chance(1, 8) { format!("{}\"\\\x01", "t".repeat(300 + rng.below(500))) } else { rng.pick(ODD_TARGETS).to_string() };
                if t.is_empty() { NodeKind::Symlink("e".into()) } else { NodeKind::Symlink(t) }
            }
        };
        if kind == NodeKind::Dir {
            dirs.push(comps.clone());
        }
        let (uid, gid) = *rng.pick(ODD_OWNERS);
        let is_dir = kind == NodeKind::Dir;
        t.nodes.insert(apath, Node { comps, kind, mode: gen_mode(rng, go, is_dir), mtime_ns: gen_mtime(rng, go), uid, gid });
    }
    t
}

fn hunk_files(arch: &Path) -> Vec<std::path::PathBuf> {
    let mut out = Vec::new();
    let Ok(rd) = std::fs::read_dir(arch) else { return out };
    for band in rd.flatten().filter(|e| e.file_name().to_string_lossy().starts_with('b')) {
        let Ok(subs) = std::fs::read_dir(band.path().join("i")) else { continue };
        for sub in subs.flatten() {
            if let Ok(fs) = std::fs::read_dir(sub.path()) {
                out.extend(fs.flatten().map(|f| f.path()));
            }
        }
    }
    out.sort();
    out
}

struct Pending {
    /// model request verb: jsonhunk | jsonhead | jsontail
    verb: &'static str,
    case: Value,
    raw: Vec<u8>,
    /// entries by the independent decoder (None = it rejects), entries by the real deserialiser
    indep: Option<Vec<String>>,
    real: Option<Vec<String>>,
    /// the bytes come from the real serialiser: the model's renderer must reproduce them
    written_by_real: bool,
    sig: &'static str,
}

fn indep_decode_raw(raw: &[u8]) -> Option<Vec<String>> {
    let compressed = snap::raw::Encoder::new().compress_vec(raw).ok()?;
    absarch::decode_hunk(&compressed).map(|es| es.iter().map(absarch::entry_text).collect())
}

fn entry_features(report: &mut Report, texts: &[String], raw: &[u8]) {
    for t in texts {
        let f: Vec<&str> = t.split(',').collect();
        if f.len() != 9 {
            continue;
        }
        let ap = hex::decode(f[0]).unwrap_or_default();
        if ap.iter().any(|b| *b == b'"') { report.hit("json:apath-with-quote"); }
        if ap.iter().any(|b| *b == b'\\') { report.hit("json:apath-with-backslash"); }
        if ap.iter().any(|b| *b < 0x20) { report.hit("json:apath-with-control-byte"); }
        if ap.iter().any(|b| *b >= 0x80) { report.hit("json:apath-non-ascii"); }
        if ap.iter().any(|b| *b >= 0xf0) { report.hit("json:apath-4-byte-utf8"); }
        if ap.len() > 200 { report.hit("json:apath-long"); }
        report.hit(&format!("json:kind-{}", f[1]));
        if f[2].starts_with('-') { report.hit("json:mtime-negative"); }
        if f[3] != "0" { report.hit("json:mtime_nanos-present"); } else { report.hit("json:mtime_nanos-absent"); }
        if f[4] == "-" { report.hit("json:unix_mode-null"); }
        match (f[5] != "-", f[6] != "-") {
            (true, true) => report.hit("json:owner-both"),
            (true, false) => report.hit("json:owner-user-only"),
            (false, true) => report.hit("json:owner-group-only"),
            (false, false) => report.hit("json:owner-absent"),
        }
        if f[7] != "-" {
            let tg = hex::decode(&f[7][1..]).unwrap_or_default();
            if tg.iter().any(|b| *b == b'"' || *b == b'\\' || *b < 0x20) { report.hit("json:target-with-escapes"); }
            if tg.len() > 200 { report.hit("json:target-long"); }
        }
        if f[8] != "-" {
            let n = f[8].split('+').count();
            report.hit(if n >= 20 { "json:addrs-20+" } else if n >= 2 { "json:addrs-2..19" } else { "json:addrs-1" });
            if f[8].split('+').any(|a| a.split(':').nth(1) != Some("0")) { report.hit("json:addr-start-nonzero"); }
        }
    }
    if raw.len() > 20000 { report.hit("json:hunk>20kB"); }
}

fn part_a_archives(thorough: bool, seed: u64, report: &mut Report, pend: &mut Vec<Pending>) {
    let n_trees = if thorough { 150 } else { 14 };
    for i in 0..n_trees {
        let case_seed = seed.wrapping_mul(2654435761).wrapping_add(1000 + i as u64);
        let mut rng = Rng::new(case_seed);
        let go = GenOpts { max_nodes: 20, block: 16, cap: 8, pre_epoch_fraction: true, ..Default::default() };
        let work = tempfile::tempdir().expect("tempdir");
        let arch = work.path().join("arch");
        create_archive(&arch);
        let mut tree = gen_odd_tree(&mut rng, &go, if i % 5 == 4 { 120 } else { 24 });
        let mut clock = 1_700_000_000_000_000_000i64;
        let n_backups = 1 + rng.below(3);
        for b in 0..n_backups {
            let src = work.path().join(format!("src{b}"));
            tree.materialize(&src);
            let lite = gen_params(&mut rng);
            let params = BackupParams { owner: !rng.chance(1, 5), ..lite.params() };
            let r = real_backup(&arch, &src, &params, IceptConfig::default());
            report.hit(if r.result.starts_with("result ok") { "json:backup-ok" } else { "json:backup-not-ok" });
            tree = mutate_tree(&mut rng, &tree, &go, &mut clock);
        }
        for h in hunk_files(&arch) {
            let bytes = std::fs::read(&h).unwrap_or_default();
            if bytes.is_empty() {
                continue;
            }
            let rel = h.strip_prefix(&arch).unwrap().to_string_lossy().to_string();
            let case = json!({"stream": "real-archive", "case_seed": case_seed, "hunk": rel});
            let Ok(raw) = snap::raw::Decoder::new().decompress_vec(&bytes) else {
                report.oracle_fail("json:hunk-not-snappy", case, "an index hunk written by the real backup does not decompress", json!(bytes.len()));
                continue;
            };
            let indep = absarch::decode_hunk(&bytes).map(|es| es.iter().map(absarch::entry_text).collect::<Vec<_>>());
            let real = real_decode(&raw);
            if let Some(es) = &indep {
                entry_features(report, es, &raw);
            }
            report.hit("json:stream-real-archive-hunk");
            pend.push(Pending { verb: "jsonhunk", case, raw, indep, real, written_by_real: true, sig: "json:archive" });
        }
        // band heads and tails of the same archives
        if let Ok(rd) = std::fs::read_dir(&arch) {
            for band in rd.flatten().filter(|e| e.file_name().to_string_lossy().starts_with('b')) {
                for (file, verb) in [("BANDHEAD", "jsonhead"), ("BANDTAIL", "jsontail")] {
                    let Ok(raw) = std::fs::read(band.path().join(file)) else { continue };
                    if raw.is_empty() {
                        continue;
                    }
                    let text = indep_headtail(verb, &raw);
                    let case = json!({"stream": "real-archive", "case_seed": case_seed, "file": format!("{}/{file}", band.file_name().to_string_lossy())});
                    report.hit(&format!("json:stream-real-archive-{}", file.to_lowercase()));
                    pend.push(Pending { verb, case, raw, indep: text.clone().map(|t| vec![t]), real: text.map(|t| vec![t]), written_by_real: true, sig: "json:archive-band" });
                }
            }
        }
    }
}

// ---------------------------------------------------------------------------------------------
// (a') generated entries through the real serialiser

fn gen_string(rng: &mut Rng) -> String {
    match rng.below(8) {
        0 => String::new(),
        1 => rng.pick(ODD_NAMES).to_string(),
        2 => rng.pick(ODD_TARGETS).to_string(),
        3 => (0..rng.below(40)).map(|_| char::from_u32(rng.below(0x20) as u32).unwrap()).collect(),
        4 => {
            let pool = ['\u{0}', '\u{7f}', '\u{80}', '\u{7ff}', '\u{800}', '\u{d7ff}', '\u{e000}', '\u{ffff}', '\u{10000}', '\u{10ffff}', '"', '\\', '/', 'a'];
            (0..rng.below(12)).map(|_| *rng.pick(&pool)).collect()
        }
        5 => "long\"\\\n".repeat(rng.below(200)),
        _ => format!("/{}", gen_name(rng)),
    }
}

fn gen_u64(rng: &mut Rng) -> u64 {
    match rng.below(6) {
        0 => 0,
        1 => u64::MAX,
        2 => *rng.pick(&[1u64, 9, 10, 99, 100, 4294967295, 4294967296, 9223372036854775807, 9223372036854775808, 10000000000000000000, 18446744073709551614]),
        3 => rng.next_u64(),
        _ => rng.below(100000) as u64,
    }
}

fn gen_i64(rng: &mut Rng) -> i64 {
    match rng.below(6) {
        0 => 0,
        1 => *rng.pick(&[i64::MIN, i64::MAX, -1, 1, -9, -10, -377705023201, 253402207200, i64::MIN + 1]),
        2 => rng.next_u64() as i64,
        3 => -(rng.below(2_000_000_000) as i64),
        _ => rng.below(2_000_000_000) as i64,
    }
}

/// A JSON value describing an entry; the real `IndexEntry` is made from it by the real deserialiser
/// (UnixMode and BlockHash have private insides), then written by the real serialiser.
fn gen_entry_value(rng: &mut Rng) -> Value {
    let mut m = serde_json::Map::new();
    m.insert("apath".into(), json!(gen_string(rng)));
    m.insert("kind".into(), json!(*rng.pick(&["File", "Dir", "Symlink", "Unknown"])));
    if rng.chance(4, 5) { m.insert("mtime".into(), json!(gen_i64(rng))); }
    if rng.chance(4, 5) {
        m.insert("unix_mode".into(), if rng.chance(1, 4) { Value::Null } else { json!(*rng.pick(&[0u32, 0o644, 0o7777, 4095, 4096, u32::MAX, 65535])) });
    }
    match rng.below(5) {
        0 => {}
        1 => { m.insert("user".into(), json!(gen_string(rng))); }
        2 => { m.insert("group".into(), json!(gen_string(rng))); }
        3 => { m.insert("user".into(), Value::Null); m.insert("group".into(), Value::Null); }
        _ => { m.insert("user".into(), json!(gen_string(rng))); m.insert("group".into(), json!(gen_string(rng))); }
    }
    if rng.chance(1, 2) {
        m.insert("mtime_nanos".into(), json!(*rng.pick(&[0u32, 1, 999_999_999, 1_000_000_000, u32::MAX, 2147483647, 2147483648, 123456789])));
    }
    if rng.chance(1, 2) {
        let n = if rng.chance(1, 6) { 40 + rng.below(60) } else { rng.below(4) };
        let addrs: Vec<Value> = (0..n)
            .map(|_| {
                let hash: String = (0..128).map(|_| *rng.pick(&['0', '1', '2', '3', '4', '5', '6', '7', '8', '9', 'a', 'b', 'c', 'd', 'e', 'f'])).collect();
                let mut a = serde_json::Map::new();
                a.insert("hash".into(), json!(hash));
                if rng.chance(1, 2) { a.insert("start".into(), json!(gen_u64(rng))); }
                a.insert("len".into(), json!(gen_u64(rng)));
                Value::Object(a)
            })
            .collect();
        m.insert("addrs".into(), Value::Array(addrs));
    }
    if rng.chance(1, 3) {
        m.insert("target".into(), if rng.chance(1, 6) { Value::Null } else { json!(gen_string(rng)) });
    }
    Value::Object(m)
}

fn part_a_generated(thorough: bool, seed: u64, report: &mut Report, pend: &mut Vec<Pending>) {
    let n = if thorough { 6000 } else { 600 };
    let mut rng = Rng::new(seed.wrapping_mul(40503).wrapping_add(77));
    for i in 0..n {
        let k = match rng.below(6) { 0 => 0, 1 => 1, 2 => 2, _ => 1 + rng.below(6) };
        let vals: Vec<Value> = (0..k).map(|_| gen_entry_value(&mut rng)).collect();
        // (through text: BlockHash only deserialises from a borrowed string)
        let entries: Vec<IndexEntry> = match serde_json::from_slice(&serde_json::to_vec(&Value::Array(vals.clone())).unwrap()) {
            Ok(es) => es,
            Err(e) => {
                report.notes.push(format!("c13json: generated entry value not accepted by the real deserialiser: {e}"));
                continue;
            }
        };
        let raw = serde_json::to_vec(&entries).expect("serialise entries");
        let real = real_decode(&raw);
        let indep = indep_decode_raw(&raw);
        if let Some(es) = &real {
            entry_features(report, es, &raw);
        }
        report.hit("json:stream-generated-entries-real-serialiser");
        pend.push(Pending { verb: "jsonhunk", case: json!({"stream": "generated-entries", "seed": seed, "index": i}), raw, indep, real, written_by_real: true, sig: "json:generated" });
    }
}

// ---------------------------------------------------------------------------------------------
// (b) variants and malformed input

const H: &str = "00112233445566778899aabbccddeeff00112233445566778899aabbccddeeff00112233445566778899aabbccddeeff00112233445566778899aabbccddeeff";

fn hand_made() -> Vec<(String, Vec<u8>)> {
    let hu = H.to_uppercase();
    let mut v: Vec<(String, String)> = Vec::new();
    let mut add = |tag: &str, text: String| v.push((tag.to_string(), text));
    let base = r#"{"apath":"/a","kind":"File","mtime":5,"unix_mode":420}"#;
    add("plain", format!("[{base}]"));
    add("empty-array", "[]".into());
    add("empty-array-ws", " \t\r\n[ \n ] \n".into());
    add("empty-input", "".into());
    add("only-ws", "  ".into());
    add("not-array", base.to_string());
    add("null", "null".into());
    add("reordered", r#"[{"unix_mode":420,"mtime":5,"kind":"File","apath":"/a"}]"#.into());
    add("whitespace-everywhere", " [ { \"apath\" : \"/a\" , \"kind\" : \"File\" ,\n\"mtime\" :\t5 , \"unix_mode\" : 420 } ] ".into());
    add("vertical-tab-ws", "[\x0b{\"apath\":\"/a\",\"kind\":\"File\"}]".into());
    add("formfeed-ws", "[\x0c{\"apath\":\"/a\",\"kind\":\"File\"}]".into());
    add("nbsp-ws", "[\u{a0}{\"apath\":\"/a\",\"kind\":\"File\"}]".into());
    add("bom", "\u{feff}[]".into());
    add("only-required", r#"[{"apath":"/a","kind":"Dir"}]"#.into());
    add("missing-apath", r#"[{"kind":"Dir"}]"#.into());
    add("missing-kind", r#"[{"apath":"/a"}]"#.into());
    add("empty-object", "[{}]".into());
    add("unknown-field", r#"[{"apath":"/a","kind":"Dir","zzz":1}]"#.into());
    add("unknown-field-nested", r#"[{"apath":"/a","kind":"Dir","zzz":{"a":[1,2,{"b":null}],"c":"d"}}]"#.into());
    add("unknown-field-float", r#"[{"apath":"/a","kind":"Dir","zzz":[1.5,-0,1e3,1E-3,0.0,-1.25e+7]}]"#.into());
    add("unknown-field-1e999", r#"[{"apath":"/a","kind":"Dir","zzz":1e999}]"#.into());
    add("unknown-field-1e308", r#"[{"apath":"/a","kind":"Dir","zzz":1e308}]"#.into());
    add("unknown-field-2e308", r#"[{"apath":"/a","kind":"Dir","zzz":2e308}]"#.into());
    add("unknown-field-1e309", r#"[{"apath":"/a","kind":"Dir","zzz":1e309}]"#.into());
    add("unknown-field-0e999", r#"[{"apath":"/a","kind":"Dir","zzz":0e999}]"#.into());
    add("unknown-field-1e-999", r#"[{"apath":"/a","kind":"Dir","zzz":1e-999}]"#.into());
    add("unknown-field-exp-overflow", r#"[{"apath":"/a","kind":"Dir","zzz":1e99999999999}]"#.into());
    add("unknown-field-exp-overflow-neg", r#"[{"apath":"/a","kind":"Dir","zzz":1e-99999999999}]"#.into());
    add("unknown-field-exp-overflow-zero", r#"[{"apath":"/a","kind":"Dir","zzz":0e99999999999}]"#.into());
    add("unknown-field-long-int", format!(r#"[{{"apath":"/a","kind":"Dir","zzz":{}}}]"#, "9".repeat(308)));
    add("unknown-field-too-long-int", format!(r#"[{{"apath":"/a","kind":"Dir","zzz":{}}}]"#, "9".repeat(310)));
    add("unknown-field-long-int-neg-exp", format!(r#"[{{"apath":"/a","kind":"Dir","zzz":{}e-400}}]"#, "9".repeat(400)));
    add("unknown-field-long-frac", format!(r#"[{{"apath":"/a","kind":"Dir","zzz":0.{}e330}}]"#, "0".repeat(30) + "1"));
    add("unknown-field-long-frac-2", format!(r#"[{{"apath":"/a","kind":"Dir","zzz":1.{}e308}}]"#, "7".repeat(30)));
    add("unknown-field-18446744073709551615.5e289", r#"[{"apath":"/a","kind":"Dir","zzz":18446744073709551615.5e289}]"#.into());
    for (i, n) in ["1.7976931348623157e308", "1.7976931348623158e308", "1.7976931348623159e308", "1.797693134862315807e308", "1.797693134862315808e308", "17976931348623157e292", "17976931348623158e292",
        "17976931348623159e292", "17976931348623160e292", "1797693134862315708e290", "1797693134862315807e290", "1797693134862315808e290", "1797693134862315907e290", "0.17976931348623159e309", "179769313486231590e291",
        "18446744073709551615e289", "9745314011399999e292", "9745314011400000e292", "1.7976931348623157e+308", "-1.7976931348623159e308", "1797693134862315.9E293", "2e308", "1.8e308", "1.79e308",
        "179769313486231570814527423731704356798070567525844996598917476803157260780028538760589558632766878171540458953514382464234321326889464182768467546703537516986049910576551282076245490090389328944075868508455133942304583236903222948165808559332123348274797826204144723168738177180919299881250404026184124858368",
        "179769313486231580793728971405303415079934132710037826936173778980444968292764750946649017977587207096330286416692887910946555547851940402630657488671505820681908902000708383676273854845817711531764475730270069855571366959622842914819860834936475292719074168444365510704342711559699508093042880177904174497792",
        "179769313486231580793728971405303415079934132710037826936173778980444968292764750946649017977587207096330286416692887910946555547851940402630657488671505820681908902000708383676273854845817711531764475730270069855571366959622842914819860834936475292719074168444365510704342711559699508093042880177904174497791",
        "17976931348623158079.5e289", "1.7976931348623158079372897140530341507993413271003782693617377898044496829276475094664901797758720709633028641669288791094655554785194040263065748867150582068190890200070838367627385484581771153176447573027006985557136695962284291481986083493647529271907416844436551070434271155969950809304288017790417449779e308"] .iter().enumerate() {
        add(&format!("unknown-field-float-boundary-{i}"), format!(r#"[{{"apath":"/a","kind":"Dir","zzz":{n}}}]"#));
    }
    add("unknown-field-bad-number", r#"[{"apath":"/a","kind":"Dir","zzz":01}]"#.into());
    add("unknown-field-bad-number-2", r#"[{"apath":"/a","kind":"Dir","zzz":1.}]"#.into());
    add("unknown-field-bad-number-3", r#"[{"apath":"/a","kind":"Dir","zzz":.5}]"#.into());
    add("unknown-field-bad-number-4", r#"[{"apath":"/a","kind":"Dir","zzz":1e}]"#.into());
    add("unknown-field-bad-number-5", r#"[{"apath":"/a","kind":"Dir","zzz":-}]"#.into());
    add("unknown-field-bad-number-6", r#"[{"apath":"/a","kind":"Dir","zzz":+1}]"#.into());
    add("unknown-field-lone-surrogate", r#"[{"apath":"/a","kind":"Dir","zzz":"\ud800"}]"#.into());
    add("unknown-field-u0000", r#"[{"apath":"/a","kind":"Dir","zzz":"\u0000"}]"#.into());
    add("unknown-field-true-false-null", r#"[{"apath":"/a","kind":"Dir","a":true,"b":false,"c":null}]"#.into());
    add("unknown-field-bad-ident", r#"[{"apath":"/a","kind":"Dir","a":tru}]"#.into());
    add("unknown-field-twice", r#"[{"apath":"/a","kind":"Dir","zzz":1,"zzz":2}]"#.into());
    add("unknown-key-with-escape", r#"[{"apath":"/a","kind":"Dir","z\u007az\n":1}]"#.into());
    add("unknown-field-trailing-comma-inside", r#"[{"apath":"/a","kind":"Dir","zzz":[1,]}]"#.into());
    add("unknown-field-trailing-comma-inside-obj", r#"[{"apath":"/a","kind":"Dir","zzz":{"a":1,}}]"#.into());
    add("unknown-field-missing-colon", r#"[{"apath":"/a","kind":"Dir","zzz":{"a" 1}}]"#.into());
    add("unknown-field-nonstring-key", r#"[{"apath":"/a","kind":"Dir","zzz":{1:1}}]"#.into());
    for depth in [1usize, 10, 124, 125, 126, 127, 128, 200] {
        add(&format!("unknown-field-nested-arrays-{depth}"), format!(r#"[{{"apath":"/a","kind":"Dir","zzz":{}{}}}]"#, "[".repeat(depth), "]".repeat(depth)));
        add(&format!("unknown-field-nested-objects-{depth}"), format!(r#"[{{"apath":"/a","kind":"Dir","zzz":{}1{}}}]"#, "{\"a\":".repeat(depth), "}".repeat(depth)));
        add(&format!("addr-unknown-field-nested-arrays-{depth}"), format!(r#"[{{"apath":"/a","kind":"File","addrs":[{{"hash":"{H}","len":1,"zzz":{}{}}}]}}]"#, "[".repeat(depth), "]".repeat(depth)));
    }
    add("duplicate-apath", r#"[{"apath":"/a","apath":"/a","kind":"Dir"}]"#.into());
    add("duplicate-kind", r#"[{"apath":"/a","kind":"Dir","kind":"Dir"}]"#.into());
    add("duplicate-mtime", r#"[{"apath":"/a","kind":"Dir","mtime":1,"mtime":1}]"#.into());
    add("duplicate-unix_mode", r#"[{"apath":"/a","kind":"Dir","unix_mode":null,"unix_mode":null}]"#.into());
    add("duplicate-mtime_nanos", r#"[{"apath":"/a","kind":"Dir","mtime_nanos":1,"mtime_nanos":1}]"#.into());
    add("duplicate-addrs", r#"[{"apath":"/a","kind":"Dir","addrs":[],"addrs":[]}]"#.into());
    add("duplicate-target", r#"[{"apath":"/a","kind":"Dir","target":null,"target":"x"}]"#.into());
    add("duplicate-user", r#"[{"apath":"/a","kind":"Dir","user":"a","user":"b"}]"#.into());
    add("duplicate-user-null", r#"[{"apath":"/a","kind":"Dir","user":null,"user":null}]"#.into());
    add("duplicate-group", r#"[{"apath":"/a","kind":"Dir","group":"a","group":"b"}]"#.into());
    add("duplicate-key-by-escape", r#"[{"apath":"/a","\u0061path":"/b","kind":"Dir"}]"#.into());
    add("key-by-escape", r#"[{"\u0061path":"/b","k\u0069nd":"Dir","us\u0065r":"u"}]"#.into());
    add("user-only", r#"[{"apath":"/a","kind":"Dir","user":"u"}]"#.into());
    add("group-only", r#"[{"apath":"/a","kind":"Dir","group":"g"}]"#.into());
    add("user-null-group-string", r#"[{"apath":"/a","kind":"Dir","user":null,"group":"g"}]"#.into());
    add("user-number", r#"[{"apath":"/a","kind":"Dir","user":5}]"#.into());
    add("user-array", r#"[{"apath":"/a","kind":"Dir","user":["x"]}]"#.into());
    add("user-bool", r#"[{"apath":"/a","kind":"Dir","user":true}]"#.into());
    add("user-object", r#"[{"apath":"/a","kind":"Dir","user":{"a":1}}]"#.into());
    add("user-with-escapes", r#"[{"apath":"/a","kind":"Dir","user":"a\u0062\n\"\\\/\ud83d\ude00"}]"#.into());
    add("user-bad-escape", r#"[{"apath":"/a","kind":"Dir","user":"\x"}]"#.into());
    add("owner-object", r#"[{"apath":"/a","kind":"Dir","owner":{"user":"u","group":"g"}}]"#.into());
    add("apath-escapes", r#"[{"apath":"\u002fa\u00e9\u65e5\ud83d\ude00\b\f\n\r\t\"\\\/","kind":"Dir"}]"#.into());
    add("apath-escape-upper-hex", r#"[{"apath":"\u00E9\uD83D\uDE00\u00Aa","kind":"Dir"}]"#.into());
    add("apath-escape-upper-U", r#"[{"apath":"\U00e9","kind":"Dir"}]"#.into());
    add("apath-lone-high-surrogate", r#"[{"apath":"\ud83d","kind":"Dir"}]"#.into());
    add("apath-lone-high-surrogate-then-char", r#"[{"apath":"\ud83dx","kind":"Dir"}]"#.into());
    add("apath-lone-high-surrogate-then-escape", r#"[{"apath":"\ud83d\n","kind":"Dir"}]"#.into());
    add("apath-lone-low-surrogate", r#"[{"apath":"\ude00","kind":"Dir"}]"#.into());
    add("apath-high-high", r#"[{"apath":"\ud83d\ud83d\ude00","kind":"Dir"}]"#.into());
    add("apath-high-nonsurrogate", r#"[{"apath":"\ud83d\u0041","kind":"Dir"}]"#.into());
    add("apath-short-hex", r#"[{"apath":"\u00e","kind":"Dir"}]"#.into());
    add("apath-bad-hex", r#"[{"apath":"\u00eg","kind":"Dir"}]"#.into());
    add("apath-u0000", r#"[{"apath":"\u0000","kind":"Dir"}]"#.into());
    add("apath-null", r#"[{"apath":null,"kind":"Dir"}]"#.into());
    add("apath-number", r#"[{"apath":1,"kind":"Dir"}]"#.into());
    add("apath-array", r#"[{"apath":["/a"],"kind":"Dir"}]"#.into());
    add("apath-empty", r#"[{"apath":"","kind":"Dir"}]"#.into());
    add("apath-unterminated", r#"[{"apath":"/a"#.into());
    add("apath-single-quotes", r#"[{"apath":'/a',"kind":"Dir"}]"#.into());
    add("key-single-quotes", r#"[{'apath':"/a","kind":"Dir"}]"#.into());
    add("key-unquoted", r#"[{apath:"/a","kind":"Dir"}]"#.into());
    for (tag, k) in [("string-File", "\"File\""), ("string-Dir", "\"Dir\""), ("string-Symlink", "\"Symlink\""), ("string-Unknown", "\"Unknown\""), ("lowercase", "\"file\""), ("other", "\"Other\""), ("empty", "\"\""),
        ("number", "0"), ("null", "null"), ("map-null", "{\"File\":null}"), ("map-null-ws", " { \"Symlink\" : null } "), ("map-nonnull", "{\"File\":1}"), ("map-empty-obj", "{\"File\":{}}"), ("map-empty-arr", "{\"File\":[]}"),
        ("map-two", "{\"File\":null,\"Dir\":null}"), ("map-trailing-comma", "{\"File\":null,}"), ("map-empty", "{}"), ("map-unknown", "{\"Nope\":null}"), ("map-nonstring-key", "{1:null}"), ("array", "[\"File\"]"),
        ("escaped", "\"F\\u0069le\""), ("map-escaped", "{\"F\\u0069le\":null}"), ("map-no-colon", "{\"File\" null}"), ("map-unterminated", "{\"File\":null"), ("string-trailing-space-inside", "\"File \"")] {
        add(&format!("kind-{tag}"), format!(r#"[{{"apath":"/a","kind":{k}}}]"#));
    }
    for (tag, n) in [("0", "0"), ("-0", "-0"), ("1.0", "1.0"), ("1e3", "1e3"), ("1E3", "1E3"), ("01", "01"), ("-01", "-01"), ("00", "00"), ("+1", "+1"), ("-", "-"), ("--1", "--1"), ("1.", "1."), (".1", ".1"), ("1e", "1e"),
        ("i64max", "9223372036854775807"), ("i64max+1", "9223372036854775808"), ("i64min", "-9223372036854775808"), ("i64min-1", "-9223372036854775809"), ("u64max", "18446744073709551615"),
        ("u64max+1", "18446744073709551616"), ("huge", "123456789012345678901234567890"), ("-huge", "-123456789012345678901234567890"), ("u32max", "4294967295"), ("u32max+1", "4294967296"), ("-1", "-1"),
        ("string", "\"1\""), ("null", "null"), ("true", "true"), ("array", "[1]"), ("space-inside", "1 2"), ("hex", "0x10"), ("nan", "NaN"), ("inf", "Infinity"), ("1e999", "1e999"), ("0.0", "0.0"), ("0e0", "0e0"), ("-1.0", "-1.0"), ("1_000", "1_000")] {
        add(&format!("mtime-{tag}"), format!(r#"[{{"apath":"/a","kind":"Dir","mtime":{n}}}]"#));
        add(&format!("mtime_nanos-{tag}"), format!(r#"[{{"apath":"/a","kind":"Dir","mtime_nanos":{n}}}]"#));
        add(&format!("unix_mode-{tag}"), format!(r#"[{{"apath":"/a","kind":"Dir","unix_mode":{n}}}]"#));
        add(&format!("addr-len-{tag}"), format!(r#"[{{"apath":"/a","kind":"File","addrs":[{{"hash":"{H}","len":{n}}}]}}]"#));
        add(&format!("addr-start-{tag}"), format!(r#"[{{"apath":"/a","kind":"File","addrs":[{{"hash":"{H}","start":{n},"len":1}}]}}]"#));
        add(&format!("number-then-garbage-{tag}"), format!(r#"[{{"apath":"/a","kind":"Dir","mtime":{n}x}}]"#));
    }
    add("unix_mode-array", r#"[{"apath":"/a","kind":"Dir","unix_mode":[420]}]"#.into());
    add("unix_mode-nul", r#"[{"apath":"/a","kind":"Dir","unix_mode":nul}]"#.into());
    add("unix_mode-nullx", r#"[{"apath":"/a","kind":"Dir","unix_mode":nullx}]"#.into());
    add("target-null", r#"[{"apath":"/a","kind":"Symlink","target":null}]"#.into());
    add("target-string", r#"[{"apath":"/a","kind":"Symlink","target":"t"}]"#.into());
    add("target-number", r#"[{"apath":"/a","kind":"Symlink","target":1}]"#.into());
    add("target-NULL", r#"[{"apath":"/a","kind":"Symlink","target":NULL}]"#.into());
    add("addrs-null", r#"[{"apath":"/a","kind":"File","addrs":null}]"#.into());
    add("addrs-empty", r#"[{"apath":"/a","kind":"File","addrs":[]}]"#.into());
    add("addrs-empty-ws", r#"[{"apath":"/a","kind":"File","addrs": [ ] }]"#.into());
    add("addrs-object", r#"[{"apath":"/a","kind":"File","addrs":{}}]"#.into());
    add("addrs-trailing-comma", format!(r#"[{{"apath":"/a","kind":"File","addrs":[{{"hash":"{H}","len":1}},]}}]"#));
    add("addrs-leading-comma", format!(r#"[{{"apath":"/a","kind":"File","addrs":[,{{"hash":"{H}","len":1}}]}}]"#));
    add("addrs-missing-comma", format!(r#"[{{"apath":"/a","kind":"File","addrs":[{{"hash":"{H}","len":1}} {{"hash":"{H}","len":1}}]}}]"#));
    add("addrs-two", format!(r#"[{{"apath":"/a","kind":"File","addrs":[{{"hash":"{H}","len":1}} , {{"len":2,"start":3,"hash":"{H}"}}]}}]"#));
    add("addr-upper-hash", format!(r#"[{{"apath":"/a","kind":"File","addrs":[{{"hash":"{hu}","len":1}}]}}]"#));
    add("addr-short-hash", format!(r#"[{{"apath":"/a","kind":"File","addrs":[{{"hash":"{}","len":1}}]}}]"#, &H[..126]));
    add("addr-odd-hash", format!(r#"[{{"apath":"/a","kind":"File","addrs":[{{"hash":"{}","len":1}}]}}]"#, &H[..127]));
    add("addr-long-hash", format!(r#"[{{"apath":"/a","kind":"File","addrs":[{{"hash":"{H}00","len":1}}]}}]"#));
    add("addr-nonhex-hash", format!(r#"[{{"apath":"/a","kind":"File","addrs":[{{"hash":"{}g","len":1}}]}}]"#, &H[..127]));
    add("addr-nonascii-hash", format!(r#"[{{"apath":"/a","kind":"File","addrs":[{{"hash":"{}é","len":1}}]}}]"#, &H[..126]));
    add("addr-escaped-hash", format!(r#"[{{"apath":"/a","kind":"File","addrs":[{{"hash":"\u0030{}","len":1}}]}}]"#, &H[1..]));
    add("addr-hash-number", r#"[{"apath":"/a","kind":"File","addrs":[{"hash":5,"len":1}]}]"#.into());
    add("addr-missing-hash", r#"[{"apath":"/a","kind":"File","addrs":[{"len":1}]}]"#.into());
    add("addr-missing-len", format!(r#"[{{"apath":"/a","kind":"File","addrs":[{{"hash":"{H}"}}]}}]"#));
    add("addr-start-zero-explicit", format!(r#"[{{"apath":"/a","kind":"File","addrs":[{{"hash":"{H}","start":0,"len":1}}]}}]"#));
    add("addr-duplicate-len", format!(r#"[{{"apath":"/a","kind":"File","addrs":[{{"hash":"{H}","len":1,"len":1}}]}}]"#));
    add("addr-duplicate-hash", format!(r#"[{{"apath":"/a","kind":"File","addrs":[{{"hash":"{H}","hash":"{H}","len":1}}]}}]"#));
    add("addr-duplicate-start", format!(r#"[{{"apath":"/a","kind":"File","addrs":[{{"hash":"{H}","start":1,"start":1,"len":1}}]}}]"#));
    add("addr-unknown-field", format!(r#"[{{"apath":"/a","kind":"File","addrs":[{{"hash":"{H}","len":1,"zzz":{{"a":[1.5e999,"\ud800",true]}}}}]}}]"#));
    add("addr-unknown-field-bad-utf8-escape", format!(r#"[{{"apath":"/a","kind":"File","addrs":[{{"hash":"{H}","len":1,"zzz":"\u12"}}]}}]"#));
    add("addr-unknown-field-bad-number", format!(r#"[{{"apath":"/a","kind":"File","addrs":[{{"hash":"{H}","len":1,"zzz":01}}]}}]"#));
    add("addr-unknown-field-trailing-comma", format!(r#"[{{"apath":"/a","kind":"File","addrs":[{{"hash":"{H}","len":1,"zzz":[1,]}}]}}]"#));
    add("addr-unknown-field-mismatched", format!(r#"[{{"apath":"/a","kind":"File","addrs":[{{"hash":"{H}","len":1,"zzz":[1}}]}}]"#));
    add("addr-unknown-key-escape", format!(r#"[{{"apath":"/a","kind":"File","addrs":[{{"hash":"{H}","len":1,"\ud800":1}}]}}]"#));
    add("addr-tuple-3", format!(r#"[{{"apath":"/a","kind":"File","addrs":[["{H}",2,3]]}}]"#));
    add("addr-tuple-3-ws", format!(r#"[{{"apath":"/a","kind":"File","addrs":[ [ "{H}" , 2 , 3 ] ]}}]"#));
    add("addr-tuple-2", format!(r#"[{{"apath":"/a","kind":"File","addrs":[["{H}",2]]}}]"#));
    add("addr-tuple-1", format!(r#"[{{"apath":"/a","kind":"File","addrs":[["{H}"]]}}]"#));
    add("addr-tuple-0", r#"[{"apath":"/a","kind":"File","addrs":[[]]}]"#.into());
    add("addr-tuple-4", format!(r#"[{{"apath":"/a","kind":"File","addrs":[["{H}",2,3,4]]}}]"#));
    add("addr-tuple-trailing-comma", format!(r#"[{{"apath":"/a","kind":"File","addrs":[["{H}",2,3,]]}}]"#));
    add("addr-string", format!(r#"[{{"apath":"/a","kind":"File","addrs":["{H}"]}}]"#));
    add("entry-as-tuple", r#"[["/a","Dir",0,null,0,[],null]]"#.into());
    add("entry-as-string", r#"["/a"]"#.into());
    add("entry-null", r#"[null]"#.into());
    add("two-entries", format!("[{base},{base}]"));
    add("two-entries-no-comma", format!("[{base}{base}]"));
    add("two-entries-double-comma", format!("[{base},,{base}]"));
    add("trailing-comma", format!("[{base},]"));
    add("leading-comma", format!("[,{base}]"));
    add("member-trailing-comma", r#"[{"apath":"/a","kind":"Dir",}]"#.into());
    add("member-leading-comma", r#"[{,"apath":"/a","kind":"Dir"}]"#.into());
    add("member-double-comma", r#"[{"apath":"/a",,"kind":"Dir"}]"#.into());
    add("member-no-comma", r#"[{"apath":"/a" "kind":"Dir"}]"#.into());
    add("member-no-colon", r#"[{"apath" "/a","kind":"Dir"}]"#.into());
    add("member-double-colon", r#"[{"apath"::"/a","kind":"Dir"}]"#.into());
    add("member-no-value", r#"[{"apath":,"kind":"Dir"}]"#.into());
    add("trailing-garbage", format!("[{base}]x"));
    add("trailing-bracket", format!("[{base}]]"));
    add("trailing-second-value", format!("[{base}][]"));
    add("trailing-newline", format!("[{base}]\n"));
    add("trailing-nul", format!("[{base}]\u{0}"));
    add("trailing-comma-after", format!("[{base}],"));
    add("truncated-1", format!("[{base}"));
    add("truncated-2", format!("[{}", &base[..base.len() - 1]));
    add("truncated-3", "[".into());
    add("truncated-4", "[{".into());
    add("truncated-5", "[{\"apath\"".into());
    add("truncated-6", "[{\"apath\":".into());
    add("truncated-7", r#"[{"apath":"/a","kind":"Dir","unix_mode":nu"#.into());
    add("comment", format!("[{base}] // x"));
    add("control-char-in-string", "[{\"apath\":\"/a\tb\",\"kind\":\"Dir\"}]".into());
    add("newline-in-string", "[{\"apath\":\"/a\nb\",\"kind\":\"Dir\"}]".into());
    add("del-in-string", "[{\"apath\":\"/a\x7fb\",\"kind\":\"Dir\"}]".into());
    add("nul-in-string", "[{\"apath\":\"/a\u{0}b\",\"kind\":\"Dir\"}]".into());
    let mut out: Vec<(String, Vec<u8>)> = v.into_iter().map(|(t, s)| (t, s.into_bytes())).collect();
    // inputs that are not UTF-8
    let bad = |tag: &str, bytes: &[u8]| {
        let mut b = b"[{\"apath\":\"/".to_vec();
        b.extend_from_slice(bytes);
        b.extend_from_slice(b"\",\"kind\":\"Dir\"}]");
        (format!("apath-bytes-{tag}"), b)
    };
    for (tag, bytes) in [
        ("lone-continuation", &[0x80u8][..]), ("lone-lead", &[0xc3]), ("overlong-2", &[0xc0, 0xaf]), ("overlong-c1", &[0xc1, 0xbf]), ("overlong-3", &[0xe0, 0x80, 0xaf]), ("overlong-3b", &[0xe0, 0x9f, 0xbf]),
        ("surrogate-ed-a0", &[0xed, 0xa0, 0x80]), ("surrogate-ed-bf", &[0xed, 0xbf, 0xbf]), ("ed-9f-ok", &[0xed, 0x9f, 0xbf]), ("ee-ok", &[0xee, 0x80, 0x80]), ("ef-bf-bf-ok", &[0xef, 0xbf, 0xbf]),
        ("f0-8f-overlong", &[0xf0, 0x8f, 0xbf, 0xbf]), ("f0-90-ok", &[0xf0, 0x90, 0x80, 0x80]), ("f4-8f-ok", &[0xf4, 0x8f, 0xbf, 0xbf]), ("f4-90-too-big", &[0xf4, 0x90, 0x80, 0x80]), ("f5", &[0xf5, 0x80, 0x80, 0x80]),
        ("ff", &[0xff]), ("fe", &[0xfe]), ("truncated-3", &[0xe2, 0x82]), ("truncated-4", &[0xf0, 0x9f, 0x98]), ("c2-then-ascii", &[0xc2, 0x41]), ("e1-80-41", &[0xe1, 0x80, 0x41]), ("f1-ok", &[0xf1, 0x80, 0x80, 0x80]),
        ("f3-ok", &[0xf3, 0xbf, 0xbf, 0xbf]), ("df-bf-ok", &[0xdf, 0xbf]), ("c2-80-ok", &[0xc2, 0x80]), ("e0-a0-80-ok", &[0xe0, 0xa0, 0x80]), ("ec-ok", &[0xec, 0xbf, 0xbf]), ("f0-bf-c0", &[0xf0, 0xbf, 0xbf, 0xc0]),
        ("latin1", &[0xe9]), ("escape-then-continuation", b"\\u00c3\x80"), ("raw-lead-then-escaped-cont", b"\xc3\\u0080"),
    ] {
        out.push(bad(tag, bytes));
    }
    out.push(("unknown-field-bad-utf8-raw".into(), b"[{\"apath\":\"/a\",\"kind\":\"Dir\",\"zzz\":\"\xff\"}]".to_vec()));
    out.push(("unknown-key-bad-utf8-raw".into(), b"[{\"apath\":\"/a\",\"kind\":\"Dir\",\"z\xff\":1}]".to_vec()));
    out.push(("addr-unknown-field-bad-utf8-raw".into(), { let mut b = format!("[{{\"apath\":\"/a\",\"kind\":\"File\",\"addrs\":[{{\"hash\":\"{H}\",\"len\":1,\"zzz\":\"").into_bytes(); b.push(0xff); b.extend_from_slice(b"\"}]}]"); b }));
    out.push(("addr-unknown-key-bad-utf8-raw".into(), { let mut b = format!("[{{\"apath\":\"/a\",\"kind\":\"File\",\"addrs\":[{{\"hash\":\"{H}\",\"len\":1,\"z").into_bytes(); b.push(0xff); b.extend_from_slice(b"\":1}]}]"); b }));
    out.push(("bytes-after-end-ff".into(), b"[]\xff".to_vec()));
    out.push(("whitespace-ff-before".into(), b"\xff[]".to_vec()));
    out
}

/// A generated variant of a serialised hunk: members reordered / dropped / repeated, unknown members,
/// whitespace, strings written with other escapes, other accepted encodings.
struct VariantWriter<'a> {
    rng: &'a mut Rng,
    features: Vec<&'static str>,
}

impl VariantWriter<'_> {
    fn ws(&mut self) -> String {
        if self.rng.chance(1, 4) {
            self.features.push("whitespace");
            let n = 1 + self.rng.below(3);
            (0..n).map(|_| *self.rng.pick(&[' ', '\n', '\t', '\r'])).collect()
        } else {
            String::new()
        }
    }
    fn string(&mut self, s: &str) -> String {
        let mode = self.rng.below(6);
        if mode >= 3 {
            return serde_json::to_string(s).unwrap();
        }
        self.features.push("string-other-escapes");
        let mut out = String::from("\"");
        for c in s.chars() {
            let force = self.rng.chance(1, 3);
            let cp = c as u32;
            if c == '/' && force {
                out.push_str("\\/");
            } else if force || cp < 0x20 || c == '"' || c == '\\' {
                if cp >= 0x10000 {
                    let v = cp - 0x10000;
                    let (hi, lo) = (0xd800 + (v >> 10), 0xdc00 + (v & 0x3ff));
                    if self.rng.chance(1, 2) { out.push_str(&format!("\\u{hi:04x}\\u{lo:04X}")); } else { out.push_str(&format!("\\u{hi:04X}\\u{lo:04x}")); }
                } else if self.rng.chance(1, 2) {
                    out.push_str(&format!("\\u{cp:04x}"));
                } else {
                    out.push_str(&format!("\\u{cp:04X}"));
                }
            } else {
                out.push(c);
            }
        }
        out.push('"');
        out
    }
    fn junk_value(&mut self, depth: usize) -> String {
        match self.rng.below(if depth > 3 { 7 } else { 9 }) {
            0 => "null".into(),
            1 => "true".into(),
            2 => "false".into(),
            3 => format!("{}", self.rng.next_u64() as i64),
            4 if self.rng.chance(1, 2) => {
                // floats around the largest double, and other large magnitudes
                self.features.push("float-near-overflow");
                let digits = if self.rng.chance(2, 3) { format!("1797693134862{}", 1000 + self.rng.below(8000)) } else { format!("{}", 1 + self.rng.next_u64() % 999_999_999_999) };
                let extra: String = (0..self.rng.below(6)).map(|_| char::from(b'0' + self.rng.below(10) as u8)).collect();
                let all = format!("{digits}{extra}");
                let point = self.rng.below(all.len() + 1);
                let exp = 308 - (point as i64 - 1) + *self.rng.pick(&[0i64, 0, 0, 1, -1, 2, -3]);
                let mantissa = if point == 0 { format!("0.{all}") } else if point == all.len() { all.clone() } else { format!("{}.{}", &all[..point], &all[point..]) };
                format!("{}{mantissa}{}{exp}", if self.rng.chance(1, 5) { "-" } else { "" }, self.rng.pick(&["e", "E", "e+"]))
            }
            4 => self.rng.pick(&["1.5", "-0", "0.0", "1e3", "2E-5", "1e308", "1.7e308", "123456789012345678901234567890", "0.000000000000000000000000000001", "-1.0e+2", "1e400", "18446744073709551616"]).to_string(),
            5 => { let s = gen_string(self.rng); self.string(&s) }
            6 => "\"\"".into(),
            7 => {
                let n = self.rng.below(3);
                let items: Vec<String> = (0..n).map(|_| format!("{}{}{}", self.ws(), self.junk_value(depth + 1), self.ws())).collect();
                format!("[{}]", items.join(","))
            }
            _ => {
                let n = self.rng.below(3);
                let items: Vec<String> = (0..n).map(|_| { let k = gen_string(self.rng); format!("{}{}{}:{}{}", self.ws(), self.string(&k), self.ws(), self.ws(), self.junk_value(depth + 1)) }).collect();
                format!("{{{}}}", items.join(","))
            }
        }
    }
    fn number(&mut self, v: &Value) -> String {
        let plain = v.to_string();
        if self.rng.chance(1, 12) {
            self.features.push("number-other-form");
            return match self.rng.below(5) { 0 => format!("{plain}.0"), 1 => format!("{plain}e0"), 2 => format!("0{plain}"), 3 => format!("-{plain}"), _ => format!("\"{plain}\"") };
        }
        plain
    }
    fn value(&mut self, key: &str, v: &Value) -> String {
        match (key, v) {
            ("kind", Value::String(k)) => {
                if self.rng.chance(1, 6) {
                    self.features.push("kind-as-map");
                    format!("{{{}{}{}:{}null{}}}", self.ws(), self.string(k), self.ws(), self.ws(), self.ws())
                } else {
                    self.string(k)
                }
            }
            ("hash", Value::String(h)) => {
                if self.rng.chance(1, 8) { self.features.push("hash-uppercase"); format!("\"{}\"", h.to_uppercase()) }
                else if self.rng.chance(1, 20) { self.features.push("hash-escaped"); format!("\"\\u00{:02x}{}\"", h.as_bytes()[0], &h[1..]) }
                else { format!("\"{h}\"") }
            }
            ("addrs", Value::Array(addrs)) => {
                let items: Vec<String> = addrs.iter().map(|a| {
                    let o = a.as_object().unwrap();
                    if self.rng.chance(1, 8) {
                        self.features.push("addr-as-tuple");
                        let start = o.get("start").cloned().unwrap_or(json!(0));
                        format!("[{}{},{}{},{}{}]", self.ws(), self.value("hash", &o["hash"]), self.ws(), self.number(&start), self.number(&o["len"]), self.ws())
                    } else {
                        self.object(o, false)
                    }
                }).collect();
                let mut sep_items = String::new();
                for (i, it) in items.iter().enumerate() {
                    if i > 0 { sep_items.push(','); }
                    sep_items.push_str(&self.ws());
                    sep_items.push_str(it);
                    sep_items.push_str(&self.ws());
                }
                format!("[{sep_items}]")
            }
            (_, Value::String(s)) => self.string(s),
            (_, Value::Number(_)) => self.number(v),
            (_, Value::Null) => "null".into(),
            (_, other) => other.to_string(),
        }
    }
    fn object(&mut self, o: &serde_json::Map<String, Value>, entry: bool) -> String {
        let mut members: Vec<(String, String)> = Vec::new();
        for (k, v) in o {
            if self.rng.chance(1, 25) {
                self.features.push(if ["apath", "kind", "hash", "len"].contains(&k.as_str()) { "required-member-dropped" } else { "optional-member-dropped" });
                continue;
            }
            let text = self.value(k, v);
            members.push((k.clone(), text));
        }
        if self.rng.chance(1, 6) {
            self.features.push(if entry { "unknown-member-in-entry" } else { "unknown-member-in-address" });
            let k = if self.rng.chance(1, 2) { "zzz".to_string() } else { gen_string(self.rng) };
            if !o.contains_key(&k) && !["user", "group", "start", "mtime", "unix_mode", "mtime_nanos", "addrs", "target", "apath", "kind", "hash", "len"].contains(&k.as_str()) {
                let v = self.junk_value(0);
                members.push((k, v));
            }
        }
        if self.rng.chance(1, 20) && !members.is_empty() {
            self.features.push("duplicate-member");
            let m = self.rng.pick(&members).clone();
            members.push(m);
        }
        if self.rng.chance(1, 2) {
            self.features.push("members-reordered");
            self.rng.shuffle(&mut members);
        }
        let mut out = String::from("{");
        for (i, (k, v)) in members.iter().enumerate() {
            if i > 0 { out.push(','); }
            out.push_str(&self.ws());
            out.push_str(&self.string(k));
            out.push_str(&self.ws());
            out.push(':');
            out.push_str(&self.ws());
            out.push_str(v);
            out.push_str(&self.ws());
        }
        if members.is_empty() { out.push_str(&self.ws()); }
        out.push('}');
        out
    }
}

fn part_b(thorough: bool, seed: u64, report: &mut Report, pend: &mut Vec<Pending>) {
    for (tag, raw) in hand_made() {
        let real = real_decode(&raw);
        report.hit("json:stream-hand-made-variant");
        pend.push(Pending { verb: "jsonhunk", case: json!({"stream": "hand-made", "variant": tag}), indep: None, real, raw, written_by_real: false, sig: "json:variant" });
    }
    let n = if thorough { 20000 } else { 2500 };
    let mut rng = Rng::new(seed.wrapping_mul(7919).wrapping_add(5));
    for i in 0..n {
        let k = match rng.below(5) { 0 => 0, 1 => 2, _ => 1 };
        let vals: Vec<Value> = (0..k).map(|_| gen_entry_value(&mut rng)).collect();
        let mut w = VariantWriter { rng: &mut rng, features: vec![] };
        let mut text = String::new();
        text.push_str(&w.ws());
        text.push('[');
        for (j, v) in vals.iter().enumerate() {
            if j > 0 { text.push(','); }
            text.push_str(&w.ws());
            text.push_str(&w.object(v.as_object().unwrap(), true));
            text.push_str(&w.ws());
        }
        if vals.is_empty() { text.push_str(&w.ws()); }
        text.push(']');
        text.push_str(&w.ws());
        let mut feats = std::mem::take(&mut w.features);
        let mut raw = text.into_bytes();
        // byte-level damage on a share of the cases
        match rng.below(12) {
            0 => { feats.push("truncated"); let n = rng.below(raw.len() + 1); raw.truncate(n); }
            1 => { feats.push("trailing-byte"); raw.push(*rng.pick(&[b'x', b']', b',', b'0', 0, 0xff, b'[', b'}'])); }
            2 => { feats.push("byte-replaced"); if !raw.is_empty() { let p = rng.below(raw.len()); raw[p] = *rng.pick(&[b'"', b'\\', b',', b':', b'{', b'}', b'[', b']', b' ', b'0', b'9', b'-', b'.', b'e', b'n', 0x00, 0x1f, 0x7f, 0x80, 0xc3, 0xff, b'u']); } }
            3 => { feats.push("byte-deleted"); if !raw.is_empty() { let p = rng.below(raw.len()); raw.remove(p); } }
            4 => { feats.push("byte-inserted"); let p = rng.below(raw.len() + 1); raw.insert(p, *rng.pick(&[b'"', b'\\', b',', b':', b'{', b'}', b'[', b']', b' ', b'0', b'-', b'.', b'e', 0x0b, 0x80, 0xff, b'u', b'n'])); }
            _ => {}
        }
        feats.sort();
        feats.dedup();
        for f in &feats { report.hit(&format!("json:variant-{f}")); }
        if feats.is_empty() { report.hit("json:variant-plain"); }
        let real = real_decode(&raw);
        report.hit("json:stream-generated-variant");
        pend.push(Pending { verb: "jsonhunk", case: json!({"stream": "generated-variant", "seed": seed, "index": i, "features": feats}), indep: None, real, raw, written_by_real: false, sig: "json:variant" });
    }
}


fn xhex(s: Option<&str>) -> String {
    match s {
        Some(s) => format!("x{}", hex::encode(s.as_bytes())),
        None => "-".into(),
    }
}

fn head_text(start: Option<i64>, version: Option<&str>, flags: &[String]) -> String {
    format!("{} {} {}", start.map(|t| t.to_string()).unwrap_or("?".into()), xhex(version), if flags.is_empty() { "-".to_string() } else { flags.iter().map(|f| format!("x{}", hex::encode(f.as_bytes()))).collect::<Vec<_>>().join(",") })
}

/// BANDHEAD / BANDTAIL bytes written by the real code, read with serde_json's generic `Value`
/// (independent of conserve's structs): the text the model prints after `ok `.
fn indep_headtail(verb: &str, raw: &[u8]) -> Option<String> {
    let v: Value = serde_json::from_slice(raw).ok()?;
    let o = v.as_object()?;
    if verb == "jsonhead" {
        let flags: Vec<String> = o.get("format_flags").and_then(|f| f.as_array()).map(|a| a.iter().filter_map(|x| x.as_str().map(|s| s.to_string())).collect()).unwrap_or_default();
        Some(head_text(Some(o.get("start_time")?.as_i64()?), o.get("band_format_version").and_then(|x| x.as_str()), &flags))
    } else {
        Some(format!("{} {}", o.get("end_time")?.as_i64()?, o.get("index_hunk_count").and_then(|x| x.as_u64()).map(|n| n.to_string()).unwrap_or("-".into())))
    }
}

/// What the real `Band::open` / `Band::get_info` make of a hand-written BANDHEAD (and BANDTAIL):
/// `None` = the JSON was refused; `Some(text)` = accepted, with the fields that can be observed
/// (`?` for a start time outside the range `get_info` can convert).
fn real_head(arch: &Path, head: &[u8]) -> Result<Option<String>, String> {
    let bdir = arch.join("b0000");
    std::fs::create_dir_all(bdir.join("i")).unwrap();
    let _ = std::fs::remove_file(bdir.join("BANDTAIL"));
    std::fs::write(bdir.join("BANDHEAD"), head).unwrap();
    let r = block_on_catch(|| async move {
        let archive = Archive::open_path(arch).await?;
        match Band::open(&archive, BandId::zero()).await {
            Ok(band) => {
                let start = band.get_info().await.ok().map(|i| i.start_time.as_second());
                let flags: Vec<String> = band.format_flags().iter().map(|f| f.to_string()).collect();
                Ok::<_, Error>(Ok((start, band.band_format_version().map(|s| s.to_string()), Some(flags))))
            }
            Err(e) => Ok(Err(e)),
        }
    });
    match r {
        Err(p) => Err(format!("panic {p}")),
        Ok(Err(e)) => Err(format!("archive open failed: {e:?}")),
        Ok(Ok(Ok((start, version, flags)))) => Ok(Some(head_text(start, version.as_deref(), &flags.unwrap_or_default()))),
        Ok(Ok(Err(Error::DeserializeJson { .. }))) => Ok(None),
        Ok(Ok(Err(Error::UnsupportedBandVersion { version, .. }))) => Ok(Some(format!("? {} ?", xhex(Some(&version))))),
        Ok(Ok(Err(Error::UnsupportedBandFormatFlags { .. }))) => Ok(Some("? ? ?".into())),
        Ok(Ok(Err(e))) => Err(format!("unexpected error {e:?}")),
    }
}

fn real_tail(arch: &Path, tail: &[u8]) -> Result<Option<String>, String> {
    let bdir = arch.join("b0000");
    std::fs::create_dir_all(bdir.join("i")).unwrap();
    std::fs::write(bdir.join("BANDHEAD"), b"{\"start_time\":1,\"band_format_version\":\"0.6.3\",\"format_flags\":[]}\n").unwrap();
    std::fs::write(bdir.join("BANDTAIL"), tail).unwrap();
    let r = block_on_catch(|| async move {
        let archive = Archive::open_path(arch).await?;
        let band = Band::open(&archive, BandId::zero()).await?;
        Ok::<_, Error>(band.get_info().await)
    });
    match r {
        Err(p) => Err(format!("panic {p}")),
        Ok(Err(e)) => Err(format!("open failed: {e:?}")),
        Ok(Ok(Ok(info))) => Ok(Some(format!("{} {}", info.end_time.map(|t| t.as_second().to_string()).unwrap_or("?".into()), info.index_hunk_count.map(|n| n.to_string()).unwrap_or("-".into())))),
        Ok(Ok(Err(Error::DeserializeJson { .. }))) => Ok(None),
        Ok(Ok(Err(Error::InvalidMetadata { .. }))) => Ok(Some("? ?".into())),
        Ok(Ok(Err(e))) => Err(format!("unexpected error {e:?}")),
    }
}

/// Hand-made and generated variants of BANDHEAD / BANDTAIL, through the real `Band::open` /
/// `get_info` and the model.
fn part_b_band(thorough: bool, seed: u64, report: &mut Report, pend: &mut Vec<Pending>) {
    let work = tempfile::tempdir().expect("tempdir");
    let arch = work.path().join("arch");
    create_archive(&arch);
    let mut heads: Vec<(String, Vec<u8>)> = Vec::new();
    let mut tails: Vec<(String, Vec<u8>)> = Vec::new();
    for (tag, t) in [
        ("plain", r#"{"start_time":1700000000,"band_format_version":"0.6.3","format_flags":[]}"#), ("plain-nl", "{\"start_time\":1700000000,\"band_format_version\":\"0.6.3\",\"format_flags\":[]}\n"),
        ("no-flags", r#"{"start_time":1,"band_format_version":"0.6.3"}"#), ("no-version", r#"{"start_time":1}"#), ("version-null", r#"{"start_time":1,"band_format_version":null}"#),
        ("no-start", r#"{"band_format_version":"0.6.3"}"#), ("empty-object", "{}"), ("empty", ""), ("null", "null"), ("reordered", r#"{"format_flags":[],"band_format_version":"0.6.3","start_time":-5}"#),
        ("unknown-member", r#"{"start_time":1,"zzz":[1e999,"\ud800",{"a":null}],"band_format_version":"0.6.3"}"#), ("unknown-member-bad", r#"{"start_time":1,"zzz":[1,],"band_format_version":"0.6.3"}"#),
        ("duplicate", r#"{"start_time":1,"start_time":1}"#), ("duplicate-flags", r#"{"start_time":1,"format_flags":[],"format_flags":[]}"#), ("start-float", r#"{"start_time":1.0}"#), ("start-string", r#"{"start_time":"1"}"#),
        ("start-neg-zero", r#"{"start_time":-0}"#), ("start-i64max", r#"{"start_time":9223372036854775807}"#), ("start-too-big", r#"{"start_time":9223372036854775808}"#), ("start-i64min", r#"{"start_time":-9223372036854775808}"#),
        ("flags-strings", r#"{"start_time":1,"band_format_version":"23.2.0","format_flags":["a","b\u0041\n"]}"#), ("flags-number", r#"{"start_time":1,"format_flags":[1]}"#), ("flags-null", r#"{"start_time":1,"format_flags":null}"#),
        ("flags-trailing-comma", r#"{"start_time":1,"format_flags":["a",]}"#), ("flags-ws", "{\"start_time\":1,\"format_flags\": [ \"a\" , \"b\" ] }"), ("version-escapes", r#"{"start_time":1,"band_format_version":"0\u002e6.3"}"#),
        ("version-number", r#"{"start_time":1,"band_format_version":6}"#), ("version-bad-utf8-escape", r#"{"start_time":1,"band_format_version":"\ud800"}"#), ("version-future", r#"{"start_time":1,"band_format_version":"99.0.0"}"#),
        ("tuple-2", r#"[5,"0.6.3"]"#), ("tuple-2-null", "[5,null]"), ("tuple-3", r#"[5,"0.6.3",[]]"#), ("tuple-3-ws", " [ 5 , \"0.6.3\" , [ ] ] "), ("tuple-1", "[5]"), ("tuple-0", "[]"), ("tuple-4", r#"[5,"0.6.3",[],1]"#), ("tuple-trailing-comma", r#"[5,"0.6.3",]"#),
        ("trailing-garbage", r#"{"start_time":1}x"#), ("trailing-ws", "{\"start_time\":1} \n\t"), ("leading-ws", " \n{\"start_time\":1}"), ("truncated", r#"{"start_time":1"#), ("key-escape", r#"{"st\u0061rt_time":7}"#),
        ("two-values", r#"{"start_time":1}{"start_time":1}"#), ("trailing-comma", r#"{"start_time":1,}"#),
    ] {
        heads.push((tag.to_string(), t.as_bytes().to_vec()));
    }
    heads.push(("bad-utf8-version".into(), b"{\"start_time\":1,\"band_format_version\":\"\xff\"}".to_vec()));
    heads.push(("bad-utf8-unknown".into(), b"{\"start_time\":1,\"zzz\":\"\xff\"}".to_vec()));
    for (tag, t) in [
        ("plain", "{\"end_time\":1700000001,\"index_hunk_count\":3}\n"), ("no-count", r#"{"end_time":5}"#), ("count-null", r#"{"end_time":5,"index_hunk_count":null}"#), ("no-end", r#"{"index_hunk_count":3}"#),
        ("reordered", r#"{"index_hunk_count":3,"end_time":-5}"#), ("count-u64max", r#"{"end_time":5,"index_hunk_count":18446744073709551615}"#), ("count-too-big", r#"{"end_time":5,"index_hunk_count":18446744073709551616}"#),
        ("count-negative", r#"{"end_time":5,"index_hunk_count":-1}"#), ("count-float", r#"{"end_time":5,"index_hunk_count":3.0}"#), ("count-string", r#"{"end_time":5,"index_hunk_count":"3"}"#), ("count-leading-zero", r#"{"end_time":5,"index_hunk_count":03}"#),
        ("duplicate-end", r#"{"end_time":5,"end_time":5}"#), ("duplicate-count", r#"{"end_time":5,"index_hunk_count":3,"index_hunk_count":3}"#), ("unknown", r#"{"end_time":5,"zzz":{"a":[1.5e999]}}"#), ("unknown-bad", r#"{"end_time":5,"zzz":{"a":}}"#),
        ("tuple-2", "[5,3]"), ("tuple-2-null", "[5,null]"), ("tuple-1", "[5]"), ("tuple-3", "[5,3,1]"), ("empty-object", "{}"), ("trailing-garbage", r#"{"end_time":5}}"#), ("end-i64min", r#"{"end_time":-9223372036854775808}"#),
        ("end-too-small", r#"{"end_time":-9223372036854775809}"#), ("ws", " { \"end_time\" : 5 , \"index_hunk_count\" : 3 } "), ("truncated", r#"{"end_time":5,"index_hunk_count":"#),
    ] {
        tails.push((tag.to_string(), t.as_bytes().to_vec()));
    }
    // generated: members of a plain head / tail reordered, dropped, repeated, with whitespace, then byte damage
    let n = if thorough { 1500 } else { 250 };
    let mut rng = Rng::new(seed.wrapping_mul(104729).wrapping_add(9));
    for i in 0..n {
        let is_head = i % 2 == 0;
        let val = if is_head {
            let mut m = serde_json::Map::new();
            m.insert("start_time".into(), json!(gen_i64(&mut rng)));
            m.insert("band_format_version".into(), if rng.chance(1, 4) { Value::Null } else { json!(*rng.pick(&["0.6.3", "23.2.0", "0.0.1", "x\"y", "99.1.1"])) });
            m.insert("format_flags".into(), json!((0..rng.below(3)).map(|_| gen_string(&mut rng)).collect::<Vec<_>>()));
            m
        } else {
            let mut m = serde_json::Map::new();
            m.insert("end_time".into(), json!(gen_i64(&mut rng)));
            m.insert("index_hunk_count".into(), if rng.chance(1, 4) { Value::Null } else { json!(gen_u64(&mut rng)) });
            m
        };
        let mut w = VariantWriter { rng: &mut rng, features: vec![] };
        let mut text = w.ws();
        text.push_str(&w.object(&val, false));
        text.push_str(&w.ws());
        let mut raw = text.into_bytes();
        match rng.below(10) {
            0 => { let n = rng.below(raw.len() + 1); raw.truncate(n); }
            1 => raw.push(*rng.pick(&[b'x', b'}', b',', b'0', 0xff])),
            2 => { if !raw.is_empty() { let p = rng.below(raw.len()); raw[p] = *rng.pick(&[b'"', b'\\', b',', b':', b'{', b'}', b'[', b']', b' ', b'0', b'-', b'.', b'e', 0x1f, 0xff]); } }
            _ => {}
        }
        if is_head { heads.push((format!("generated-{i}"), raw)); } else { tails.push((format!("generated-{i}"), raw)); }
    }
    for (verb, list) in [("jsonhead", heads), ("jsontail", tails)] {
        for (tag, raw) in list {
            let real = if verb == "jsonhead" { real_head(&arch, &raw) } else { real_tail(&arch, &raw) };
            let case = json!({"stream": "band-variant", "file": verb, "variant": tag});
            match real {
                Err(why) => report.notes.push(format!("c13json: {verb} variant {tag}: {why}")),
                Ok(real) => {
                    report.hit(&format!("json:stream-{verb}-variant"));
                    pend.push(Pending { verb, case, raw, indep: None, real: real.map(|t| vec![t]), written_by_real: false, sig: "json:band-variant" });
                }
            }
        }
    }
}

/// Compare the text the model prints for a head/tail with what the real code showed; `?` in the
/// real text stands for a field the public API did not let us observe.
fn band_text_matches(real: &str, model: &str) -> bool {
    let (r, m): (Vec<&str>, Vec<&str>) = (real.split(' ').collect(), model.split(' ').collect());
    r.len() == m.len() && r.iter().zip(m.iter()).all(|(a, b)| *a == "?" || a == b)
}

// ---------------------------------------------------------------------------------------------

pub fn run(tier: &str, seed: u64, report: &mut Report) {
    let thorough = tier == "thorough";
    let mut pend: Vec<Pending> = Vec::new();
    part_a_archives(thorough, seed, report, &mut pend);
    part_a_generated(thorough, seed, report, &mut pend);
    part_b(thorough, seed, report, &mut pend);
    part_b_band(thorough, seed, report, &mut pend);
    let reqs: Vec<String> = pend.iter().map(|p| format!("{} {}", p.verb, shex(&p.raw))).collect();
    let answers = run_model(&reqs);
    let mut sampled = 0;
    for (p, ans) in pend.iter().zip(answers.iter()) {
        let case = json!({"case": p.case, "input": show(&p.raw)});
        let canonical = format!("{}:{}", p.sig, hex::encode(&p.raw));
        if p.verb != "jsonhunk" {
            // head / tail: `ok <fields>` + `rerender …`, or `reject`
            let model: Option<(String, bool)> = match ans.first().map(|s| s.as_str()) {
                Some(l) if l.starts_with("ok ") && ans.len() == 2 => Some((l[3..].to_string(), ans[1] == "rerender same")),
                _ => None,
            };
            if ans.first().map(|s| s.as_str()) != Some("reject") && model.is_none() {
                report.disagree(&format!("{}:model-answer-malformed", p.sig), case, json!(p.real), json!(ans));
                report.case(&canonical, true);
                continue;
            }
            report.case(&canonical, p.raw.len() > 2);
            let real_text = p.real.as_ref().map(|v| v[0].clone());
            let agree = match (&real_text, &model) {
                (None, None) => true,
                (Some(r), Some((m, _))) => band_text_matches(r, m),
                _ => false,
            };
            report.hit(match (&real_text, &model) {
                (Some(_), Some(_)) => "json:band-both-accept",
                (None, None) => "json:band-both-reject",
                (Some(_), None) => "json:band-real-accepts-model-rejects",
                (None, Some(_)) => "json:band-real-rejects-model-accepts",
            });
            if !agree {
                report.disagree(&format!("{}:{}", p.sig, p.verb), case, json!(real_text), json!(model.as_ref().map(|m| &m.0)));
            } else if p.written_by_real {
                match &model {
                    Some((_, true)) => report.hit("json:band-rerender-same"),
                    _ => report.disagree(&format!("{}:rerender-different", p.sig), case, json!("bytes written by the real code"), json!("the model's rendering of what it decoded from them differs")),
                }
            }
            continue;
        }
        let model = match model_decode(ans) {
            Ok(m) => m,
            Err(why) => {
                report.disagree(&format!("{}:model-answer-malformed", p.sig), case, json!(p.real), json!({"answer": ans.iter().take(3).collect::<Vec<_>>(), "why": why}));
                report.case(&canonical, true);
                continue;
            }
        };
        let model_entries = model.as_ref().map(|(es, _)| es.clone());
        report.case(&canonical, p.raw.len() > 2);
        if std::env::var("C13JSON_VERBOSE").is_ok() && p.case["stream"] == "hand-made" {
            eprintln!("{:<50} real={} model={}", p.case["variant"].as_str().unwrap_or(""), p.real.is_some(), model_entries.is_some());
        }
        report.hit(match (&p.real, &model_entries) {
            (Some(_), Some(_)) => "json:both-accept",
            (None, None) => "json:both-reject",
            (Some(_), None) => "json:real-accepts-model-rejects",
            (None, Some(_)) => "json:real-rejects-model-accepts",
        });
        if p.real != model_entries {
            let sig = match (&p.real, &model_entries) {
                (Some(_), None) => "model-rejects",
                (None, Some(_)) => "model-accepts",
                _ => "entries-differ",
            };
            report.disagree(&format!("{}:{sig}", p.sig), case.clone(), json!(p.real), json!(model_entries));
            continue;
        }
        if p.written_by_real {
            // the independent decoder as a third opinion on bytes the real code wrote
            if p.indep != model_entries {
                report.disagree(&format!("{}:independent-decoder-differs", p.sig), case.clone(), json!(p.indep), json!(model_entries));
            }
            match &model {
                Some((_, true)) => report.hit("json:rerender-same"),
                Some((_, false)) => report.disagree(&format!("{}:rerender-different", p.sig), case.clone(), json!("bytes written by the real serialiser"), json!("renderHunk of the entries the model decoded from them differs")),
                None => {}
            }
        } else if let Some((_, same)) = &model {
            report.hit(if *same { "json:variant-is-canonical" } else { "json:variant-accepted-not-canonical" });
        }
        if sampled < 3 && p.written_by_real && p.raw.len() > 2 {
            sampled += 1;
            report.sample(json!({"json_layer_case": p.case, "bytes": p.raw.len(), "entries": model_entries.map(|e| e.len())}));
        }
    }
}
