//! Tree-level parts of C12 (subtree selection) and C15 (exclusions at backup, list and restore time).
use crate::absarch::abstract_archive;
use crate::c01::{node_line, tree_diff};
use crate::compare::*;
use crate::icept::IceptConfig;
use crate::pathgen::components;
use crate::real::*;
use crate::report::Report;
use crate::rng::Rng;
use crate::treespec::*;
use serde_json::json;
use std::collections::BTreeSet;

fn entry_apath(line: &str) -> String {
    let raw = line.strip_prefix("entry ").unwrap_or(line);
    String::from_utf8(hex::decode(raw.split(',').next().unwrap_or("")).unwrap_or_default()).unwrap_or_default()
}

fn under(s: &str, a: &str) -> bool {
    let sc = components(s);
    let ac = components(a);
    ac.len() >= sc.len() && ac[..sc.len()] == sc[..]
}

/// Trees whose sibling names extend one another and contain multi-byte characters.
fn gen_prefixy_tree(rng: &mut Rng) -> Tree {
    let go = GenOpts { max_nodes: 0, ..Default::default() };
    let mut t = gen_tree(rng, &go);
    let names = ["a", "ab", "a.b", "a-", "a b", "ñ", "ñx", "ñ-", "日", "日本", "b", "~"];
    let mut clock = 1_650_000_000_000_000_000i64;
    let mut dirs: Vec<Vec<String>> = vec![vec![]];
    for _ in 0..(6 + rng.below(18)) {
        let parent = rng.pick(&dirs).clone();
        if parent.len() >= 3 {
            continue;
        }
        let mut comps = parent;
        comps.push(rng.pick(&names).to_string());
        let ap = format!("/{}", comps.join("/"));
        if t.nodes.contains_key(&ap) {
            continue;
        }
        clock += 1_000_000_123;
        let kind = match rng.below(5) {
            0 | 1 => NodeKind::Dir,
            2 => NodeKind::Symlink("x".into()),
            _ => NodeKind::File(gen_content(rng, &GenOpts::default())),
        };
        if kind == NodeKind::Dir {
            dirs.push(comps.clone());
        }
        t.nodes.insert(ap, Node { comps, kind, mode: 0o644 | if rng.chance(1, 2) { 0o111 } else { 0 }, mtime_ns: clock, uid: 0, gid: 0 });
    }
    t
}

/// Directed, real code + the property's own oracle: a WIDE tree stored with the default options (one index hunk
/// of several thousand entries): a directory of 4200 files sorting before a small nested directory with
/// non-ASCII names and prefix-sharing siblings; every subtree listing = the full listing filtered, every subtree
/// restore = the full restore filtered.
fn wide_tree(report: &mut Report) {
    let work = tempfile::tempdir().unwrap();
    let (src, arch) = (work.path().join("src"), work.path().join("arch"));
    std::fs::create_dir(&src).unwrap();
    std::fs::create_dir(src.join("cache")).unwrap();
    for i in 0..4200 {
        std::fs::write(src.join("cache").join(format!("c{i:05}")), b"").unwrap();
    }
    for d in ["docs", "docs/é", "docs/sub", "docs.old", "docs2", "docsé", "zz"] {
        std::fs::create_dir(src.join(d)).unwrap();
    }
    for (f, body) in [("docs/a.txt", "a"), ("docs/é/b", "b"), ("docs/sub/c", "c"), ("docs.old/x", "x"), ("docs2/y", "y"), ("docsé/z", "z"), ("zz/last", "l"), ("top", "t")] {
        std::fs::write(src.join(f), body).unwrap();
    }
    create_archive(&arch);
    let p = BackupParams { max_entries_per_hunk: 100_000, max_block_size: 20 << 20, small_file_cap: 1 << 20, owner: true, exclude: vec![] };
    let b = real_backup(&arch, &src, &p, IceptConfig::default());
    report.case("wide-tree", true);
    report.hit("directed:wide-tree(one hunk of >4200 entries)");
    if !b.result.starts_with("result ok") {
        return;
    }
    let path_of = |l: &String| l.strip_prefix("entry ").and_then(|x| x.split(',').next()).and_then(|h| hex::decode(h).ok()).map(|b| String::from_utf8_lossy(&b).to_string()).unwrap_or_default();
    let full: Vec<String> = real_list(&arch, &Sel::Closed, "/", &[], IceptConfig::default()).lines.iter().map(path_of).collect();
    for st in ["/docs", "/docs/é", "/docs.old", "/docs2", "/docsé", "/cache", "/zz", "/top", "/docs/sub/c"] {
        let l = real_list(&arch, &Sel::Closed, st, &[], IceptConfig::default());
        let got: Vec<String> = l.lines.iter().map(path_of).collect();
        let want: Vec<String> = full.iter().filter(|p| p.as_str() == st || p.starts_with(&format!("{st}/"))).cloned().collect();
        let case = json!({"directed": "wide-tree", "subtree": st});
        if got != want || l.events.iter().any(|e| e.starts_with("event error")) {
            report.oracle_fail("subtree-listing-wide-tree", case, "listing a subtree of a version stored in one big index hunk differs from the full listing filtered", json!({"got": got.len(), "expected": want.len(), "first_got": got.iter().take(3).collect::<Vec<_>>(), "first_expected": want.iter().take(3).collect::<Vec<_>>()}));
        }
    }
    // subtree restore of /docs = the /docs part of the source
    let dest = work.path().join("dest");
    let r = real_restore(&arch, &dest, &RestoreParams { sel: Sel::Closed, subtree: Some("/docs".into()), exclude: vec![], overwrite: false }, IceptConfig::default());
    let got: BTreeSet<String> = observe(&dest).into_iter().map(|o| o.apath).collect();
    let want: BTreeSet<String> = observe(&src).into_iter().map(|o| o.apath).filter(|p| p == "/docs" || p.starts_with("/docs/")).collect();
    let got_sub: BTreeSet<String> = got.into_iter().filter(|p| p != "/").collect();
    if !r.result.starts_with("result ok") || !r.events.is_empty() || got_sub != want {
        report.oracle_fail("subtree-restore-wide-tree", json!({"directed": "wide-tree", "subtree": "/docs"}), "restoring a subtree of a version stored in one big index hunk is not that subtree", json!({"restored": got_sub.len(), "expected": want.len(), "events": r.events.iter().take(2).collect::<Vec<_>>()}));
    }
}

pub fn run_c12(tier: &str, seed: u64, report: &mut Report) {
    let thorough = tier == "thorough";
    wide_tree(report);
    let n = if thorough { 300 } else { 25 };
    let mut session = Session::new();
    let mut pend = Vec::new();
    for i in 0..n {
        let case_seed = seed.wrapping_mul(1299709).wrapping_add(i as u64);
        let mut rng = Rng::new(case_seed);
        let tree = gen_prefixy_tree(&mut rng);
        let work = tempfile::tempdir().unwrap();
        let (src, arch) = (work.path().join("src"), work.path().join("arch"));
        tree.materialize(&src);
        let obs = observe(&src);
        create_archive(&arch);
        let p = BackupParams { max_entries_per_hunk: *rng.pick(&[2usize, 3, 1000]), max_block_size: 64, small_file_cap: 8, owner: true, exclude: vec![] };
        let b = real_backup(&arch, &src, &p, IceptConfig::default());
        if !b.result.starts_with("result ok") {
            continue;
        }
        let (state, _) = abstract_archive(&arch);
        let full = real_list(&arch, &Sel::Band(0), "/", &[], IceptConfig::default());
        let full_apaths: Vec<String> = full.lines.iter().map(|l| entry_apath(l)).collect();
        // full restore for comparison
        let dest_full = work.path().join("full");
        real_restore(&arch, &dest_full, &RestoreParams { sel: Sel::Band(0), subtree: None, exclude: vec![], overwrite: false }, IceptConfig::default());
        let full_obs = observe(&dest_full);
        // subtrees: existing dirs, files, and non-existent paths
        let mut subtrees: Vec<String> = obs.iter().map(|o| o.apath.clone()).collect();
        for extra in ["/a", "/ab", "/a.b", "/ñ", "/ñx", "/zz", "/a/zz", "/日"] {
            subtrees.push(extra.to_string());
        }
        subtrees.sort();
        subtrees.dedup();
        session.load_store(&state);
        for s in &subtrees {
            let case = json!({"op": "list-subtree", "case_seed": case_seed, "tree": obs.iter().map(|o| format!("{} {}", o.kind, o.apath)).collect::<Vec<_>>(), "subtree": s});
            let l = real_list(&arch, &Sel::Band(0), s, &[], IceptConfig::default());
            let got: Vec<String> = l.lines.iter().map(|x| entry_apath(x)).collect();
            let expect: Vec<String> = full_apaths.iter().filter(|a| under(s, a)).cloned().collect();
            let nontrivial = full_apaths.iter().any(|a| a.starts_with(s.as_str()) && !under(s, a));
            report.case(&format!("{case_seed}/{s}"), nontrivial || !s.is_ascii());
            report.hit(if obs.iter().any(|o| o.apath == *s && o.kind == 'd') { "subtree:directory" } else if obs.iter().any(|o| o.apath == *s) { "subtree:file-or-link" } else { "subtree:nonexistent" });
            if got != expect {
                let sig = if s.is_ascii() { "subtree-listing" } else { "subtree-listing-nonascii" };
                report.oracle_fail(sig, case.clone(), "listing a subtree is not exactly the entries at or under it by whole components, in order", json!({"got": got, "expected": expect}));
            }
            let i_req = session.push(format!("list b0000 {} 0", crate::model::s(s.as_bytes())));
            pend.push((case.clone(), l, i_req));
            // restore only this subtree, for directories
            if obs.iter().any(|o| o.apath == *s && o.kind == 'd') && s != "/" {
                let dest = work.path().join("sub");
                let _ = std::fs::remove_dir_all(&dest);
                let r = real_restore(&arch, &dest, &RestoreParams { sel: Sel::Band(0), subtree: Some(s.clone()), exclude: vec![], overwrite: false }, IceptConfig::default());
                let sub_obs = observe(&dest);
                // files under S must be identical to those of the full restore (the parents above S are created bare)
                let a: Vec<Obs> = full_obs.iter().filter(|o| under(s, &o.apath)).cloned().collect();
                let b: Vec<Obs> = sub_obs.iter().filter(|o| under(s, &o.apath)).cloned().collect();
                let extra: Vec<&Obs> = sub_obs.iter().filter(|o| !under(s, &o.apath) && !under(&o.apath, s)).collect();
                let case_r = json!({"op": "restore-subtree", "case_seed": case_seed, "subtree": s});
                if !r.result.starts_with("result ok") || !r.events.is_empty() {
                    report.oracle_fail("subtree-restore-error", case_r.clone(), "restoring a subtree failed or reported errors", json!({"result": trunc(&r.result), "events": r.events.iter().take(3).collect::<Vec<_>>()}));
                } else if let Some(d) = tree_diff(&a, &b) {
                    report.oracle_fail("subtree-restore-differs", case_r.clone(), "files restored under the subtree differ from those of a full restore", d);
                } else if let Some(e) = extra.first() {
                    report.oracle_fail("subtree-restore-extra", case_r.clone(), "restoring a subtree created something outside it", json!(e.apath));
                }
                report.hit("subtree-restore");
            }
        }
        // ---- the same for an INTERRUPTED second version (its listing is stitched from two bands)
        {
            let mut t2 = tree.clone();
            let keys: Vec<String> = t2.nodes.keys().filter(|k| *k != "/").cloned().collect();
            for k in keys.iter().filter(|_| rng.chance(1, 4)) {
                let pref = format!("{k}/");
                t2.nodes.retain(|p, _| p != k && !p.starts_with(&pref));
            }
            std::fs::remove_dir_all(&src).unwrap();
            t2.materialize(&src);
            let p2 = BackupParams { max_entries_per_hunk: 2, max_block_size: 64, small_file_cap: 8, owner: true, exclude: vec![] };
            let scratch = work.path().join("scratch");
            crate::hist::copy_dir(&arch, &scratch);
            let dry = real_backup(&scratch, &src, &p2, IceptConfig::default());
            let n = dry.steps.max(2);
            let k = (n * (40 + rng.below(55))) / 100;
            real_backup(&arch, &src, &p2, IceptConfig { crash_at: Some(k.min(n - 2)), ..Default::default() });
            let (state2, _) = abstract_archive(&arch);
            if crate::hist::all_bands(&state2).contains(&1) && !crate::hist::complete_bands(&state2).contains(&1) {
                let full1 = real_list(&arch, &Sel::Band(1), "/", &[], IceptConfig::default());
                if full1.result.starts_with("result ok") {
                    let full1_apaths: Vec<String> = full1.lines.iter().map(|l| entry_apath(l)).collect();
                    session.load_store(&state2);
                    for s in &subtrees {
                        let case = json!({"op": "list-subtree-of-interrupted-version", "case_seed": case_seed, "subtree": s, "full_listing": full1_apaths});
                        let l = real_list(&arch, &Sel::Band(1), s, &[], IceptConfig::default());
                        let got: Vec<String> = l.lines.iter().map(|x| entry_apath(x)).collect();
                        let expect: Vec<String> = full1_apaths.iter().filter(|a| under(s, a)).cloned().collect();
                        report.case(&format!("{case_seed}/i/{s}"), true);
                        report.hit("subtree:of-interrupted-version");
                        if got != expect {
                            report.oracle_fail("subtree-listing-interrupted", case.clone(), "listing a subtree of an interrupted version is not the filter of its full listing", json!({"got": got, "expected": expect}));
                        }
                        let i_req = session.push(format!("list b0001 {} 0", crate::model::s(s.as_bytes())));
                        pend.push((case, l, i_req));
                    }
                }
            }
        }
        if i == 0 {
            report.sample(json!({"case_seed": case_seed, "paths": obs.iter().map(|o| o.apath.clone()).collect::<Vec<_>>(), "subtrees_tried": subtrees.len()}));
        }
    }
    let answers = session.run();
    for (case, l, i_req) in &pend {
        compare_run(report, "subtree-list", case, l, &parse_answer(&answers[*i_req]), &CmpOpts::default());
    }
}

/// The documented exclusion rule with globset used directly (not through conserve):
/// a leading '/' anchors, otherwise the pattern matches at any depth; a match excludes the
/// entry and everything below it.
fn documented_excluder(patterns: &[String]) -> Option<globset::GlobSet> {
    let mut b = globset::GlobSetBuilder::new();
    for p in patterns {
        let anchored = if p.starts_with('/') { p.clone() } else { format!("**/{p}") };
        b.add(globset::GlobBuilder::new(&anchored).literal_separator(true).build().ok()?);
    }
    b.build().ok()
}

fn excluded_by_rule(gs: &globset::GlobSet, apath: &str) -> bool {
    // itself or one of its ancestors (below the root) matches
    let comps = components(apath);
    (1..=comps.len()).any(|n| gs.is_match(format!("/{}", comps[..n].join("/"))))
}

pub fn run_c15_trees(tier: &str, seed: u64, report: &mut Report) {
    let thorough = tier == "thorough";
    let n = if thorough { 400 } else { 40 };
    let pats = ["a", "/a", "ab", "*.b", "a*", "/a/b", "ñ", "/ñ/*", "**/b", "b", "?", "[ab]", "a?", "/*/a", "日本", "a b", "*~", "/a.b", "x", "/a/**"];
    let mut session = Session::new();
    let mut pend = Vec::new();
    for i in 0..n {
        let case_seed = seed.wrapping_mul(7368787).wrapping_add(i as u64);
        let mut rng = Rng::new(case_seed);
        let tree = gen_prefixy_tree(&mut rng);
        let patterns: Vec<String> = (0..(1 + rng.below(3))).map(|_| rng.pick(&pats).to_string()).collect();
        let Some(gs) = documented_excluder(&patterns) else { continue };
        let work = tempfile::tempdir().unwrap();
        let (src, arch_e, arch_f) = (work.path().join("src"), work.path().join("arch-e"), work.path().join("arch-f"));
        tree.materialize(&src);
        let obs = observe(&src);
        let case = json!({"case_seed": case_seed, "patterns": patterns, "tree": obs.iter().map(|o| format!("{} {}", o.kind, o.apath)).collect::<Vec<_>>()});
        let expected: Vec<String> = {
            let mut v: Vec<&Obs> = obs.iter().filter(|o| o.apath != "/" && !excluded_by_rule(&gs, &o.apath)).collect();
            v.sort_by(|a, b| crate::c11::doc_cmp(&a.apath, &b.apath));
            v.iter().map(|o| o.apath.clone()).collect()
        };
        // (1) backup WITH the exclusions, list everything
        create_archive(&arch_e);
        let (pre_e, _) = abstract_archive(&arch_e);
        let p_e = BackupParams { max_entries_per_hunk: 1000, max_block_size: 64, small_file_cap: 8, owner: true, exclude: patterns.clone() };
        let be = real_backup(&arch_e, &src, &p_e, IceptConfig::default());
        let le = real_list(&arch_e, &Sel::Band(0), "/", &[], IceptConfig::default());
        let stored: Vec<String> = le.lines.iter().map(|l| entry_apath(l)).filter(|a| a != "/").collect();
        // (2) full backup, list and restore WITH the exclusions
        create_archive(&arch_f);
        let p_f = BackupParams { exclude: vec![], ..BackupParams { max_entries_per_hunk: 1000, max_block_size: 64, small_file_cap: 8, owner: true, exclude: vec![] } };
        real_backup(&arch_f, &src, &p_f, IceptConfig::default());
        let lf = real_list(&arch_f, &Sel::Band(0), "/", &patterns, IceptConfig::default());
        let listed: Vec<String> = lf.lines.iter().map(|l| entry_apath(l)).filter(|a| a != "/").collect();
        let dest = work.path().join("dest");
        let rf = real_restore(&arch_f, &dest, &RestoreParams { sel: Sel::Band(0), subtree: None, exclude: patterns.clone(), overwrite: false }, IceptConfig::default());
        let mut restored: Vec<String> = if dest.exists() { observe(&dest).iter().map(|o| o.apath.clone()).filter(|a| a != "/").collect() } else { vec![] };
        restored.sort_by(|a, b| crate::c11::doc_cmp(a, b));
        let nontrivial = expected.len() + 1 < obs.len();
        report.case(&serde_json::to_string(&case).unwrap(), nontrivial);
        report.hit(if nontrivial { "tree:something-excluded" } else { "tree:nothing-excluded" });
        if !be.result.starts_with("result ok") || !rf.result.starts_with("result ok") {
            report.oracle_fail("excl:operation-failed", case.clone(), "backup or restore with exclusions failed", json!({"backup": trunc(&be.result), "restore": trunc(&rf.result)}));
            continue;
        }
        if stored != expected {
            report.oracle_fail("excl:backup-differs-from-rule", case.clone(), "entries stored by a backup with exclusions are not exactly those neither matching nor below a match", json!({"stored": stored, "expected": expected}));
        }
        if listed != expected {
            report.oracle_fail("excl:list-differs-from-rule", case.clone(), "listing a full backup with exclusions differs from the rule / from what backup stores", json!({"listed": listed, "expected": expected}));
        }
        // restore cannot create children of an excluded directory… by the rule they are excluded too
        let restored_set: BTreeSet<&String> = restored.iter().collect();
        let expected_set: BTreeSet<&String> = expected.iter().collect();
        if restored_set != expected_set {
            report.oracle_fail("excl:restore-differs-from-rule", case.clone(), "restoring a full backup with exclusions yields other paths than backup stores / list shows", json!({"restored": restored, "expected": expected}));
        }
        // ---- model: the backup with exclusions sees the pruned walk; listing with the excluded set
        let pruned: Vec<Obs> = obs.iter().filter(|o| o.apath == "/" || !excluded_by_rule(&gs, &o.apath)).cloned().collect();
        session.load_store(&pre_e);
        session.load_src(&src_lines(&pruned));
        let i_b = session.push(format!("backup {} -", p_e.model_args()));
        pend.push((case.clone(), be, i_b, "excl:backup"));
        let (state_f, _) = abstract_archive(&arch_f);
        session.load_store(&state_f);
        let ex: Vec<String> = obs.iter().filter(|o| excluded_by_rule(&gs, &o.apath) || (o.apath == "/" && gs.is_match("/"))).map(|o| crate::model::s(o.apath.as_bytes())).collect();
        let i_l = session.push(format!("list b0000 s:2f {} {}", ex.len(), ex.join(" ")).trim_end().to_string());
        pend.push((case.clone(), lf, i_l, "excl:list"));
        let _ = node_line;
        if i == 0 {
            report.sample(case.clone());
        }
    }
    let answers = session.run();
    for (case, real, i, sig) in &pend {
        compare_run(report, sig, case, real, &parse_answer(&answers[*i]), &CmpOpts::default());
    }
}
