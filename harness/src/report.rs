//! What a harness run reports to the check script.
use serde_json::{Value, json};
use std::collections::{BTreeMap, BTreeSet};

#[derive(Default)]
pub struct Report {
    pub property: String,
    pub evaluations: u64,
    /// hashes of distinct non-trivial cases
    pub distinct: BTreeSet<u64>,
    pub rule: String,
    pub samples: Vec<Value>,
    pub histogram: BTreeMap<String, u64>,
    /// model ≠ implementation
    pub disagreements: Vec<Value>,
    /// the property itself evaluated on the implementation failed
    pub oracle_failures: Vec<Value>,
    pub traces_validated: u64,
    pub notes: Vec<String>,
    pub exhaustive: Option<bool>,
}

pub fn fnv(s: &str) -> u64 {
    let mut h: u64 = 0xcbf29ce484222325;
    for b in s.as_bytes() {
        h ^= *b as u64;
        h = h.wrapping_mul(0x100000001b3);
    }
    h
}

impl Report {
    pub fn new(property: &str, rule: &str) -> Report {
        Report { property: property.to_string(), rule: rule.to_string(), ..Default::default() }
    }
    pub fn hit(&mut self, key: &str) {
        *self.histogram.entry(key.to_string()).or_insert(0) += 1;
    }
    pub fn hit_n(&mut self, key: &str, n: u64) {
        *self.histogram.entry(key.to_string()).or_insert(0) += n;
    }
    pub fn case(&mut self, canonical: &str, nontrivial: bool) {
        self.evaluations += 1;
        if nontrivial {
            self.distinct.insert(fnv(canonical));
        }
    }
    pub fn sample(&mut self, v: Value) {
        if self.samples.len() < 6 {
            self.samples.push(v);
        }
    }
    pub fn disagree(&mut self, signature: &str, case: Value, implementation: Value, model: Value) {
        self.hit("disagreement");
        if self.disagreements.len() < 40 {
            self.disagreements.push(json!({"signature": signature, "case": case, "impl": implementation, "model": model}));
        }
    }
    pub fn oracle_fail(&mut self, signature: &str, case: Value, what: &str, observed: Value) {
        self.hit("oracle_failure");
        if self.oracle_failures.len() < 40 {
            self.oracle_failures.push(json!({"signature": signature, "case": case, "what": what, "observed": observed}));
        }
    }
    pub fn to_json(&self) -> Value {
        json!({
            "property": self.property,
            "evaluations": self.evaluations,
            "distinct_nontrivial": self.distinct.len(),
            "rule": self.rule,
            "samples": self.samples,
            "histogram": self.histogram,
            "disagreements": self.disagreements,
            "oracle_failures": self.oracle_failures,
            "traces_validated_against_impl": self.traces_validated,
            "notes": self.notes,
            "exhaustive": self.exhaustive,
        })
    }
}
