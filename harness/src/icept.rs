//! The interceptor installed on the Transport (cargo feature verif_hooks): logs every
//! storage operation, injects faults by OpId, stops the world at a crash point, permutes
//! listings, and can park an actor before each operation for schedule control.
use conserve::transport::verif_hooks::{Decision, Interceptor, OpInfo, Outcome, Verb};
use conserve::transport::{DirEntry, ErrorKind, WriteMode};
use std::collections::HashMap;
use std::sync::{Arc, Condvar, Mutex};

#[derive(Clone, Debug)]
pub struct OpRec {
    pub verb: Verb,
    pub path: String,
    pub payload: Option<Vec<u8>>,
    pub mode: Option<WriteMode>,
    pub outcome: Outcome,
}

#[derive(Clone, Debug)]
pub struct FaultSpec {
    pub verb: Verb,
    pub path: String,
    pub nth: usize,
    pub kind: ErrorKind,
}

#[derive(Default)]
pub struct IceptConfig {
    pub faults: Vec<FaultSpec>,
    /// stop the world before this mutating micro-step (write = 2 micro-steps)
    pub crash_at: Option<usize>,
    /// permute every listing with this seed
    pub shuffle: Option<u64>,
    /// random faults: each operation fails with probability num/den (seeded)
    pub random_faults: Option<(u32, u32, u64)>,
    /// move the clocks forward by an hour before every k-th operation (needs the LD_PRELOAD shim)
    pub clock_jump_every: Option<usize>,
}

#[derive(Default)]
struct State {
    log: Vec<OpRec>,
    counts: HashMap<(Verb, String), usize>,
    steps: usize,
    dead: bool,
    rng: u64,
    injected: Vec<FaultSpec>,
}

/// Gate for schedule control: an actor parks in `before` until the scheduler grants it a step.
#[derive(Default)]
pub struct Gate {
    pub inner: Mutex<GateState>,
    pub cv: Condvar,
}
#[derive(Default)]
pub struct GateState {
    /// number of operations this actor may still start
    pub credits: usize,
    /// the actor is parked waiting for a credit; label of the pending op
    pub waiting: Option<String>,
    /// gate disabled: everything proceeds
    pub open: bool,
}

pub struct Icept {
    cfg: IceptConfig,
    st: Mutex<State>,
    pub gate: Option<Arc<Gate>>,
}

fn is_mutating(v: Verb) -> bool {
    matches!(v, Verb::Write | Verb::CreateDir | Verb::RemoveFile | Verb::RemoveDirAll)
}

pub fn norm_path(p: &str) -> String {
    if p.is_empty() { ".".to_string() } else { p.to_string() }
}

impl Icept {
    pub fn new(cfg: IceptConfig) -> Arc<Icept> {
        let seed = cfg.random_faults.map(|x| x.2).or(cfg.shuffle).unwrap_or(0);
        Arc::new(Icept { cfg, st: Mutex::new(State { rng: seed ^ 0x5DEECE66D, ..Default::default() }), gate: None })
    }
    pub fn with_gate(cfg: IceptConfig, gate: Arc<Gate>) -> Arc<Icept> {
        let seed = cfg.random_faults.map(|x| x.2).or(cfg.shuffle).unwrap_or(0);
        Arc::new(Icept { cfg, st: Mutex::new(State { rng: seed ^ 0x5DEECE66D, ..Default::default() }), gate: Some(gate) })
    }
    pub fn log(&self) -> Vec<OpRec> {
        self.st.lock().unwrap().log.clone()
    }
    pub fn steps(&self) -> usize {
        self.st.lock().unwrap().steps
    }
    pub fn dead(&self) -> bool {
        self.st.lock().unwrap().dead
    }
    pub fn injected(&self) -> Vec<FaultSpec> {
        self.st.lock().unwrap().injected.clone()
    }
}

fn next_rand(x: &mut u64) -> u64 {
    *x = x.wrapping_add(0x9E37_79B9_7F4A_7C15);
    let mut z = *x;
    z = (z ^ (z >> 30)).wrapping_mul(0xBF58_476D_1CE4_E5B9);
    z = (z ^ (z >> 27)).wrapping_mul(0x94D0_49BB_1331_11EB);
    z ^ (z >> 31)
}

impl Interceptor for Icept {
    fn before(&self, op: &OpInfo) -> Decision {
        if let Some(g) = &self.gate {
            let mut gs = g.inner.lock().unwrap();
            if !gs.open {
                gs.waiting = Some(format!("{:?} {}", op.verb, norm_path(&op.path)));
                g.cv.notify_all();
                while gs.credits == 0 && !gs.open {
                    gs = g.cv.wait(gs).unwrap();
                }
                if !gs.open {
                    gs.credits -= 1;
                }
                gs.waiting = None;
            }
        }
        let mut st = self.st.lock().unwrap();
        if st.dead {
            return Decision::Fail(ErrorKind::Other);
        }
        let path = norm_path(&op.path);
        if let Some(k) = self.cfg.clock_jump_every {
            let seen: usize = st.counts.values().sum();
            if k > 0 && seen % k == k - 1 {
                crate::clock::jump(3600);
            }
        }
        let key = (op.verb, path.clone());
        let n = *st.counts.get(&key).unwrap_or(&0);
        st.counts.insert(key, n + 1);
        if let Some(f) = self.cfg.faults.iter().find(|f| f.verb == op.verb && f.path == path && f.nth == n) {
            return Decision::Fail(f.kind);
        }
        if let Some((num, den, _)) = self.cfg.random_faults {
            let r = next_rand(&mut st.rng);
            if (r % den as u64) < num as u64 {
                let kind = [ErrorKind::NotFound, ErrorKind::AlreadyExists, ErrorKind::PermissionDenied, ErrorKind::Other][((r >> 32) % 4) as usize];
                st.injected.push(FaultSpec { verb: op.verb, path, nth: n, kind });
                return Decision::Fail(kind);
            }
        }
        if is_mutating(op.verb) {
            if self.cfg.crash_at == Some(st.steps) {
                st.dead = true;
                return Decision::Fail(ErrorKind::Other);
            }
            if op.verb == Verb::Write && self.cfg.crash_at == Some(st.steps + 1) {
                st.dead = true;
                st.steps += 1;
                return Decision::CreateEmptyThenFail(ErrorKind::Other);
            }
        }
        Decision::Proceed
    }

    fn after(&self, op: &OpInfo, outcome: &Outcome) {
        let mut st = self.st.lock().unwrap();
        if st.dead {
            return;
        }
        if is_mutating(op.verb) && !matches!(outcome, Outcome::Err(_)) {
            st.steps += if op.verb == Verb::Write { 2 } else { 1 };
        }
        st.log.push(OpRec { verb: op.verb, path: norm_path(&op.path), payload: op.payload.clone(), mode: op.write_mode, outcome: outcome.clone() });
    }

    fn permute_listing(&self, _op: &OpInfo, entries: &mut Vec<DirEntry>) {
        if self.cfg.shuffle.is_some() {
            let mut st = self.st.lock().unwrap();
            for i in (1..entries.len()).rev() {
                let j = (next_rand(&mut st.rng) % (i as u64 + 1)) as usize;
                entries.swap(i, j);
            }
        }
    }
}
