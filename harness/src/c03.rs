//! C03: a backup killed at any point leaves a consistent, usable archive.
//! For every scenario and EVERY mutating micro-step k of the backup (a write counts twice:
//! before it, and after the file was created empty): stop the world there.
use crate::absarch::abstract_archive;
use crate::compare::*;
use crate::hist::*;
use crate::icept::IceptConfig;
use crate::real::*;
use crate::report::Report;
use crate::rng::Rng;
use crate::sweep::*;
use crate::treespec::*;
use serde_json::{Value, json};
use std::collections::BTreeMap;

pub struct CrashOutcome {
    pub post: Vec<String>,
    pub real: RunResult,
}

/// All the oracles of C03 on one crash state.  `resume_params`: options of the follow-up backup.
#[allow(clippy::too_many_arguments)]
pub fn crash_oracles(report: &mut Report, case: &Value, sc: &Scenario, arch: &std::path::Path, post: &[String], new_band: u32, resume: &BackupParams, check_resume: bool) {
    let st = state_map(post);
    // 1. archive opens and lists its versions; earlier complete versions restore as before
    for b in complete_bands(&sc.pre_state) {
        if let Some(snap) = sc.run.snapshots.get(&b) {
            let (rr, robs) = restore_observe(arch, sc.run.work.path(), &Sel::Band(b), "c03");
            if !rr.result.starts_with("result ok") || !rr.events.is_empty() {
                report.oracle_fail("crash:earlier-version-unrestorable", case.clone(), "a previously completed version no longer restores cleanly after the interrupted backup", json!({"band": band_name(b), "result": trunc(&rr.result), "events": rr.events.iter().take(3).collect::<Vec<_>>()}));
            } else if let Some(d) = crate::c01::tree_diff(snap, &robs) {
                report.oracle_fail("crash:earlier-version-differs", case.clone(), "a previously completed version restores differently after the interrupted backup", json!({"band": band_name(b), "diff": d}));
            }
        }
    }
    // … also when asked for "the latest complete version" (unless the crash came after the tail write)
    if let Some(newest) = complete_bands(&sc.pre_state).into_iter().max() {
        if let Some(snap) = sc.run.snapshots.get(&newest) {
            if complete_bands(post).into_iter().max() == Some(newest) {
                let (rr, robs) = restore_observe(arch, sc.run.work.path(), &Sel::Closed, "c03l");
                if !rr.result.starts_with("result ok") || !rr.events.is_empty() {
                    report.oracle_fail("crash:latest-complete-unrestorable", case.clone(), "the latest complete version can no longer be selected/restored after the interrupted backup", json!({"expected": band_name(newest), "result": trunc(&rr.result), "events": rr.events.iter().take(3).collect::<Vec<_>>()}));
                } else if let Some(d) = crate::c01::tree_diff(snap, &robs) {
                    report.oracle_fail("crash:latest-complete-differs", case.clone(), "the latest complete version restores differently after the interrupted backup", json!({"expected": band_name(newest), "diff": d}));
                }
            }
        }
    }
    if let Some(why) = extends(&sc.pre_state, post) {
        report.oracle_fail("crash:existing-file-touched", case.clone(), "the interrupted backup altered or removed an existing file", json!(why));
    }
    // 2. no index entry anywhere refers to a missing or too-short block
    for b in all_bands(post) {
        for (hunk, e) in band_entries(&st, b) {
            if let Err(why) = entry_content(&st, &e) {
                report.oracle_fail("crash:dangling-reference", case.clone(), "an index entry refers to a block that is missing or shorter than needed", json!({"hunk": hunk, "apath": e.apath, "why": why}));
            }
        }
    }
    // 3. once its header exists, the interrupted version is listed as incomplete, and listing it
    //    gives its own entries up to the last recorded path and the previous version's after that
    let head = st.get(&format!("{}/BANDHEAD", band_name(new_band)));
    let has_tail = st.contains_key(&format!("{}/BANDTAIL", band_name(new_band)));
    if head.map(|h| h.starts_with("head:")).unwrap_or(false) && !has_tail {
        let own: Vec<DecEntry> = band_entries(&st, new_band).into_iter().map(|x| x.1).collect();
        let last = own.last().map(|e| e.apath.clone());
        let l = real_list(arch, &Sel::Band(new_band), "/", &[], IceptConfig::default());
        if !l.result.starts_with("result ok") {
            report.oracle_fail("crash:interrupted-version-unlistable", case.clone(), "the interrupted version cannot be listed", json!(trunc(&l.result)));
        } else {
            // expected: own entries, then the newest earlier band's listing after `last`
            let prev = all_bands(post).into_iter().filter(|b| *b < new_band).max();
            let mut expected: Vec<String> = own.iter().map(|e| e.raw.clone()).collect();
            if let Some(pb) = prev {
                let pl = real_list(arch, &Sel::Band(pb), "/", &[], IceptConfig::default());
                for line in &pl.lines {
                    let raw = line.strip_prefix("entry ").unwrap_or(line);
                    let ap = String::from_utf8(hex::decode(raw.split(',').next().unwrap_or("")).unwrap_or_default()).unwrap_or_default();
                    let after = match &last {
                        None => true,
                        Some(l) => crate::c11::doc_cmp(&ap, l) == std::cmp::Ordering::Greater,
                    };
                    if after {
                        expected.push(raw.to_string());
                    }
                }
            }
            let got: Vec<String> = l.lines.iter().map(|x| x.strip_prefix("entry ").unwrap_or(x).to_string()).collect();
            if got != expected {
                report.oracle_fail("crash:stitched-listing-wrong", case.clone(), "listing the interrupted version is not (its own entries) ++ (previous version after the last recorded path)", first_diff(&got, &expected));
            }
            // … and the same through a FILTER: listing the interrupted version below one of its directories, or with
            // that directory excluded, gives exactly the matching part of the whole listing (stitching and
            // selection commute; hunks without any selected entry still move the "last recorded path" on)
            let apath_of = |raw: &str| String::from_utf8(hex::decode(raw.split(',').next().unwrap_or("")).unwrap_or_default()).unwrap_or_default();
            let all_paths: Vec<String> = got.iter().map(|r| apath_of(r)).collect();
            let mut dirs: Vec<String> = all_paths.iter().filter(|p| p.len() > 1 && all_paths.iter().any(|q| q.starts_with(&format!("{p}/")))).cloned().collect();
            dirs.truncate(4);
            for d in dirs {
                let inside = |p: &str| p == d || p.starts_with(&format!("{d}/"));
                let sub = real_list(arch, &Sel::Band(new_band), &d, &[], IceptConfig::default());
                let got_sub: Vec<String> = sub.lines.iter().map(|x| x.strip_prefix("entry ").unwrap_or(x).to_string()).collect();
                let exp_sub: Vec<String> = got.iter().filter(|r| inside(&apath_of(r))).cloned().collect();
                report.hit("crash:interrupted-version-listed-by-subtree");
                if !sub.result.starts_with("result ok") || got_sub != exp_sub {
                    report.oracle_fail("crash:stitched-subtree-listing-wrong", case.clone(), "listing a subtree of the interrupted version is not the matching part of its whole listing", json!({"subtree": d, "diff": first_diff(&got_sub, &exp_sub)}));
                }
                let plain = d[1..].chars().all(|c| c.is_ascii_alphanumeric() || c == '.' || c == '-' || c == '_' || c == '/') && !d[1..].contains('/');
                if plain {
                    let ex = real_list(arch, &Sel::Band(new_band), "/", &[d.clone()], IceptConfig::default());
                    let got_ex: Vec<String> = ex.lines.iter().map(|x| x.strip_prefix("entry ").unwrap_or(x).to_string()).collect();
                    let exp_ex: Vec<String> = got.iter().filter(|r| !inside(&apath_of(r))).cloned().collect();
                    report.hit("crash:interrupted-version-listed-with-exclusion");
                    if !ex.result.starts_with("result ok") || got_ex != exp_ex {
                        report.oracle_fail("crash:stitched-excluded-listing-wrong", case.clone(), "listing the interrupted version with one directory excluded is not the rest of its whole listing", json!({"excluded": d, "diff": first_diff(&got_ex, &exp_ex)}));
                    }
                }
            }
        }
        // restoring it reports no missing-block error
        let (rr, _) = restore_observe(arch, sc.run.work.path(), &Sel::Band(new_band), "c03i");
        if rr.events.iter().any(|e| e.contains("restore-file-block")) || rr.result.starts_with("result panic") {
            report.oracle_fail("crash:interrupted-version-missing-block", case.clone(), "restoring the interrupted version hits a missing block or crashes", json!({"result": trunc(&rr.result), "events": rr.events.iter().take(3).collect::<Vec<_>>()}));
        }
    } else if head.is_some() && has_tail {
        // the tail file exists (possibly still zero-length: killed between the two micro-steps of its write):
        // every entry has been recorded, the version counts as complete, and it must restore to the source
        // exactly, taking nothing from the previous version (Lean: Gaps.interrupted_listing_tail_started)
        report.hit("crash-state:tail-written");
        let (rr, robs) = restore_observe(arch, sc.run.work.path(), &Sel::Band(new_band), "c03t");
        if !rr.result.starts_with("result ok") || rr.events.iter().any(|e| e.starts_with("event error")) {
            report.oracle_fail("crash:tail-started-version-not-clean", case.clone(), "the version whose tail write had begun does not restore cleanly", json!({"result": trunc(&rr.result), "events": rr.events.iter().take(3).collect::<Vec<_>>()}));
        } else if let Some(d) = crate::c01::tree_diff(&sc.src_obs, &robs) {
            report.oracle_fail("crash:tail-started-version-not-exact", case.clone(), "the version whose tail write had begun does not restore to exactly the source (entries of the previous version leak in, or are missing)", d);
        }
    }
    // 4. validate is clean on the crash state, once the interrupted version's header exists
    //    (C09 promises silence for "interrupted-with-header" backups; before that it may complain
    //    about the headless directory, but must not crash)
    let v = real_validate(arch, false, IceptConfig::default());
    let header_exists = head.map(|h| h.starts_with("head:")).unwrap_or(false) || head.is_none() && !st.contains_key(&band_name(new_band));
    if v.result.starts_with("result panic") {
        report.oracle_fail("crash:validate-crashed", case.clone(), "validate crashed on the archive an interrupted backup left", json!(trunc(&v.result)));
    } else if !header_exists {
        report.hit("crash-state:headless-band");
    } else if !v.result.starts_with("result ok")
        || v.events.iter().any(|e| {
            // a head-less directory left by an EARLIER kill in the scenario's prefix is outside C09's promise too
            let about_headless_band = e.strip_prefix("event error band-head-missing:").and_then(|n| n.trim().parse::<u32>().ok()).map(|b| !st.get(&format!("{}/BANDHEAD", band_name(b))).map(|h| h.starts_with("head:")).unwrap_or(false)).unwrap_or(false);
            !about_headless_band
        })
    {
        report.oracle_fail("crash:validate-complains", case.clone(), "validate reports errors on the archive an interrupted backup left", json!({"result": trunc(&v.result), "events": v.events.iter().take(3).collect::<Vec<_>>()}));
    }
    // 5. a later backup of the same source completes and restores exactly
    if check_resume {
        let r = real_backup(arch, &sc.run.src, resume, IceptConfig::default());
        let (post2, _) = abstract_archive(arch);
        let nb = complete_bands(&post2).into_iter().max();
        // (the monitor may mention the headless band it skipped as a basis; that is not a failure)
        let real_errors: Vec<&String> = r.events.iter().filter(|e| e.starts_with("event error") && !(!header_exists && (e.contains("band-head-missing") || e.ends_with(" json")))).collect();
        if !r.result.starts_with("result ok") || !r.result.contains(" errors=0") || !real_errors.is_empty() {
            report.oracle_fail("crash:resume-failed", case.clone(), "a later backup after the interruption does not complete cleanly", json!({"result": trunc(&r.result), "events": r.events.iter().filter(|e| e.starts_with("event error")).take(3).collect::<Vec<_>>()}));
        } else if let Some(nb) = nb {
            let (rr, robs) = restore_observe(arch, sc.run.work.path(), &Sel::Band(nb), "c03r");
            if !rr.result.starts_with("result ok") || !rr.events.is_empty() {
                report.oracle_fail("crash:resume-restore-failed", case.clone(), "the version completed after the interruption does not restore cleanly", json!(trunc(&rr.result)));
            } else if let Some(d) = crate::c01::tree_diff(&sc.src_obs, &robs) {
                report.oracle_fail("crash:resume-restore-differs", case.clone(), "the version completed after the interruption does not restore to the source", d);
            }
            // C14: nothing already stored is stored again
            let pre_blocks: BTreeMap<String, String> = state_map(post).into_iter().filter(|(k, v)| k.starts_with("d/") && v.starts_with("block:")).collect();
            for l in &r.trace {
                let p: Vec<&str> = l.split(' ').collect();
                if p[1] == "write" && pre_blocks.contains_key(p[2]) {
                    report.oracle_fail("resume:block-rewritten", case.clone(), "the resumed backup rewrote a block the interrupted run had already stored", json!(p[2]));
                }
            }
        }
    }
}

/// Directed: the interrupted write is a BIG one — an incompressible 3 MiB file stored with the default options,
/// the backup killed right after its block file was created (zero-length), then a later backup of the same
/// source.  Real code + the property's oracles (archive opens, earlier version as before, the later backup
/// completes and restores exactly, validate is clean).
fn big_block_interrupted(seed: u64, report: &mut Report) {
    let work = tempfile::tempdir().unwrap();
    let (src, arch) = (work.path().join("src"), work.path().join("arch"));
    std::fs::create_dir(&src).unwrap();
    std::fs::write(src.join("small"), b"first version").unwrap();
    create_archive(&arch);
    let p = BackupParams { max_entries_per_hunk: 100_000, max_block_size: 20 << 20, small_file_cap: 1 << 20, owner: true, exclude: vec![] };
    let b0 = real_backup(&arch, &src, &p, IceptConfig::default());
    let snap0 = observe(&src);
    let mut x = seed | 1;
    let noise: Vec<u8> = (0..3 * (1usize << 20)).map(|_| { x ^= x << 13; x ^= x >> 7; x ^= x << 17; (x >> 24) as u8 }).collect();
    std::fs::write(src.join("video"), &noise).unwrap();
    let snap1 = observe(&src);
    let case = json!({"directed": "big-block-interrupted", "file": "3 MiB of noise", "options": "defaults"});
    report.case("big-block-interrupted", true);
    if !b0.result.starts_with("result ok") {
        return;
    }
    // find the crash point that leaves a zero-length block file
    let scratch = work.path().join("scratch");
    copy_dir(&arch, &scratch);
    let dry = real_backup(&scratch, &src, &p, IceptConfig::default());
    let _ = std::fs::remove_dir_all(&scratch);
    let mut hit = false;
    for k in 0..dry.steps {
        copy_dir(&arch, &scratch);
        let _ = real_backup(&scratch, &src, &p, IceptConfig { crash_at: Some(k), ..Default::default() });
        let empty_block = walk_files(&scratch.join("d")).into_iter().any(|f| std::fs::metadata(&f).map(|m| m.len() == 0).unwrap_or(false));
        let _ = std::fs::remove_dir_all(&scratch);
        if empty_block {
            let _ = real_backup(&arch, &src, &p, IceptConfig { crash_at: Some(k), ..Default::default() });
            hit = true;
            break;
        }
    }
    if !hit {
        report.hit("directed:big-block-interrupted:no-such-crash-point");
        return;
    }
    report.hit("directed:big-block-interrupted");
    let (r0, o0) = restore_observe(&arch, work.path(), &Sel::Band(0), "bb0");
    if !r0.result.starts_with("result ok") || !r0.events.is_empty() || crate::c01::tree_diff(&snap0, &o0).is_some() {
        report.oracle_fail("crash:earlier-version-changed", case.clone(), "the version completed before the interruption no longer restores as before", json!(trunc(&r0.result)));
    }
    let later = real_backup(&arch, &src, &p, IceptConfig::default());
    if !later.result.starts_with("result ok") {
        report.oracle_fail("crash:resume-failed", case.clone(), "a later backup of the same source does not complete", json!(trunc(&later.result)));
        return;
    }
    let (rl, ol) = restore_observe(&arch, work.path(), &Sel::Closed, "bbl");
    if !rl.result.starts_with("result ok") || !rl.events.is_empty() {
        report.oracle_fail("crash:resume-restore-failed", case.clone(), "the version completed after the interruption does not restore cleanly", json!({"result": trunc(&rl.result), "events": rl.events.iter().take(2).collect::<Vec<_>>()}));
    } else if let Some(d) = crate::c01::tree_diff(&snap1, &ol) {
        report.oracle_fail("crash:resume-restore-differs", case.clone(), "the version completed after the interruption does not restore to the source", json!({"field": d["field"], "apath": d["apath"]}));
    }
    let v = real_validate(&arch, false, IceptConfig::default());
    if !v.result.starts_with("result ok") || v.events.iter().any(|e| e.starts_with("event error") && !e.contains("band-head-missing")) {
        report.oracle_fail("crash:validate-complains", case, "validate reports errors after the interrupted and the later backup", json!({"events": v.events.iter().take(3).collect::<Vec<_>>()}));
    }
}


/// OUTSIDE the property, recorded as an observation (DESIGN §11.7): a REAL kill in the middle of one large write
/// can leave a truncated, NON-empty block file — a state C03 does not quantify over and the model's `World` cannot
/// produce.  Here that state is made by hand (the crash point that leaves the block file empty, then the first half of
/// the bytes the complete block would hold) and the later backup and the restore of its version are run on the real
/// code AND on the model started from the same abstract state (the torn block is `junk` there).  Both take the torn
/// block for a stored one.  Only model-vs-implementation agreement is checked: no oracle of C03 applies.
fn torn_block_probe(report: &mut Report) {
    let work = tempfile::tempdir().unwrap();
    let (src, arch) = (work.path().join("src"), work.path().join("arch"));
    std::fs::create_dir(&src).unwrap();
    std::fs::write(src.join("small"), b"v0").unwrap();
    create_archive(&arch);
    let p = BackupParams { max_entries_per_hunk: 1000, max_block_size: 1 << 20, small_file_cap: 4, owner: true, exclude: vec![] };
    let b0 = real_backup(&arch, &src, &p, IceptConfig::default());
    let body: Vec<u8> = (0..200u32).map(|i| (i * 37 % 251) as u8).collect();
    std::fs::write(src.join("torn-target"), &body).unwrap();
    if !b0.result.starts_with("result ok") {
        return;
    }
    let scratch = work.path().join("scratch");
    copy_dir(&arch, &scratch);
    let full = real_backup(&scratch, &src, &p, IceptConfig::default());
    let mut torn: Option<(std::path::PathBuf, Vec<u8>)> = None;
    for k in 0..full.steps {
        let probe = work.path().join("probe");
        copy_dir(&arch, &probe);
        let _ = real_backup(&probe, &src, &p, IceptConfig { crash_at: Some(k), ..Default::default() });
        let empty = walk_files(&probe.join("d")).into_iter().find(|f| std::fs::metadata(f).map(|m| m.len() == 0).unwrap_or(false));
        let _ = std::fs::remove_dir_all(&probe);
        if let Some(f) = empty {
            let rel = f.strip_prefix(&probe).unwrap().to_path_buf();
            let whole = std::fs::read(scratch.join(&rel)).unwrap_or_default();
            if whole.len() >= 8 {
                let _ = real_backup(&arch, &src, &p, IceptConfig { crash_at: Some(k), ..Default::default() });
                torn = Some((rel, whole[..whole.len() / 2].to_vec()));
                break;
            }
        }
    }
    let _ = std::fs::remove_dir_all(&scratch);
    let Some((rel, half)) = torn else {
        report.hit("observation:torn-block:no-such-crash-point");
        return;
    };
    std::fs::write(arch.join(&rel), &half).unwrap();
    report.case("torn-block-probe", true);
    report.hit("observation:torn-block-state-built");
    let case = json!({"observation": "torn block write (outside C03)", "block": rel.to_string_lossy(), "bytes_left": half.len()});
    let (pre, _) = abstract_archive(&arch);
    let src_obs = observe(&src);
    let later = real_backup(&arch, &src, &p, IceptConfig::default());
    let (post, _) = abstract_archive(&arch);
    let newest = all_bands(&post).into_iter().max().unwrap_or(0);
    let (rr, robs) = restore_observe(&arch, work.path(), &Sel::Band(newest), "torn");
    let mut session = Session::new();
    session.load_src(&src_lines(&src_obs));
    session.load_store(&pre);
    let i_b = session.push(format!("backup {} -", p.model_args()));
    let i_d = session.push("dump".into());
    let i_r = session.push(format!("restore {} s:2f 0", band_name(newest)));
    let answers = session.run();
    compare_run(report, "torn:backup", &case, &later, &parse_answer(&answers[i_b]), &CmpOpts::default());
    compare_state(report, "torn:backup", &case, &post, &answers[i_d]);
    let mut r2 = rr.clone();
    r2.lines = vec![];
    let mut m = parse_answer(&answers[i_r]);
    m.lines = vec![];
    compare_run(report, "torn:restore", &case, &r2, &m, &CmpOpts::default());
    let exact = later.result.starts_with("result ok") && rr.events.is_empty() && crate::c01::tree_diff(&src_obs, &robs).is_none();
    report.hit(if exact { "observation:torn-block-healed" } else { "observation:torn-block-taken-for-stored" });
}

fn walk_files(root: &std::path::Path) -> Vec<std::path::PathBuf> {
    let mut out = vec![];
    if let Ok(rd) = std::fs::read_dir(root) {
        for e in rd.flatten() {
            let p = e.path();
            if p.is_dir() { out.extend(walk_files(&p)); } else { out.push(p); }
        }
    }
    out
}

pub fn run(tier: &str, seed: u64, report: &mut Report) {
    big_block_interrupted(seed, report);
    torn_block_probe(report);
    let thorough = tier == "thorough";
    let n_scen = if thorough { 60 } else { 5 };
    for sidx in 0..n_scen {
        let case_seed = seed.wrapping_mul(6700417).wrapping_add(sidx as u64);
        let mut rng = Rng::new(case_seed);
        let go = GenOpts { max_nodes: 10, block: 8, cap: 6, max_depth: 3, ..Default::default() };
        let hl = [2usize, 4, 6][rng.below(3)];
        let mut steps = gen_history(&mut rng, hl, &go, sidx % 3 == 2, false);
        let last_tree = steps.iter().rev().find_map(|s| if let Step::SetTree(t) = s { Some(t.clone()) } else { None }).unwrap();
        let mut clock = 1_750_000_000_000_000_000;
        let mut next_tree = mutate_tree(&mut rng, &last_tree, &go, &mut clock);
        if sidx % 2 == 0 {
            // the entry that sorts LAST in the previous version is gone in the new tree: whatever wrongly
            // continues into the previous version after the new one's last path brings it back
            let mut keys: Vec<String> = last_tree.nodes.keys().filter(|k| *k != "/").cloned().collect();
            keys.sort_by(|a, b| crate::c11::doc_cmp(a, b));
            if let Some(last) = keys.last() {
                if next_tree.nodes.remove(last).is_some() {
                    let pref = format!("{last}/");
                    next_tree.nodes.retain(|k, _| !k.starts_with(&pref));
                    report.hit("directed:last-entry-of-previous-version-removed");
                }
            }
        }
        steps.push(Step::SetTree(next_tree));
        let mut params = BackupParamsLite { hunk: *rng.pick(&[1usize, 2, 3, 1000]), block: *rng.pick(&[3usize, 8, 16, 1 << 20]), cap: *rng.pick(&[0u64, 4, 8, 1 << 20]) };
        if sidx == 1 {
            // directed (second scenario of every run): the interrupted version has several hunks, its LAST ones hold
            // nothing below /a, and a path below /a that sorted after the last /a entry it recorded (/a/5) was deleted
            // from the source: listing the interrupted version below /a, or with /b excluded, must not bring /a/5 back
            let mk = |name: &str, kind: NodeKind, m: i64| Node { comps: if name.is_empty() { vec![] } else { name.split('/').map(|x| x.to_string()).collect() }, kind: kind.clone(), mode: if matches!(kind, NodeKind::Dir) { 0o755 } else { 0o644 }, mtime_ns: 1_600_000_000_000_000_000 + m, uid: 0, gid: 0 };
            let mut t = Tree::default();
            t.nodes.insert("/".into(), mk("", NodeKind::Dir, 0));
            for d in ["a", "b"] {
                t.nodes.insert(format!("/{d}"), mk(d, NodeKind::Dir, 1));
            }
            for (i, f) in ["a/1", "a/2", "a/3", "a/5", "b/1", "b/2", "b/3", "b/4", "b/5"].iter().enumerate() {
                t.nodes.insert(format!("/{f}"), mk(f, NodeKind::File(format!("content of {f}").into_bytes()), 10 + i as i64));
            }
            let mut t2 = t.clone();
            t2.nodes.remove("/a/5");
            steps = vec![Step::SetTree(t), Step::Backup(BackupParamsLite { hunk: 3, block: 1 << 20, cap: 1 << 20 }), Step::SetTree(t2)];
            params = BackupParamsLite { hunk: 3, block: 1 << 20, cap: 1 << 20 };
            report.hit("directed:trailing-hunks-outside-the-selection");
        }
        let case_id = json!({"case_seed": case_seed, "prefix": history_json(&steps), "interrupted_backup": params.json()});
        let mut sc = build_scenario(&steps, report, &case_id, "crash-prefix");
        let p = params.params();
        // directed (first scenario of every run): an EARLIER attempt at this backup died between the two
        // micro-steps of its first index hunk write — a head and a zero-length hunk 0 — and was not resumed;
        // the swept backup runs on top of it, so its interrupted states stitch THROUGH that band
        if sidx == 0 {
            let nb = all_bands(&sc.pre_state).into_iter().max().map(|b| b + 1).unwrap_or(0);
            let pp = BackupParamsLite { hunk: 2, block: 8, cap: 6 }.params();
            if die_on_first_hunk(sc.run.work.path(), &sc.run.arch, &sc.run.src, &pp, nb) {
                report.hit("directed:earlier-attempt-died-on-first-hunk");
                sc.pre_state = abstract_archive(&sc.run.arch).0;
            }
        }
        let new_band = all_bands(&sc.pre_state).into_iter().max().map(|b| b + 1).unwrap_or(0);
        let arch0 = fresh_copy(&sc, "ff");
        let ff = real_backup(&arch0, &sc.run.src, &p, IceptConfig::default());
        remove_copy(&arch0);
        let n = ff.steps;
        report.hit_n("crash-points", n as u64);
        let mut session = Session::new();
        session.load_src(&src_lines(&sc.src_obs));
        let mut pend = Vec::new();
        for k in 0..n {
            let arch = fresh_copy(&sc, "crash");
            let real = real_backup(&arch, &sc.run.src, &p, IceptConfig { crash_at: Some(k), ..Default::default() });
            let (post, notes) = abstract_archive(&arch);
            let case = json!({"scenario": case_id, "crash_before_micro_step": k, "of": n});
            for nt in notes {
                report.oracle_fail("crash:unexpected-file", case.clone(), "the interrupted backup left something outside the documented layout", json!(nt));
            }
            session.load_store(&sc.pre_state);
            let i_req = session.push(format!("backup {} {}", p.model_args(), k));
            let i_dump = session.push("dump".into());
            let i_conf = session.push("check conforms".into());
            // the resume step is expensive: every crash point in thorough, a sample in quick
            let check_resume = thorough || k % 3 == (sidx % 3) || k + 1 == n || k == 0;
            let resume = gen_params(&mut rng).params();
            crash_oracles(report, &case, &sc, &arch, &post, new_band, &resume, check_resume);
            report.case(&format!("{case_seed}/{k}"), true);
            let empty_leftover = post.iter().any(|l| l.ends_with(" empty"));
            report.hit(if empty_leftover { "crash-state:empty-file-leftover" } else { "crash-state:between-operations" });
            pend.push((case, real, post, i_req, i_dump, i_conf));
            remove_copy(&arch);
        }
        if sidx == 0 {
            report.sample(json!({"scenario": case_id, "crash_points": n}));
        }
        let answers = session.run();
        for (case, real, post, i_req, i_dump, i_conf) in &pend {
            let m = parse_answer(&answers[*i_req]);
            compare_run(report, "crash:backup", case, real, &m, &CmpOpts { crashed: true, ..Default::default() });
            compare_state(report, "crash:backup", case, post, &answers[*i_dump]);
            let conf = answers[*i_conf].first().cloned().unwrap_or_default();
            if !conf.starts_with("true") {
                report.oracle_fail("crash:not-conforming", case.clone(), "the Lean predicate Conforms (documented format, prefix form) is false on the crash state", json!(conf));
            }
        }
    }
}
