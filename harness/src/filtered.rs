//! A selection (subtree, exclusions) applied to an INTERRUPTED version.  Real code + oracle; used by C12
//! (subtree), C15 (exclusions) and C18 (diff with exclusions).
//!
//! An interrupted version lists as its own entries followed by its predecessor's after the last path it recorded
//! (C03/C08 check that rule on the whole listing).  A selection must commute with that: listing the version
//! below S, or with patterns P, gives exactly the entries of the WHOLE listing that lie below S / match no
//! pattern — whatever the hunk boundaries are, also when the last hunks written hold nothing selected, and
//! without bringing back paths the interrupted version had already dropped.
use crate::absarch::abstract_archive;
use crate::compare::first_diff;
use crate::hist::*;
use crate::icept::IceptConfig;
use crate::real::*;
use crate::report::Report;
use crate::sweep::*;
use crate::treespec::*;
use serde_json::json;
use std::collections::BTreeSet;

fn apath_of(raw: &str) -> String {
    String::from_utf8(hex::decode(raw.split(',').next().unwrap_or("")).unwrap_or_default()).unwrap_or_default()
}

fn lines_of(r: &RunResult) -> Vec<String> {
    r.lines.iter().map(|x| x.strip_prefix("entry ").unwrap_or(x).to_string()).collect()
}

/// The fixed trees: version 0 (complete) and the source of the interrupted version 1 — files deleted at the END
/// of a directory (/a/f3, /a/f4), in the MIDDLE of runs of excluded names (/data/e.txt between *.tmp files), and
/// between an excluded name and the end (/m before /n.log), others rewritten.
fn trees() -> (Tree, Tree) {
    let mk = |name: &str, kind: NodeKind, m: i64| Node { comps: if name.is_empty() { vec![] } else { name.split('/').map(|x| x.to_string()).collect() }, kind: kind.clone(), mode: if matches!(kind, NodeKind::Dir) { 0o755 } else { 0o644 }, mtime_ns: 1_660_000_000_000_000_000 + m, uid: 0, gid: 0 };
    let mut t = Tree::default();
    t.nodes.insert("/".into(), mk("", NodeKind::Dir, 0));
    for d in ["a", "b", "data"] {
        t.nodes.insert(format!("/{d}"), mk(d, NodeKind::Dir, 1));
    }
    let files = ["a/f1", "a/f2", "a/f3é", "a/f4", "b/g1", "b/g2", "data/a.txt", "data/b.txt", "data/c.tmp", "data/d.tmp", "data/e.txt", "data/f.tmp", "data/g.tmp", "data/h.txt", "data/i.txt", "data/j.txt", "m", "n.log", "z"];
    for (i, f) in files.iter().enumerate() {
        t.nodes.insert(format!("/{f}"), mk(f, NodeKind::File(format!("{f} in version zero").into_bytes()), 10 + i as i64));
    }
    let mut t1 = t.clone();
    for gone in ["/a/f3é", "/a/f4", "/data/e.txt", "/m"] {
        t1.nodes.remove(gone);
    }
    for changed in ["a/f1", "data/h.txt", "z"] {
        t1.nodes.insert(format!("/{changed}"), mk(changed, NodeKind::File(format!("{changed} REWRITTEN for version one").into_bytes()), 2_000_000_000));
    }
    (t, t1)
}

#[derive(PartialEq, Clone, Copy)]
pub enum Mode {
    Subtree,
    Exclusions,
    Diff,
}

pub fn run(prop: &str, mode: Mode, tier: &str, report: &mut Report) {
    let (t0, t1) = trees();
    let hunks: &[usize] = if tier == "thorough" { &[1, 2, 3, 4, 5, 6, 7] } else { &[2, 3, 4, 5] };
    for &hunk in hunks {
        let p = BackupParamsLite { hunk, block: 1 << 20, cap: 1 << 20 };
        let steps = vec![Step::SetTree(t0.clone()), Step::Backup(p.clone()), Step::SetTree(t1.clone())];
        let case_id = json!({"directed": "selection applied to an interrupted version", "max_entries_per_hunk": hunk});
        let sc = build_scenario(&steps, report, &case_id, "filtered-prefix");
        let params = p.params();
        let arch0 = fresh_copy(&sc, "ff");
        let ff = real_backup(&arch0, &sc.run.src, &params, IceptConfig::default());
        remove_copy(&arch0);
        let mut seen_states: BTreeSet<usize> = BTreeSet::new();
        for k in 0..ff.steps {
            let arch = fresh_copy(&sc, "filt");
            let _ = real_backup(&arch, &sc.run.src, &params, IceptConfig { crash_at: Some(k), ..Default::default() });
            let (post, _) = abstract_archive(&arch);
            let st = state_map(&post);
            let open = st.get("b0001/BANDHEAD").map(|h| h.starts_with("head:")).unwrap_or(false) && !st.contains_key("b0001/BANDTAIL");
            // one crash point per number of hunks on disk is enough: the listing only depends on that
            let n_hunks = post.iter().filter(|l| l.contains(" b0001/i/") && l.contains(" hunk:")).count();
            if !open || !seen_states.insert(n_hunks) {
                remove_copy(&arch);
                continue;
            }
            let whole = real_list(&arch, &Sel::Band(1), "/", &[], IceptConfig::default());
            let all = lines_of(&whole);
            let case = json!({"scenario": case_id, "interrupted_version_hunks_on_disk": n_hunks});
            report.case(&format!("filtered/{prop}/{hunk}/{n_hunks}"), true);
            report.hit(&format!("filtered:{prop}:interrupted-version-states"));
            match mode {
                Mode::Subtree => {
                    for d in ["/a", "/b", "/data"] {
                        let inside = |p: &str| p == d || p.starts_with(&format!("{d}/"));
                        let sub = real_list(&arch, &Sel::Band(1), d, &[], IceptConfig::default());
                        let (got, exp) = (lines_of(&sub), all.iter().filter(|r| inside(&apath_of(r))).cloned().collect::<Vec<_>>());
                        if !sub.result.starts_with("result ok") || got != exp {
                            report.oracle_fail("subtree-listing-of-interrupted-version", case.clone(), "listing a subtree of an interrupted version is not the part of its whole listing below that subtree", json!({"subtree": d, "diff": first_diff(&got, &exp)}));
                        }
                        // restore --only: exactly those paths (plus the directories leading there)
                        let dest = arch.parent().unwrap().join(format!("only-{hunk}-{n_hunks}-{}", &d[1..]));
                        let rr = real_restore(&arch, &dest, &RestoreParams { sel: Sel::Band(1), subtree: Some(d.to_string()), exclude: vec![], overwrite: false }, IceptConfig::default());
                        let restored: BTreeSet<String> = if dest.exists() { observe(&dest).into_iter().map(|o| o.apath).filter(|p| inside(p)).collect() } else { BTreeSet::new() };
                        let want: BTreeSet<String> = exp.iter().map(|r| apath_of(r)).collect();
                        if !rr.result.starts_with("result ok") || restored != want {
                            report.oracle_fail("subtree-restore-of-interrupted-version", case.clone(), "restoring a subtree of an interrupted version does not give the part of its whole listing below that subtree", json!({"subtree": d, "extra": restored.difference(&want).collect::<Vec<_>>(), "missing": want.difference(&restored).collect::<Vec<_>>()}));
                        }
                        let _ = std::fs::remove_dir_all(&dest);
                    }
                }
                Mode::Exclusions | Mode::Diff => {
                    for pats in [vec!["*.tmp"], vec!["*.log"], vec!["/b"], vec!["/data"], vec!["*.tmp", "/b", "*.log"], vec!["/a/f2", "/z"]] {
                        let pats: Vec<String> = pats.iter().map(|x| x.to_string()).collect();
                        let kept = |p: &str| -> bool {
                            !pats.iter().any(|pat| {
                                if let Some(ext) = pat.strip_prefix("*") { p.ends_with(ext) } else { p == pat || p.starts_with(&format!("{pat}/")) }
                            })
                        };
                        if mode == Mode::Exclusions {
                            let ex = real_list(&arch, &Sel::Band(1), "/", &pats, IceptConfig::default());
                            let (got, exp) = (lines_of(&ex), all.iter().filter(|r| kept(&apath_of(r))).cloned().collect::<Vec<_>>());
                            if !ex.result.starts_with("result ok") || got != exp {
                                report.oracle_fail("excluded-listing-of-interrupted-version", case.clone(), "listing an interrupted version with exclusions is not its whole listing minus the excluded entries", json!({"patterns": pats, "diff": first_diff(&got, &exp)}));
                            }
                            let dest = arch.parent().unwrap().join(format!("excl-{hunk}-{n_hunks}"));
                            let rr = real_restore(&arch, &dest, &RestoreParams { sel: Sel::Band(1), subtree: None, exclude: pats.clone(), overwrite: false }, IceptConfig::default());
                            let restored: BTreeSet<String> = if dest.exists() { observe(&dest).into_iter().map(|o| o.apath).collect() } else { BTreeSet::new() };
                            let want: BTreeSet<String> = exp.iter().map(|r| apath_of(r)).collect();
                            if !rr.result.starts_with("result ok") || restored != want {
                                report.oracle_fail("excluded-restore-of-interrupted-version", case.clone(), "restoring an interrupted version with exclusions does not give its whole listing minus the excluded entries", json!({"patterns": pats, "extra": restored.difference(&want).collect::<Vec<_>>(), "missing": want.difference(&restored).collect::<Vec<_>>()}));
                            }
                            let _ = std::fs::remove_dir_all(&dest);
                        } else {
                            // diff(interrupted version, the tree it was being made from) with the exclusions: a path is
                            // reported deleted iff the version lists it and the tree lacks it, added iff the reverse
                            let listed: BTreeSet<String> = all.iter().map(|r| apath_of(r)).filter(|p| kept(p)).collect();
                            let in_tree: BTreeSet<String> = sc.src_obs.iter().map(|o| o.apath.clone()).filter(|p| kept(p)).collect();
                            let mut want: Vec<String> = Vec::new();
                            for pth in listed.union(&in_tree) {
                                want.push(format!("{} {pth}", if !in_tree.contains(pth) { '-' } else if !listed.contains(pth) { '+' } else { '=' }));
                            }
                            let mut got: Vec<String> = crate::c18::library_diff_lines_of_band(&arch, 1, &sc.run.src, true, &pats).into_iter().map(|l| { let (sg, pth) = l.split_at(1); format!("{}{pth}", if sg == "." || sg == "*" { "=" } else { sg }) }).collect();
                            got.sort();
                            want.sort();
                            if got != want {
                                report.oracle_fail("diff-of-interrupted-version-with-exclusions", case.clone(), "diff of an interrupted version against the tree, with exclusions, reports paths as deleted / added / present that are not", json!({"patterns": pats, "diff": first_diff(&got, &want)}));
                            }
                        }
                    }
                }
            }
            remove_copy(&arch);
        }
    }
}
