//! Shared machinery for sweeps over one operation of a scenario: build a pre-state by running
//! a history prefix, then re-run the final operation many times on copies of that pre-state
//! (every crash point, every single fault, random multi-faults), on the real code and the model.
use crate::absarch::abstract_archive;
use crate::hist::*;
use crate::icept::{FaultSpec, IceptConfig};
use crate::real::*;
use crate::report::Report;
use crate::treespec::*;
use serde_json::Value;
use std::collections::BTreeMap;
use std::path::{Path, PathBuf};

pub struct Scenario {
    pub run: HistRun,
    pub case_id: Value,
    /// abstract pre-state
    pub pre_state: Vec<String>,
    /// observation of the source tree for the final operation
    pub src_obs: Vec<Obs>,
    pub answers_prefix_ok: bool,
}

/// Run a prefix history; the returned scenario's archive is the pre-state.
pub fn build_scenario(steps: &[Step], report: &mut Report, case_id: &Value, sig: &'static str) -> Scenario {
    let o = HistOpts { restore_each: false, raw: false, sig };
    let run = run_history(steps, &o, report, case_id);
    let answers = run.session.run();
    let before = report.disagreements.len();
    compare_history(&run, &answers, 0, &o, report, case_id);
    let ok = report.disagreements.len() == before;
    let (pre_state, _) = abstract_archive(&run.arch);
    let src_obs = run.records.last().map(|r| r.src_obs.clone()).unwrap_or_default();
    Scenario { run, case_id: case_id.clone(), pre_state, src_obs, answers_prefix_ok: ok }
}

/// A fresh copy of the scenario's archive.
pub fn fresh_copy(sc: &Scenario, tag: &str) -> PathBuf {
    let p = sc.run.work.path().join(format!("copy-{tag}"));
    if p.exists() {
        std::fs::remove_dir_all(&p).unwrap();
    }
    copy_dir(&sc.run.arch, &p);
    p
}

pub fn remove_copy(p: &Path) {
    let _ = std::fs::remove_dir_all(p);
}

/// OpId (verb, path, nth) of the i-th line of a trace.
pub fn op_id_of(trace: &[String], i: usize) -> Option<(String, String, usize)> {
    let parts: Vec<&str> = trace[i].split(' ').collect();
    let (verb, path) = (parts.get(1)?.to_string(), parts.get(2)?.to_string());
    let nth = trace[..i].iter().filter(|l| {
        let p: Vec<&str> = l.split(' ').collect();
        p.get(1) == Some(&verb.as_str()) && p.get(2) == Some(&path.as_str())
    }).count();
    Some((verb, path, nth))
}

pub fn fault_spec(verb: &str, path: &str, nth: usize, kind: &str) -> FaultSpec {
    FaultSpec { verb: parse_verb(verb).expect("verb"), path: path.to_string(), nth, kind: parse_kind(kind) }
}

/// state lines -> map path -> value text
pub fn state_map(state: &[String]) -> BTreeMap<String, String> {
    state.iter().filter_map(|l| {
        let mut it = l.splitn(3, ' ');
        it.next();
        Some((it.next()?.to_string(), it.next()?.to_string()))
    }).collect()
}

#[derive(Debug, Clone)]
pub struct DecEntry {
    pub apath: String,
    pub kind: char,
    pub addrs: Vec<(String, usize, usize)>,
    pub raw: String,
}

/// Decode `hunk:` text back into entries (independent of conserve).
pub fn decode_hunk_text(v: &str) -> Vec<DecEntry> {
    let body = v.strip_prefix("hunk:").unwrap_or("");
    if body.is_empty() {
        return vec![];
    }
    body.split(';').map(|e| {
        let f: Vec<&str> = e.split(',').collect();
        let apath = String::from_utf8(hex::decode(f[0]).unwrap()).unwrap();
        let addrs = if f[8] == "-" { vec![] } else {
            f[8].split('+').map(|a| { let p: Vec<&str> = a.split(':').collect(); (p[0].to_string(), p[1].parse().unwrap(), p[2].parse().unwrap()) }).collect()
        };
        DecEntry { apath, kind: f[1].chars().next().unwrap(), addrs, raw: e.to_string() }
    }).collect()
}

/// Entries recorded in one band's own hunks, in hunk order.
pub fn band_entries(st: &BTreeMap<String, String>, band: u32) -> Vec<(String, DecEntry)> {
    let prefix = format!("{}/i/", band_name(band));
    let mut out = Vec::new();
    for (p, v) in st.range(prefix.clone()..) {
        if !p.starts_with(&prefix) {
            break;
        }
        if v.starts_with("hunk:") {
            for e in decode_hunk_text(v) {
                out.push((p.clone(), e));
            }
        }
    }
    out
}

/// Content an entry's addresses denote, read straight from the decoded blocks; Err = dangling/short.
pub fn entry_content(st: &BTreeMap<String, String>, e: &DecEntry) -> Result<Vec<u8>, String> {
    let mut out = Vec::new();
    for (h, start, len) in &e.addrs {
        let key = format!("d/{}/{}", &h[..3.min(h.len())], h);
        match st.get(&key) {
            Some(v) if v.starts_with("block:") => {
                let c = hex::decode(&v[6..]).unwrap();
                if crate::absarch::blake_hex(&c) != *h {
                    return Err(format!("block {h} content does not hash to its name"));
                }
                if start + len > c.len() {
                    return Err(format!("address {start}+{len} outside block of {} bytes", c.len()));
                }
                out.extend_from_slice(&c[*start..start + len]);
            }
            Some(v) => return Err(format!("block {h} is {}", &v[..v.len().min(20)])),
            None => return Err(format!("block {h} missing")),
        }
    }
    Ok(out)
}

/// Every key of `before` is still there with the same value (zero-length files may have been completed).
pub fn extends(before: &[String], after: &[String]) -> Option<String> {
    let a = state_map(after);
    for (k, v) in state_map(before) {
        match a.get(&k) {
            None => return Some(format!("{k} was removed")),
            Some(v2) if *v2 != v && v != "empty" => return Some(format!("{k} changed")),
            _ => {}
        }
    }
    None
}

/// The stitching rule of the format, evaluated on the independently decoded state (no conserve
/// code): own entries of `band`; if it has no tail, continue with the nearest earlier band that
/// has a readable head, keeping entries after the last path taken; stop at a band with a tail.
pub fn expected_listing(state: &[String], band: u32) -> Vec<DecEntry> {
    let st = state_map(state);
    let head_ok = |b: u32| st.get(&format!("{}/BANDHEAD", band_name(b))).map(|v| v.starts_with("head:")).unwrap_or(false);
    let has_tail = |b: u32| st.contains_key(&format!("{}/BANDTAIL", band_name(b)));
    let mut out: Vec<DecEntry> = Vec::new();
    let mut last: Option<String> = None;
    let mut cur = Some(band);
    let mut first = true;
    while let Some(b) = cur {
        if first || head_ok(b) {
            if head_ok(b) {
                for (_, e) in band_entries(&st, b) {
                    let after = match &last {
                        None => true,
                        Some(l) => crate::c11::doc_cmp(&e.apath, l) == std::cmp::Ordering::Greater,
                    };
                    if after {
                        out.push(e);
                    }
                }
                if let Some(e) = out.last() {
                    last = Some(e.apath.clone());
                }
            }
            if has_tail(b) {
                break;
            }
        }
        first = false;
        // nearest earlier band with a head file
        cur = (0..b).rev().find(|c| st.contains_key(&format!("{}/BANDHEAD", band_name(*c))) && st.get(&format!("{}/BANDHEAD", band_name(*c))).map(|v| v != "dir").unwrap_or(false));
        if let Some(c) = cur {
            if !head_ok(c) {
                // exists but unreadable: skipped with an error, the walk goes on below it
                let mut d = c;
                loop {
                    match (0..d).rev().find(|x| st.contains_key(&format!("{}/BANDHEAD", band_name(*x)))) {
                        Some(x) if head_ok(x) => { cur = Some(x); break }
                        Some(x) => { d = x; if has_tail(x) { cur = None; break } }
                        None => { cur = None; break }
                    }
                }
            }
        }
    }
    out
}

/// A backup killed between the two micro-steps of its FIRST index hunk write: leaves band `b` with a head and
/// a zero-length hunk 0.  Returns false if no crash point gives that state.
pub fn die_on_first_hunk(work: &Path, arch: &Path, src: &Path, params: &BackupParams, b: u32) -> bool {
    let scratch = work.join("scratch-arch");
    let fresh = |scratch: &Path| {
        if scratch.exists() {
            std::fs::remove_dir_all(scratch).unwrap();
        }
        crate::hist::copy_dir(arch, scratch);
    };
    fresh(&scratch);
    let dry = real_backup(&scratch, src, params, IceptConfig::default());
    let hunk0 = format!("{}/i/00000/000000000", band_name(b));
    for k in 0..dry.steps {
        fresh(&scratch);
        let _ = real_backup(&scratch, src, params, IceptConfig { crash_at: Some(k), ..Default::default() });
        let zero = std::fs::metadata(scratch.join(&hunk0)).map(|m| m.len() == 0).unwrap_or(false);
        if zero {
            let _ = std::fs::remove_dir_all(&scratch);
            let _ = real_backup(arch, src, params, IceptConfig { crash_at: Some(k), ..Default::default() });
            return std::fs::metadata(arch.join(&hunk0)).map(|m| m.len() == 0).unwrap_or(false);
        }
    }
    let _ = std::fs::remove_dir_all(&scratch);
    false
}


/// Directed, real code only: a LONG history — `n` versions of a tiny tree in which one file is rewritten before
/// every backup (so every version owns one block nobody else references) and one never changes.  Returns the
/// work directory, the archive path and, per version, the observed source tree.
pub fn many_versions(n: u32) -> (tempfile::TempDir, PathBuf, PathBuf, BTreeMap<u32, Vec<Obs>>) {
    let work = tempfile::tempdir().expect("tempdir");
    let (src, arch) = (work.path().join("src"), work.path().join("arch"));
    std::fs::create_dir(&src).unwrap();
    std::fs::write(src.join("const"), b"never changes, longer than the journal").unwrap();
    create_archive(&arch);
    let p = BackupParams { max_entries_per_hunk: 100_000, max_block_size: 20 << 20, small_file_cap: 0, owner: true, exclude: vec![] };
    let mut snaps = BTreeMap::new();
    for i in 0..n {
        std::fs::write(src.join("journal"), format!("entry of version {i:05}")).unwrap();
        filetime::set_file_mtime(src.join("journal"), filetime::FileTime::from_unix_time(1_600_000_000 + i as i64, 0)).unwrap();
        let r = real_backup(&arch, &src, &p, IceptConfig::default());
        assert!(r.result.starts_with("result ok"), "many_versions backup {i}: {}", r.result);
        snaps.insert(i, observe(&src));
    }
    (work, arch, src, snaps)
}

/// After `what` was done to the archive of `many_versions`: every version in `keep` restores to its snapshot.
pub fn many_versions_restore_all(report: &mut Report, sig: &str, what: &str, work: &Path, arch: &Path, snaps: &BTreeMap<u32, Vec<Obs>>, keep: &[u32]) {
    let mut bad: Vec<String> = vec![];
    for b in keep {
        let (rr, robs) = restore_observe(arch, work, &Sel::Band(*b), "many");
        if !rr.result.starts_with("result ok") || rr.events.iter().any(|e| e.starts_with("event error")) || crate::c01::tree_diff(&snaps[b], &robs).is_some() {
            bad.push(band_name(*b));
        }
    }
    if !bad.is_empty() {
        report.oracle_fail(sig, serde_json::json!({"directed": "many-versions", "versions": snaps.len(), "operation": what}), "after the operation some remaining complete versions no longer restore exactly", serde_json::json!({"harmed": bad}));
    }
}
