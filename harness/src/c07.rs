//! C07: archive files are write-once; only delete/gc removes, and only what it should; two
//! racing backups: the loser fails rather than writing into the winner's version.
use crate::absarch::abstract_archive;
use crate::compare::*;
use crate::conc::*;
use crate::hist::*;
use crate::model::run_model;
use crate::real::*;
use crate::report::Report;
use crate::rng::Rng;
use crate::sweep::*;
use crate::treespec::*;
use conserve::transport::{Transport, WriteMode};
use serde_json::{Value, json};
use std::collections::BTreeMap;

fn direct_transport_test(report: &mut Report) {
    // CreateNew onto an existing non-empty file must be refused; onto a zero-length leftover it may complete it.
    let dir = tempfile::tempdir().unwrap();
    let t = Transport::local(dir.path());
    let r = block_on_catch(|| async move {
        let a = t.write("f", b"one", WriteMode::CreateNew).await.is_ok();
        let b = t.write("f", b"two", WriteMode::CreateNew).await;
        let content = t.read("f").await.map(|b| b.to_vec()).unwrap_or_default();
        std::fs::write(dir.path().join("z"), b"").unwrap();
        let c = t.write("z", b"filled", WriteMode::CreateNew).await.is_ok();
        let zc = t.read("z").await.map(|b| b.to_vec()).unwrap_or_default();
        let d = t.write("f", b"three", WriteMode::Overwrite).await.is_ok();
        (a, b.as_ref().err().map(|e| kind_text(e.kind())), content, c, zc, d)
    })
    .expect("transport test");
    let (a, b, content, c, zc, d) = r;
    let case = json!({"op": "transport-create-new", "sequence": ["write f 'one' CreateNew", "write f 'two' CreateNew", "write z(empty leftover) 'filled' CreateNew", "write f 'three' Overwrite"]});
    report.case("transport-create-new", true);
    let observed = json!({"first": a, "second_error": b, "content_after_second": String::from_utf8_lossy(&content), "empty_leftover_completed": c, "leftover_content": String::from_utf8_lossy(&zc), "overwrite_ok": d});
    if !a || b != Some("ae") || content != b"one" {
        report.oracle_fail("create-new-not-enforced", case.clone(), "a CreateNew write onto an existing file was not refused (or changed its bytes)", observed.clone());
    }
    if !c || zc != b"filled" || !d {
        report.oracle_fail("create-new-leftover", case.clone(), "completing a zero-length leftover / overwriting failed", observed.clone());
    }
    // the model's store semantics on the same sequence
    let ans = run_model(&["store-clear".into(), "put . dir".into(), "enforce 1".into()]);
    let _ = ans;
}

fn removed_and_changed(before: &BTreeMap<String, Vec<u8>>, after: &BTreeMap<String, Vec<u8>>) -> (Vec<String>, Vec<String>) {
    let mut removed = vec![];
    let mut changed = vec![];
    for (k, v) in before {
        match after.get(k) {
            None => removed.push(k.clone()),
            Some(v2) if v2 != v && !v.is_empty() => changed.push(k.clone()),
            _ => {}
        }
    }
    (removed, changed)
}

fn check_history_step(report: &mut Report, case_id: &Value, si: usize, rec: &StepRecord) {
    let case = json!({"history": case_id, "step_index": si, "step": rec.step});
    let (removed, changed) = removed_and_changed(&rec.raw_before, &rec.raw_after);
    let Some(real) = &rec.real else { return };
    match rec.kind {
        "backup" | "backup-crash" => {
            if let Some(k) = removed.first() {
                report.oracle_fail("backup-removed-file", case.clone(), "a backup removed an existing archive file", json!(k));
            }
            if let Some(k) = changed.first() {
                report.oracle_fail("backup-altered-file", case.clone(), "a backup altered the bytes of an existing archive file", json!(k));
            }
            // no remove operations at all, and no path written twice
            let mut written: BTreeMap<String, usize> = BTreeMap::new();
            for l in &real.trace {
                let p: Vec<&str> = l.split(' ').collect();
                if p[1] == "rm" || p[1] == "rmtree" {
                    report.oracle_fail("backup-issued-remove", case.clone(), "a backup issued a remove operation", json!(l));
                }
                if p[1] == "write" && p.last() == Some(&"ok") {
                    *written.entry(p[2].to_string()).or_insert(0) += 1;
                }
            }
            for (path, n) in &written {
                let pre_empty = rec.raw_before.get(path).map(|v| v.is_empty()).unwrap_or(false);
                if *n > 1 || (rec.raw_before.contains_key(path) && !pre_empty) {
                    report.oracle_fail("path-written-twice", case.clone(), "a backup wrote a path that already held content (or wrote it twice)", json!({"path": path, "writes": n}));
                }
            }
            // new version id above every existing one
            let before_bands = all_bands(&rec.state_before);
            let new_bands: Vec<u32> = all_bands(&rec.state_after).into_iter().filter(|b| !before_bands.contains(b)).collect();
            for nb in &new_bands {
                if before_bands.iter().any(|b| b >= nb) {
                    report.oracle_fail("band-id-not-above", case.clone(), "the new version's id is not above every existing id", json!({"new": nb, "existing": before_bands}));
                }
            }
        }
        "delete" | "gc" => {
            if let Some(k) = changed.first() {
                report.oracle_fail("delete-altered-file", case.clone(), "delete/gc altered the bytes of a file", json!(k));
            }
            let requested: Vec<String> = rec.step.get("delete").and_then(|d| d.as_array()).map(|a| a.iter().map(|b| band_name(b.as_u64().unwrap() as u32)).collect()).unwrap_or_default();
            // blocks referenced by any band that remains
            let st_before = state_map(&rec.state_before);
            let remaining: Vec<u32> = all_bands(&rec.state_after);
            let mut referenced = std::collections::BTreeSet::new();
            for b in &remaining {
                for (_, e) in band_entries(&st_before, *b) {
                    for (h, _, _) in e.addrs {
                        referenced.insert(h);
                    }
                }
            }
            for k in &removed {
                let top = k.split('/').next().unwrap_or("");
                let ok = requested.iter().any(|r| r == top) || k == "GC_LOCK" || (k.starts_with("d/") && !referenced.contains(k.rsplit('/').next().unwrap_or("")));
                if !ok {
                    report.oracle_fail("delete-removed-too-much", case.clone(), "delete/gc removed something other than the requested versions, unreferenced blocks and its lock", json!(k));
                }
            }
        }
        _ => {}
    }
}


/// Just before the collector writes `GC_LOCK`, ANOTHER collector's lock appears (it checked a moment earlier and
/// won the race): the write is refused, genuinely.  Records whether this collector then removes the lock file.
struct OtherCollectorWins {
    root: std::path::PathBuf,
    done: std::sync::atomic::AtomicBool,
    removed_lock: std::sync::atomic::AtomicBool,
}

impl conserve::transport::verif_hooks::Interceptor for OtherCollectorWins {
    fn before(&self, op: &conserve::transport::verif_hooks::OpInfo) -> conserve::transport::verif_hooks::Decision {
        use conserve::transport::verif_hooks::{Decision, Verb};
        use std::sync::atomic::Ordering;
        let path = op.path.trim_start_matches("./");
        if op.verb == Verb::Write && path == "GC_LOCK" && !self.done.swap(true, Ordering::SeqCst) {
            std::fs::write(self.root.join("GC_LOCK"), b"{\"owner\":\"the other collector\"}\n").unwrap();
        } else if op.verb == Verb::RemoveFile && path == "GC_LOCK" {
            self.removed_lock.store(true, Ordering::SeqCst);
        }
        Decision::Proceed
    }
    fn after(&self, _op: &conserve::transport::verif_hooks::OpInfo, _outcome: &conserve::transport::verif_hooks::Outcome) {}
}

/// Directed, real code + the property's oracle: "only an explicit delete or gc removes files, and then only …
/// its OWN lock file".  Two collectors start together; this one loses the race for the lock.  It must fail and
/// leave the winner's lock alone — also afterwards, from whatever it does when its guard is dropped.
fn losing_collector_leaves_the_lock(report: &mut Report) {
    use conserve::{Archive, DeleteOptions};
    for workers in [1usize, 4] {
        let work = tempfile::tempdir().unwrap();
        let (src, arch) = (work.path().join("src"), work.path().join("arch"));
        std::fs::create_dir(&src).unwrap();
        std::fs::write(src.join("f"), b"some content").unwrap();
        create_archive(&arch);
        let b0 = real_backup(&arch, &src, &BackupParams::default(), crate::icept::IceptConfig::default());
        if !b0.result.starts_with("result ok") {
            return;
        }
        let ic = std::sync::Arc::new(OtherCollectorWins { root: arch.clone(), done: Default::default(), removed_lock: Default::default() });
        let rt = tokio::runtime::Builder::new_multi_thread().worker_threads(workers).enable_all().build().unwrap();
        let (ic2, a2) = (ic.clone(), arch.clone());
        let r = rt.block_on(async move {
            let transport = conserve::transport::Transport::local(&a2).with_interceptor(ic2);
            let archive = Archive::open(transport).await?;
            archive.delete_bands(&[], &DeleteOptions { dry_run: false, break_lock: false }, conserve::monitor::test::TestMonitor::arc()).await
        });
        // whatever was detached gets its chance, then the runtime goes
        std::thread::sleep(std::time::Duration::from_millis(150));
        drop(rt);
        let lock_now = std::fs::read(arch.join("GC_LOCK")).ok();
        let case = json!({"directed": "a collector loses the race for GC_LOCK", "runtime_workers": workers, "result": r.as_ref().map(|_| "ok".to_string()).unwrap_or_else(|e| err_text(e))});
        report.case(&format!("losing-collector/{workers}"), true);
        report.hit("directed:losing-collector");
        if r.is_ok() {
            report.oracle_fail("gc:ran-although-lock-taken", case.clone(), "a collector whose lock write was refused went ahead", json!(null));
        }
        if ic.removed_lock.load(std::sync::atomic::Ordering::SeqCst) || lock_now.as_deref() != Some(b"{\"owner\":\"the other collector\"}\n".as_slice()) {
            report.oracle_fail("gc:removed-anothers-lock", case.clone(), "the collector that lost the race for GC_LOCK removed (or altered) the winner's lock file", json!({"issued_remove": ic.removed_lock.load(std::sync::atomic::Ordering::SeqCst), "lock_file_now": lock_now.map(|b| String::from_utf8_lossy(&b).to_string())}));
        }
    }
}

pub fn run(tier: &str, seed: u64, report: &mut Report) {
    losing_collector_leaves_the_lock(report);
    let thorough = tier == "thorough";
    direct_transport_test(report);
    // ---- histories with byte-for-byte snapshots
    let n_hist = if thorough { 200 } else { 20 };
    for h in 0..n_hist {
        let case_seed = seed.wrapping_mul(2147483629).wrapping_add(h as u64);
        let mut rng = Rng::new(case_seed);
        let go = GenOpts { max_nodes: 12, block: 16, cap: 8, ..Default::default() };
        let mut steps = gen_history(&mut rng, if thorough { 20 } else { 12 }, &go, true, true);
        if h == 0 {
            // directed: an archive whose first version was written by conserve < 0.6.4 (tail without hunk count),
            // then a newer version, a gc with nothing to collect, and a delete of the newer version
            let t0 = steps.iter().find_map(|s| if let Step::SetTree(t) = s { Some(t.clone()) } else { None }).unwrap();
            let mut clock = 1_650_000_000_000_000_000;
            let t1 = mutate_tree(&mut rng, &t0, &go, &mut clock);
            steps = vec![Step::SetTree(t0), Step::Backup(gen_params(&mut rng)), Step::LegacyTail, Step::SetTree(t1), Step::Backup(gen_params(&mut rng)), Step::Gc, Step::Delete(vec![1], false), Step::Gc];
        }
        let case_id = json!({"case_seed": case_seed, "steps": history_json(&steps)});
        let o = HistOpts { restore_each: false, raw: true, sig: "wo" };
        let run = run_history(&steps, &o, report, &case_id);
        for (si, rec) in run.records.iter().enumerate() {
            check_history_step(report, &case_id, si, rec);
        }
        let answers = run.session.run();
        compare_history(&run, &answers, 0, &o, report, &case_id);
        report.case(&format!("hist/{case_seed}"), steps.len() > 2);
        if h == 0 {
            report.sample(json!({"kind": "history", "case_seed": case_seed, "steps": steps.len()}));
        }
    }
    // ---- two backups racing on one archive
    let n_scen = if thorough { 12 } else { 2 };
    for sidx in 0..n_scen {
        let case_seed = seed.wrapping_mul(998244353).wrapping_add(sidx as u64);
        let mut rng = Rng::new(case_seed);
        let go = GenOpts { max_nodes: 6, block: 16, cap: 8, max_depth: 2, ..Default::default() };
        let mut steps = gen_history(&mut rng, 3, &go, false, false);
        let t_last = steps.iter().rev().find_map(|s| if let Step::SetTree(t) = s { Some(t.clone()) } else { None }).unwrap();
        let mut clock = 1_800_000_000_000_000_000;
        let tree_a = mutate_tree(&mut rng, &t_last, &go, &mut clock);
        let tree_b = mutate_tree(&mut rng, &tree_a, &go, &mut clock);
        steps.push(Step::SetTree(tree_a.clone()));
        let case_id = json!({"case_seed": case_seed, "prefix": history_json(&steps)});
        let sc = build_scenario(&steps, report, &case_id, "race-prefix");
        // second source
        let src_b = sc.run.work.path().join("src-b");
        tree_b.materialize(&src_b);
        let obs_a = sc.src_obs.clone();
        let obs_b = observe(&src_b);
        let pa = BackupParamsOwned { hunk: 2, block: 16, cap: 8 };
        let a = ActorSpec::Backup { params: pa.clone(), source: sc.run.src.clone(), slot: 0 };
        let b = ActorSpec::Backup { params: pa.clone(), source: src_b.clone(), slot: 1 };
        // schedules: A runs i ops, B runs j ops, A runs k ops, then A to the end, then B
        let mut schedules: Vec<Vec<bool>> = Vec::new();
        let lim = 10;
        for i in 0..lim {
            for j in 0..lim {
                for k in [0usize, 1, 3, 8] {
                    let mut s = vec![false; i];
                    s.extend(vec![true; j]);
                    s.extend(vec![false; k]);
                    schedules.push(s);
                }
            }
        }
        rng.shuffle(&mut schedules);
        let take = if thorough { 160 } else { 40 };
        schedules.truncate(take);
        // random schedules around band creation.  The model collects the basis listing eagerly while
        // the code reads it lazily; the two agree as long as the OTHER backup writes no index hunk
        // before this one has finished — so B gets at most 9 moves (its first hunk write is later).
        for _ in 0..(if thorough { 60 } else { 15 }) {
            let n = 10 + rng.below(30);
            let mut b_moves = 0;
            let s: Vec<bool> = (0..n).map(|_| rng.chance(1, 2)).filter(|x| { if *x { b_moves += 1; b_moves <= 9 } else { true } }).collect();
            schedules.push(s);
        }
        let mut session = Session::new();
        let mut pend = Vec::new();
        for (qi, sched) in schedules.iter().enumerate() {
            let arch = fresh_copy(&sc, "race");
            let (ra, rb) = run_schedule(&arch, &a, &b, sched);
            let (post, _) = abstract_archive(&arch);
            let sched_text: String = sched.iter().map(|b| if *b { '1' } else { '0' }).collect();
            let case = json!({"scenario": case_id, "schedule": sched_text, "actors": ["backup(source A)", "backup(source B)"]});
            report.case(&format!("race/{case_seed}/{qi}"), sched.iter().any(|x| *x) && sched.iter().any(|x| !*x));
            report.hit("race-schedule");
            // ---- oracle: nothing existing touched; every complete new version is entirely one actor's
            if let Some(why) = extends(&sc.pre_state, &post) {
                report.oracle_fail("race:existing-file-touched", case.clone(), "racing backups altered or removed an existing file", json!(why));
            }
            let before = all_bands(&sc.pre_state);
            for nb in complete_bands(&post).into_iter().filter(|b| !before.contains(b)) {
                let (rr, robs) = restore_observe(&arch, sc.run.work.path(), &Sel::Band(nb), "race");
                // whose version is it?  The actor that wrote its tail.
                let tail = format!("op write {}/BANDTAIL", band_name(nb));
                let a_wrote = ra.trace.iter().any(|l| l.starts_with(&tail) && l.ends_with(" ok"));
                let b_wrote = rb.trace.iter().any(|l| l.starts_with(&tail) && l.ends_with(" ok"));
                let (owner_obs, owner_res) = if a_wrote && !b_wrote { (&obs_a, &ra) } else if b_wrote && !a_wrote { (&obs_b, &rb) } else {
                    report.oracle_fail("race:mixed-version", case.clone(), "a version was completed by both or by neither of the racing backups", json!({"band": band_name(nb), "a_wrote_tail": a_wrote, "b_wrote_tail": b_wrote}));
                    continue;
                };
                let clean = owner_res.result.contains(" errors=0");
                // with counted errors (e.g. the other backup stored the same new block first and this
                // one's CreateNew write was refused) files may be missing, but never mixed or altered
                let exact = crate::c01::tree_diff(owner_obs, &robs).is_none();
                let want: std::collections::BTreeMap<&str, &Obs> = owner_obs.iter().map(|o| (o.apath.as_str(), o)).collect();
                let subset = robs.iter().all(|o| want.get(o.apath.as_str()).map(|w| *w == o || (o.kind == 'd' && w.kind == 'd')).unwrap_or(false));
                if !rr.result.starts_with("result ok") || (clean && (!exact || !rr.events.is_empty())) || (!clean && !subset) {
                    report.oracle_fail("race:mixed-version", case.clone(), "a version completed during the race is not its own backup's source (something of the other backup got into it, or a clean success lost files)", json!({"band": band_name(nb), "restore": trunc(&rr.result), "owner_result": trunc(&owner_res.result), "exact": exact, "subset": subset}));
                }
                if !clean {
                    report.hit("race:version-completed-with-counted-errors");
                }
            }
            let ok_count = [&ra, &rb].iter().filter(|r| r.result.starts_with("result ok")).count();
            let new_complete = complete_bands(&post).into_iter().filter(|b| !before.contains(b)).count();
            if ok_count > new_complete {
                report.oracle_fail("race:both-succeeded-one-version", case.clone(), "two backups both reported success but fewer versions were completed", json!({"a": trunc(&ra.result), "b": trunc(&rb.result), "new_complete": new_complete}));
            }
            report.hit(&format!("race-outcome:{}ok", ok_count));
            remove_copy(&arch);
            // ---- model
            session.load_store(&sc.pre_state);
            session.load_src(&src_lines(&obs_a));
            session.push("src-save 0".into());
            session.load_src(&src_lines(&obs_b));
            session.push("src-save 1".into());
            let i_req = session.push(format!("sched {} {} {}", if sched_text.is_empty() { "-".to_string() } else { sched_text.clone() }, a.model_token(1), b.model_token(1)));
            let i_dump = session.push("dump".into());
            pend.push((case, ra, rb, post, i_req, i_dump));
        }
        if sidx == 0 {
            report.sample(json!({"kind": "race", "scenario_seed": case_seed, "schedules": schedules.len(), "example_schedule": schedules[0].iter().map(|b| if *b { '1' } else { '0' }).collect::<String>()}));
        }
        let answers = session.run();
        for (case, ra, rb, post, i_req, i_dump) in &pend {
            let lines = &answers[*i_req];
            let ma = parse_answer(&lines.iter().filter_map(|l| l.strip_prefix("A ").map(|s| s.to_string())).collect::<Vec<_>>());
            let mb = parse_answer(&lines.iter().filter_map(|l| l.strip_prefix("B ").map(|s| s.to_string())).collect::<Vec<_>>());
            compare_run(report, "race:A", case, ra, &ma, &CmpOpts::default());
            compare_run(report, "race:B", case, rb, &mb, &CmpOpts::default());
            compare_state(report, "race", case, post, &answers[*i_dump]);
        }
        // ---- the race MEETS a storage fault (real code + the property's oracle): A has worked out its version
        // id, B then runs to the end (taking that id and completing), and A's own BANDHEAD write fails with
        // something other than "already exists".  "The loser fails rather than writing into the winner's
        // version" — and it certainly leaves the winner's files alone.
        let nb = all_bands(&sc.pre_state).into_iter().max().map(|b| b + 1).unwrap_or(0);
        for i in 0..9usize {
            for kind in ["ot", "pd"] {
                let arch = fresh_copy(&sc, "racef");
                let mut sched = vec![false; i];
                sched.extend(vec![true; 400]);
                let fault = fault_spec("write", &format!("{}/BANDHEAD", band_name(nb)), 0, kind);
                let (ra, rb) = run_schedule_with_faults(&arch, &a, &b, &sched, vec![fault], vec![]);
                let (post, _) = abstract_archive(&arch);
                let case = json!({"scenario": case_id, "schedule": format!("A moves {i} times, then B to the end, then A"), "fault": format!("A: write {}/BANDHEAD fails ({kind})", band_name(nb)), "actors": ["backup(source A)", "backup(source B)"]});
                report.case(&format!("race-fault/{case_seed}/{i}/{kind}"), true);
                report.hit("race-schedule-with-fault");
                if let Some(why) = extends(&sc.pre_state, &post) {
                    report.oracle_fail("race:existing-file-touched", case.clone(), "racing backups altered or removed an existing file", json!(why));
                }
                // whatever B wrote (it ran to the end before A resumed) is still there, byte for byte
                let b_files: Vec<&str> = rb.trace.iter().filter(|l| l.starts_with("op write ") && l.ends_with(" ok")).filter_map(|l| l.split(' ').nth(2)).collect();
                let post_map = state_map(&post);
                for f in &b_files {
                    if !post_map.contains_key(*f) {
                        report.oracle_fail("race:loser-removed-winners-file", case.clone(), "a file the other (finished) backup had written is gone after the losing backup failed", json!({"file": f, "a": trunc(&ra.result), "b": trunc(&rb.result)}));
                        break;
                    }
                }
                if rb.result.starts_with("result ok") && rb.result.contains(" errors=0") {
                    let b_band = complete_bands(&post).into_iter().filter(|x| !all_bands(&sc.pre_state).contains(x)).find(|x| rb.trace.iter().any(|l| l.starts_with(&format!("op write {}/BANDTAIL", band_name(*x))) && l.ends_with(" ok")));
                    match b_band {
                        None => report.oracle_fail("race:successful-backup-has-no-version", case.clone(), "a backup reported clean success but its version is not there (complete) after the race", json!({"a": trunc(&ra.result), "b": trunc(&rb.result)})),
                        Some(x) => {
                            let (rr, robs) = restore_observe(&arch, sc.run.work.path(), &Sel::Band(x), "racef");
                            if !rr.result.starts_with("result ok") || !rr.events.is_empty() || crate::c01::tree_diff(&obs_b, &robs).is_some() {
                                report.oracle_fail("race:mixed-version", case.clone(), "the version of the backup that reported clean success does not restore to its source after the race", json!({"band": band_name(x), "restore": trunc(&rr.result)}));
                            }
                        }
                    }
                }
                remove_copy(&arch);
            }
        }
    }
}
