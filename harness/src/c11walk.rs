//! C11 (walk part): the source-tree walk of src/source.rs (`Iter`) on real directories against the
//! Lean model `walkDeque` / `walkRec` (ConserveModel/Tree.lean), plus model-free oracles:
//! emission strictly increasing under `Apath::cmp`, root first, emitted set = the nodes that
//! are not excluded and have no excluded proper ancestor.
use crate::model::{run_model, s};
use crate::pathgen::VALID_COMPONENTS;
use crate::report::Report;
use crate::rng::Rng;
use conserve::monitor::test::TestMonitor;
use conserve::{Apath, EntryTrait, Exclude, SourceTree};
use serde_json::{Value, json};
use std::collections::{BTreeMap, BTreeSet};
use std::path::{Path, PathBuf};
use std::time::Instant;

#[derive(Clone, Debug, PartialEq)]
enum Kind {
    File,
    Dir,
    Symlink(String),
}

impl Kind {
    fn letter(&self) -> &'static str {
        match self {
            Kind::File => "f",
            Kind::Dir => "d",
            Kind::Symlink(_) => "l",
        }
    }
}

#[derive(Clone, Debug)]
struct GNode {
    parent: Option<usize>,
    name: String,
    kind: Kind,
    apath: String,
    depth: usize,
    /// children in generation order
    kids: Vec<usize>,
}

struct Tree {
    nodes: Vec<GNode>,
    has_shape: bool,
}

/// Names that sort differently byte-wise in a full path than component-wise ("a" before "a.b",
/// "a-", "a b" although '/' is greater than '.', '-', ' '), plus non-ASCII.
const TRICKY: &[&str] = &["a", "ab", "a.b", "a-", "a b", "a!", "a0", "aé", "a~", "A", "é", "日"];

const NAME_CHARS: &[char] = &[
    'a', 'b', 'c', 'A', 'Z', '0', '9', '.', '-', ' ', '!', '~', '_', '+', ',', '#', '*', '?', '[', ']', '{', '\\', '\'',
    '"', '\t', 'é', 'ñ', 'ß', 'Ω', '日', '本', '\u{1F600}', '\u{7f}', '\u{1}',
];

fn random_name(rng: &mut Rng) -> String {
    loop {
        let n = match rng.below(3) {
            0 => rng.pick(VALID_COMPONENTS).to_string(),
            1 => rng.pick(TRICKY).to_string(),
            _ => {
                let len = 1 + rng.below(4);
                (0..len).map(|_| *rng.pick(NAME_CHARS)).collect()
            }
        };
        if !n.is_empty() && n != "." && n != ".." && !n.contains('/') && !n.contains('\0') && n != "CACHEDIR.TAG" {
            return n;
        }
    }
}

fn child_apath(parent: &str, name: &str) -> String {
    if parent == "/" { format!("/{name}") } else { format!("{parent}/{name}") }
}

impl Tree {
    fn new() -> Tree {
        Tree {
            nodes: vec![GNode { parent: None, name: String::new(), kind: Kind::Dir, apath: "/".into(), depth: 0, kids: vec![] }],
            has_shape: false,
        }
    }
    fn has_child_named(&self, p: usize, name: &str) -> bool {
        self.nodes[p].kids.iter().any(|k| self.nodes[*k].name == name)
    }
    /// Add a child unless the name is taken; returns its index.
    fn add(&mut self, p: usize, name: &str, kind: Kind) -> Option<usize> {
        assert!(self.nodes[p].kind == Kind::Dir);
        assert!(name != "CACHEDIR.TAG");
        if self.has_child_named(p, name) {
            return None;
        }
        let i = self.nodes.len();
        let apath = child_apath(&self.nodes[p].apath, name);
        let depth = self.nodes[p].depth + 1;
        self.nodes.push(GNode { parent: Some(p), name: name.to_string(), kind, apath, depth, kids: vec![] });
        self.nodes[p].kids.push(i);
        Some(i)
    }
    fn max_depth(&self) -> usize {
        self.nodes.iter().map(|n| n.depth).max().unwrap_or(0)
    }
    fn nontrivial(&self) -> bool {
        self.nodes.iter().skip(1).any(|n| !n.kids.is_empty())
    }
}

fn random_kind(rng: &mut Rng, tree: &Tree, parent: usize, dir_bias: u32) -> Kind {
    match rng.below(10) as u32 {
        x if x < dir_bias => Kind::Dir,
        9 => {
            // symlink: dangling, to a sibling (possibly a directory), upwards, absolute, odd
            let t = match rng.below(6) {
                0 => "nonexistent".to_string(),
                1 | 2 => match tree.nodes[parent].kids.as_slice() {
                    [] => "..".to_string(),
                    ks => tree.nodes[*rng.pick(ks)].name.clone(),
                },
                3 => "..".to_string(),
                4 => "/".to_string(),
                _ => random_name(rng),
            };
            Kind::Symlink(t)
        }
        _ => Kind::File,
    }
}

fn gen_tree(rng: &mut Rng, max_depth: usize, max_nodes: usize) -> Tree {
    let mut t = Tree::new();
    let budget = 1 + rng.below(max_nodes);
    let dir_bias = 2 + rng.below(4) as u32;
    // the interesting shape: directory `a` with children next to `a.b`, `ab`, `a-`, ...
    if rng.chance(3, 5) && budget >= 6 {
        // where: the root, or one level down
        let mut at = 0;
        if rng.chance(1, 3) && max_depth >= 3 {
            let n = random_name(rng);
            at = t.add(0, &n, Kind::Dir).unwrap();
        }
        let mut sibs: Vec<&str> = vec!["a.b", "ab", "a-", "a b", "a!", "a0", "aé"];
        rng.shuffle(&mut sibs);
        let n_sibs = 2 + rng.below(3);
        let mut order: Vec<&str> = sibs[..n_sibs].to_vec();
        order.push("a");
        rng.shuffle(&mut order);
        for name in order {
            let kind = if name == "a" || rng.chance(1, 2) { Kind::Dir } else { random_kind(rng, &t, at, 0) };
            let i = t.add(at, name, kind.clone()).unwrap();
            if kind == Kind::Dir && (name == "a" || rng.chance(2, 3)) {
                for _ in 0..(1 + rng.below(3)) {
                    let cn = random_name(rng);
                    let ck = random_kind(rng, &t, i, 2);
                    t.add(i, &cn, ck);
                }
            }
        }
        t.has_shape = true;
    }
    let mut attempts = 0;
    while t.nodes.len() < budget && attempts < 4 * max_nodes {
        attempts += 1;
        let dirs: Vec<usize> =
            t.nodes.iter().enumerate().filter(|(_, n)| n.kind == Kind::Dir && n.depth < max_depth).map(|(i, _)| i).collect();
        // prefer recently created directories sometimes, to get depth
        let p = if rng.chance(1, 3) { *dirs.last().unwrap() } else { *rng.pick(&dirs) };
        let name = random_name(rng);
        let kind = if t.nodes[p].depth + 1 >= max_depth {
            match random_kind(rng, &t, p, dir_bias) {
                Kind::Dir if rng.chance(1, 2) => Kind::File,
                k => k,
            }
        } else {
            random_kind(rng, &t, p, dir_bias)
        };
        t.add(p, &name, kind);
    }
    t
}

fn fs_path(root: &Path, apath: &str) -> PathBuf {
    if apath == "/" { root.to_path_buf() } else { root.join(&apath[1..]) }
}

fn materialise(rng: &mut Rng, tree: &Tree, root: &Path) -> std::io::Result<()> {
    for n in tree.nodes.iter().skip(1) {
        let p = fs_path(root, &n.apath);
        match &n.kind {
            Kind::Dir => std::fs::create_dir(&p)?,
            Kind::File => {
                let len = rng.below(4);
                std::fs::write(&p, vec![b'x'; len])?
            }
            Kind::Symlink(t) => std::os::unix::fs::symlink(t, &p)?,
        }
    }
    Ok(())
}

/// Children of every directory node in the order `read_dir` returns them.
fn readdir_order(tree: &Tree, root: &Path) -> std::io::Result<Vec<Vec<usize>>> {
    let mut out = vec![vec![]; tree.nodes.len()];
    for (i, n) in tree.nodes.iter().enumerate() {
        if n.kind != Kind::Dir {
            continue;
        }
        let by_name: BTreeMap<&str, usize> = n.kids.iter().map(|k| (tree.nodes[*k].name.as_str(), *k)).collect();
        for de in std::fs::read_dir(fs_path(root, &n.apath))? {
            let name = de?.file_name().into_string().expect("utf-8 name");
            out[i].push(*by_name.get(name.as_str()).expect("read_dir returned an unknown name"));
        }
        assert_eq!(out[i].len(), n.kids.len(), "read_dir lost children");
    }
    Ok(out)
}

/// A random linearisation with parents before children that keeps the given sibling order.
fn linearise(rng: &mut Rng, child_order: &[Vec<usize>]) -> Vec<usize> {
    let mut out = vec![0usize];
    // open directories: (node, next child position)
    let mut open: Vec<(usize, usize)> = vec![];
    if !child_order[0].is_empty() {
        open.push((0, 0));
    }
    while !open.is_empty() {
        let k = match rng.below(3) {
            0 => 0,
            1 => open.len() - 1,
            _ => rng.below(open.len()),
        };
        let (d, pos) = open[k];
        let c = child_order[d][pos];
        out.push(c);
        if pos + 1 < child_order[d].len() {
            open[k].1 = pos + 1;
        } else {
            open.remove(k);
        }
        if !child_order[c].is_empty() {
            open.push((c, 0));
        }
    }
    out
}

fn request(op: &str, tree: &Tree, lin: &[usize], excluded: &[&str]) -> String {
    let mut new_index = vec![usize::MAX; tree.nodes.len()];
    for (j, i) in lin.iter().enumerate() {
        new_index[*i] = j;
    }
    let mut r = format!("{op} {}", lin.len());
    for i in lin {
        let n = &tree.nodes[*i];
        let p = match n.parent {
            None => "-".to_string(),
            Some(p) => new_index[p].to_string(),
        };
        r.push_str(&format!(" {}:{}:{}", p, n.kind.letter(), s(n.name.as_bytes())));
    }
    r.push_str(&format!(" {}", excluded.len()));
    for x in excluded {
        r.push(' ');
        r.push_str(&s(x.as_bytes()));
    }
    r
}

fn gen_globs(rng: &mut Rng, tree: &Tree) -> Vec<String> {
    let n = 1 + rng.below(3);
    let non_root: Vec<&GNode> = tree.nodes.iter().skip(1).collect();
    (0..n)
        .map(|_| {
            let node = if non_root.is_empty() { None } else { Some(*rng.pick(&non_root)) };
            match (rng.below(16), node) {
                (0 | 1, Some(n)) => n.name.clone(),
                (2 | 3, Some(n)) => n.apath.clone(),
                (4, Some(n)) => format!("{}/*", n.apath),
                (5, Some(n)) => format!("/{}", n.name),
                (6, Some(n)) => format!("**/{}", n.name),
                (7, Some(n)) => {
                    // a prefix of the name and a star
                    let c: String = n.name.chars().take(1).collect();
                    format!("{c}*")
                }
                (8, _) => "/a".to_string(),
                (9, _) => "/a/*".to_string(),
                (10, _) => "*.b".to_string(),
                (11, _) => "a*".to_string(),
                (12, _) => "**/b".to_string(),
                (13, _) => (*rng.pick(&["a?", "?", "[a-b]*", "a[!.]*", "/*/*", "/**/a", "a", "a.b", "ab", "a-", "*-", "/*/a*"])).to_string(),
                (14, _) => (*rng.pick(&["*", "/**", "/", "", "**", "/*"])).to_string(),
                (_, _) => format!("/{}", rng.pick(TRICKY)),
            }
        })
        .collect()
}

struct Case {
    tree: Tree,
    globs: Option<Vec<String>>,
    shuffled: bool,
    real: Vec<String>,
    excluded: Vec<String>,
    /// index into the request vector: walk, walkrec, (walk with minimal excluded set)
    req_walk: usize,
    req_rec: usize,
    req_min: Option<usize>,
}

impl Case {
    fn to_json(&self, request: &str) -> Value {
        json!({
            "op": "walk",
            "nodes": self.tree.nodes.iter().map(|n| json!({"apath": n.apath, "kind": n.kind.letter()})).collect::<Vec<_>>(),
            "globs": self.globs,
            "excluded": self.excluded,
            "model_order": if self.shuffled { "shuffled" } else { "read_dir" },
            "request": request,
        })
    }
}

fn hex_apath(line: &str) -> String {
    match line.strip_prefix("s:").and_then(|h| hex::decode(h).ok()) {
        Some(b) => String::from_utf8_lossy(&b).into_owned(),
        None => format!("<{line}>"),
    }
}

/// What the real walk does when the source root itself is a symlink to a directory.  `Iter::new`
/// lstats `Apath("/").below(root)` = `root.push("")`, i.e. the path WITH A TRAILING SLASH, which
/// the kernel resolves through the symlink: the root entry is a Dir and the target is walked, so
/// such a root behaves like a directory node of the model.  Recorded as a note.
fn probe_root_symlink(report: &mut Report) {
    let dir = tempfile::tempdir().expect("tempdir");
    let real_dir = dir.path().join("real");
    std::fs::create_dir(&real_dir).unwrap();
    std::fs::write(real_dir.join("f"), b"x").unwrap();
    std::fs::create_dir(real_dir.join("d")).unwrap();
    std::fs::write(real_dir.join("d").join("g"), b"x").unwrap();
    let link = dir.path().join("link");
    std::os::unix::fs::symlink("real", &link).unwrap();
    std::os::unix::fs::symlink("real/f", dir.path().join("link-to-file")).unwrap();
    std::os::unix::fs::symlink("nowhere", dir.path().join("dangling")).unwrap();
    let walk = |p: PathBuf| -> Vec<String> {
        match SourceTree::open(&p).and_then(|t| t.iter_entries(Apath::root(), Exclude::nothing(), TestMonitor::arc())) {
            Ok(it) => it.map(|e| format!("{}:{:?}", e.apath(), e.kind())).collect(),
            Err(e) => vec![format!("Err({e})")],
        }
    };
    let got = walk(link);
    report.hit(if got.len() > 1 { "probe:root-symlink-to-dir:descends" } else { "probe:root-symlink-to-dir:root-only" });
    report.notes.push(format!("probe: source root that is a symlink to a directory {{f, d/g}} walks as {got:?}"));
    for (what, p) in [("regular file", real_dir.join("f")), ("symlink to a file", dir.path().join("link-to-file")), ("dangling symlink", dir.path().join("dangling"))] {
        let got = walk(p);
        report.hit(if got.iter().any(|x| x.starts_with("Err(")) { "probe:non-dir-root:error" } else { "probe:non-dir-root:walks" });
        report.notes.push(format!("probe: source root that is a {what} gives {got:?}"));
    }
}

pub fn run(tier: &str, seed: u64, report: &mut Report) {
    let started = Instant::now();
    probe_root_symlink(report);
    let mut rng = Rng::new(seed ^ 0x11_77a1);
    let thorough = tier == "thorough";
    let (n_trees, budget_secs) = if thorough { (8000, 200) } else { (800, 12) };
    let mut cases: Vec<Case> = Vec::new();
    let mut requests: Vec<String> = Vec::new();

    for t in 0..n_trees {
        if started.elapsed().as_secs() >= budget_secs {
            report.notes.push(format!("time budget reached after {t} of {n_trees} trees"));
            break;
        }
        let (max_depth, max_nodes) = if thorough {
            match rng.below(4) {
                0 => (4, 40),
                1 => (6, 120),
                2 => (3, 200),
                _ => (8, 80),
            }
        } else {
            (1 + rng.below(4), 40)
        };
        let tree = gen_tree(&mut rng, max_depth, max_nodes);
        let dir = tempfile::tempdir().expect("tempdir");
        materialise(&mut rng, &tree, dir.path()).expect("materialise tree");

        // --- exclusions
        let mut globs = if rng.chance(1, 2) { Some(gen_globs(&mut rng, &tree)) } else { None };
        let exclude = match &globs {
            None => Exclude::nothing(),
            Some(g) => match Exclude::from_strings(g) {
                Ok(e) => e,
                Err(_) => {
                    report.hit("excl:glob-parse-error->none");
                    globs = None;
                    Exclude::nothing()
                }
            },
        };
        let is_excl: Vec<bool> = tree.nodes.iter().map(|n| exclude.matches(n.apath.as_str())).collect();

        // --- the real walk
        let real: Vec<String> = SourceTree::open(dir.path())
            .expect("open source tree")
            .iter_entries(Apath::root(), exclude.clone(), TestMonitor::arc())
            .expect("iter_entries")
            .map(|e| e.apath().to_string())
            .collect();

        // --- the model's view of the tree
        let shuffled = rng.chance(1, 2);
        let rd = readdir_order(&tree, dir.path()).expect("read_dir");
        let child_order: Vec<Vec<usize>> = if shuffled {
            tree.nodes
                .iter()
                .map(|n| {
                    let mut k = n.kids.clone();
                    rng.shuffle(&mut k);
                    k
                })
                .collect()
        } else {
            rd.clone()
        };
        drop(dir);
        let lin = linearise(&mut rng, &child_order);
        assert_eq!(lin.len(), tree.nodes.len());
        // excluded set: every matching node; the root only now and then (it must be harmless)
        let with_root = rng.chance(1, 2);
        let excluded: Vec<String> = tree
            .nodes
            .iter()
            .enumerate()
            .filter(|(i, _)| is_excl[*i] && (*i != 0 || with_root))
            .map(|(_, n)| n.apath.clone())
            .collect();
        let mut ex_refs: Vec<&str> = excluded.iter().map(|x| x.as_str()).collect();
        rng.shuffle(&mut ex_refs);
        let req_walk = requests.len();
        requests.push(request("walk", &tree, &lin, &ex_refs));
        let req_rec = requests.len();
        requests.push(request("walkrec", &tree, &lin, &ex_refs));
        // minimal excluded set: only the top-most excluded nodes (the walk never asks below them)
        let minimal: Vec<&str> = tree
            .nodes
            .iter()
            .enumerate()
            .skip(1)
            .filter(|(i, n)| {
                is_excl[*i] && {
                    let mut p = n.parent;
                    let mut top = true;
                    while let Some(q) = p {
                        if q != 0 && is_excl[q] {
                            top = false;
                        }
                        p = tree.nodes[q].parent;
                    }
                    top
                }
            })
            .map(|(_, n)| n.apath.as_str())
            .collect();
        let req_min = if minimal.len() != ex_refs.len() {
            requests.push(request("walk", &tree, &lin, &minimal));
            Some(requests.len() - 1)
        } else {
            None
        };

        // --- histogram
        report.hit(if globs.is_some() { "excl:globs" } else { "excl:none" });
        if is_excl[0] {
            report.hit(if with_root { "excl:root-matches-sent" } else { "excl:root-matches-not-sent" });
        }
        if is_excl.iter().skip(1).any(|b| *b) {
            report.hit("excl:some-node-excluded");
        }
        if tree.nodes.iter().enumerate().skip(1).any(|(i, n)| is_excl[i] && !n.kids.is_empty()) {
            report.hit("excl:pruned-dir");
        }
        if tree.nodes.iter().enumerate().skip(1).any(|(i, n)| {
            is_excl[i] && n.kind == Kind::Dir && n.parent.map(|p| tree.nodes[p].kids.iter().any(|k| !is_excl[*k] && tree.nodes[*k].kind == Kind::Dir)).unwrap_or(false)
        }) {
            report.hit("excl:dir-excluded-next-to-kept-dir");
        }
        if tree.has_shape {
            report.hit("shape:a-with-siblings");
        }
        report.hit(if shuffled { "order:shuffled" } else { "order:read_dir" });
        if tree.nodes.iter().enumerate().any(|(i, n)| {
            let mut sorted = n.kids.clone();
            sorted.sort_by(|a, b| tree.nodes[*a].name.cmp(&tree.nodes[*b].name));
            rd[i] != sorted
        }) {
            report.hit("order:read_dir-not-sorted");
        }
        report.hit(&format!("depth:{}", tree.max_depth()));
        report.hit(match tree.nodes.len() {
            0..=5 => "nodes:1-5",
            6..=20 => "nodes:6-20",
            21..=40 => "nodes:21-40",
            41..=100 => "nodes:41-100",
            _ => "nodes:101+",
        });
        if tree.nodes.iter().any(|n| matches!(&n.kind, Kind::Symlink(t) if n.parent.map(|p| tree.nodes[p].kids.iter().any(|k| tree.nodes[*k].name == *t && tree.nodes[*k].kind == Kind::Dir && !tree.nodes[*k].kids.is_empty())).unwrap_or(false))) {
            report.hit("kind:symlink-to-nonempty-dir");
        }
        if tree.nodes.iter().any(|n| matches!(n.kind, Kind::Symlink(_))) {
            report.hit("kind:has-symlink");
        }
        if tree.nodes.iter().any(|n| !n.name.is_ascii()) {
            report.hit("name:non-ascii");
        }
        {
            let mut bytewise = real.clone();
            bytewise.sort();
            if bytewise != real {
                report.hit("order:emission-differs-from-bytewise-sort");
            }
        }
        if tree.nodes.len() == 1 {
            report.hit("shape:empty-root");
        }

        cases.push(Case { tree, globs, shuffled, real, excluded, req_walk, req_rec, req_min });
    }
    let t_real = started.elapsed();

    // --- the model, one batch
    let answers = run_model(&requests);
    let t_model = started.elapsed();

    for (ci, c) in cases.iter().enumerate() {
        let canonical = format!("{} globs={:?}", requests[c.req_walk], c.globs);
        report.case(&canonical, c.tree.nontrivial());
        let case_json = || c.to_json(&requests[c.req_walk]);
        let model: Vec<String> = answers[c.req_walk].iter().map(|l| hex_apath(l)).collect();
        let model_rec: Vec<String> = answers[c.req_rec].iter().map(|l| hex_apath(l)).collect();
        if model != c.real {
            report.disagree("walk", case_json(), json!(c.real), json!(model));
        }
        if model_rec != c.real {
            report.disagree("walkrec", case_json(), json!(c.real), json!(model_rec));
        }
        if let Some(m) = c.req_min {
            report.hit("excl:minimal-set-also-sent");
            let model_min: Vec<String> = answers[m].iter().map(|l| hex_apath(l)).collect();
            if model_min != c.real {
                report.disagree("walk-minimal-excluded-set", c.to_json(&requests[m]), json!(c.real), json!(model_min));
            }
        }

        // --- oracles on the implementation alone
        if c.real.first().map(|x| x.as_str()) != Some("/") {
            report.oracle_fail("walk-root-first", case_json(), "the first emitted entry is not the root", json!(c.real));
        }
        let apaths: Vec<Apath> = c.real.iter().map(|x| Apath::from(x.as_str())).collect();
        if let Some(w) = apaths.windows(2).find(|w| !(w[0] < w[1])) {
            report.oracle_fail(
                "walk-sorted",
                case_json(),
                "emitted apaths are not strictly increasing under Apath::cmp",
                json!({"emitted": c.real, "first_bad_pair": [w[0].to_string(), w[1].to_string()]}),
            );
        }
        let excl_set: BTreeSet<&str> = c.excluded.iter().map(|x| x.as_str()).collect();
        let mut expected: BTreeSet<&str> = BTreeSet::new();
        for n in &c.tree.nodes {
            // the node itself and every proper ancestor other than the root must not be excluded
            let mut ok = true;
            let mut cur = Some(n);
            while let Some(m) = cur {
                if m.parent.is_some() && excl_set.contains(m.apath.as_str()) {
                    ok = false;
                }
                cur = m.parent.map(|p| &c.tree.nodes[p]);
            }
            if ok {
                expected.insert(n.apath.as_str());
            }
        }
        let got: BTreeSet<&str> = c.real.iter().map(|x| x.as_str()).collect();
        if got != expected || got.len() != c.real.len() {
            let missing: Vec<&&str> = expected.difference(&got).collect();
            let extra: Vec<&&str> = got.difference(&expected).collect();
            report.oracle_fail(
                "walk-set",
                case_json(),
                "emitted set differs from {nodes with no excluded self-or-ancestor below the root} (or has duplicates)",
                json!({"emitted": c.real, "missing": missing, "extra": extra}),
            );
        }
        if ci % (cases.len() / 5).max(1) == 3 {
            report.sample(json!({"case": case_json(), "impl": c.real, "model": model}));
        }
    }
    report.notes.push(format!(
        "{} trees, {} model requests; real walks {:.1}s, model {:.1}s, total {:.1}s",
        cases.len(),
        requests.len(),
        t_real.as_secs_f64(),
        (t_model - t_real).as_secs_f64(),
        started.elapsed().as_secs_f64()
    ));
}
