//! C15: exclusions.  Differential test of the Lean glob/exclude model against the real
//! `conserve::Exclude` (globset underneath), plus model-independent oracles on the real code.
//!
//! Streams
//!  * `excl`  — (pattern set, apath): `Exclude::from_strings(pats)?.matches(apath)` vs model `excl`.
//!  * `glob`  — (single raw glob, arbitrary string): `GlobBuilder::literal_separator(true)` matcher vs
//!              model `glob` (exercises the matcher on strings that are not apaths, too).
//!  * malformed patterns (random over the meta alphabet) go through both.
//! Oracles (no model involved)
//!  * descendant closure: if `matches(a)` (a below the root) then `matches(a/c)` for sampled `c`;
//!  * literal rule: for patterns without meta characters, `matches(x)` iff some ancestor-or-self `y`
//!    of `x` (below the root) is `P` (anchored) or ends with `"/" + P` (unanchored).
use crate::model::{run_model_1, s};
use crate::pathgen::{VALID_COMPONENTS, join};
use crate::report::Report;
use crate::rng::Rng;
use conserve::{Apath, Exclude};
use globset::GlobBuilder;
use serde_json::json;

/// Names that occur in paths (all valid apath components), including names made of glob
/// meta characters, multi-byte names whose bytes overlap, and a newline.
const EXTRA_COMPONENTS: &[&str] = &[
    "foo", "a.rs", "b.rs", "*", "?", "**", "[a]", "\\", "a,b", "é", "à", "éé", "a\nb", "c", "ac", "abc", "{a}", "]", "!", "a*",
    // names that a pattern FILE would treat specially (comment marker, surrounding white space) but that
    // are ordinary when given directly
    "#x#", "#", " a", "a ", "\tb",
];

fn path_alphabet() -> Vec<&'static str> {
    let mut v: Vec<&str> = VALID_COMPONENTS.to_vec();
    v.extend_from_slice(EXTRA_COMPONENTS);
    v
}

/// A small alphabet so that patterns and paths meet often.
const HOT: &[&str] = &["a", "b", "ab", "a.b", "ñ", "é", "à", "foo", "a.rs", "日本", "*", "c"];

const CLASSES: &[&str] = &[
    "[ab]", "[!a]", "[^a]", "[a-c]", "[!a-c]", "[ñ]", "[é]", "[à-é]", "[a-é]", "[!é]", "[]]", "[!]]", "[a-]", "[-a]", "[--a]",
    "[a-c-e]", "[/]", "[!/]", "[\\]", "[*]", "[?]", "[a-a]", "[.-9]", "[日]", "[ -~]", "[!b]",
];

/// One pattern component.
fn gen_component(rng: &mut Rng) -> String {
    let alpha = path_alphabet();
    match rng.below(16) {
        0 | 1 | 2 => (*rng.pick(HOT)).to_string(),
        3 => (*rng.pick(&alpha)).to_string(),
        4 => "*".into(),
        5 => "?".into(),
        6 | 7 => "**".into(),
        8 => {
            // literal with a star somewhere
            let l = *rng.pick(HOT);
            match rng.below(4) {
                0 => format!("{l}*"),
                1 => format!("*{l}"),
                2 => format!("*.{}", rng.pick(&["rs", "b", "a"])),
                _ => format!("{}*{}", rng.pick(&["a", "", "ñ"]), rng.pick(&["b", "c", ".rs"])),
            }
        }
        9 => {
            let l = *rng.pick(HOT);
            match rng.below(4) {
                0 => format!("{l}?"),
                1 => format!("?{l}"),
                2 => "??".into(),
                _ => "???".into(),
            }
        }
        10 | 11 => {
            let c = *rng.pick(CLASSES);
            match rng.below(4) {
                0 => c.to_string(),
                1 => format!("{}{c}", rng.pick(&["a", "b", "ñ"])),
                2 => format!("{c}{}", rng.pick(&["a", "b", "c", ".rs"])),
                _ => format!("{c}{}", rng.pick(CLASSES)),
            }
        }
        12 => {
            // `**` that is not a whole component
            match rng.below(4) {
                0 => format!("{}**", rng.pick(HOT)),
                1 => format!("**{}", rng.pick(HOT)),
                2 => "***".into(),
                _ => format!("{}**{}", rng.pick(&["a", "b"]), rng.pick(&["a", "b", "c"])),
            }
        }
        13 => {
            // escapes
            match rng.below(5) {
                0 => "\\*".into(),
                1 => "\\?".into(),
                2 => "\\[a\\]".into(),
                3 => format!("\\{}", rng.pick(HOT)),
                _ => "\\\\".into(),
            }
        }
        14 => format!("{}{}", rng.pick(HOT), rng.pick(HOT)),
        _ => "a,b".into(),
    }
}

fn gen_pattern(rng: &mut Rng) -> String {
    let n = 1 + rng.below(3);
    let comps: Vec<String> = (0..n).map(|_| gen_component(rng)).collect();
    let mut p = comps.join("/");
    if rng.chance(2, 5) {
        p.insert(0, '/');
    }
    if rng.chance(1, 20) {
        p.push('/');
    }
    p
}

/// Random strings over the meta alphabet: mostly malformed or odd.
fn gen_malformed(rng: &mut Rng) -> String {
    let pieces = ["[", "]", "!", "^", "-", "\\", "*", "**", "/", "?", "a", "b", "é", "à", "{", "}", ",", "**/", "/**", "[a", "a]", "z-a", "é-à"];
    let n = rng.below(7);
    (0..n).map(|_| *rng.pick(&pieces)).collect()
}

fn gen_path(rng: &mut Rng, hot_only: bool) -> String {
    let alpha = path_alphabet();
    let d = rng.below(5);
    let comps: Vec<&str> = (0..d).map(|_| if hot_only || rng.chance(2, 3) { *rng.pick(HOT) } else { *rng.pick(&alpha) }).collect();
    join(&comps)
}

/// `Some(literal)` if the only meta characters of `p` are backslashes each quoting an ordinary character
/// (not a glob meta character, not '/'), and there is at least one.
fn simple_unescape(p: &str) -> Option<String> {
    if !p.contains('\\') {
        return None;
    }
    let mut out = String::new();
    let mut it = p.chars();
    while let Some(c) = it.next() {
        if c == '\\' {
            let n = it.next()?;
            if "*?[]{}\\/!^-,".contains(n) {
                return None;
            }
            out.push(n);
        } else if "*?[]{}".contains(c) {
            return None;
        } else {
            out.push(c);
        }
    }
    Some(out)
}

fn has_meta(p: &str) -> bool {
    p.chars().any(|c| "*?[]{}\\".contains(c))
}

/// Ancestors-or-self of an apath strictly below the root: "/a/b" -> ["/a", "/a/b"].
fn ancestors_below_root(x: &str) -> Vec<String> {
    let mut out = Vec::new();
    if x == "/" {
        return out;
    }
    let mut cur = String::new();
    for c in x[1..].split('/') {
        cur.push('/');
        cur.push_str(c);
        out.push(cur.clone());
    }
    out
}

/// Independent statement of the rule for patterns that are plain names (no meta characters,
/// no empty components, not ending in '/').
fn literal_rule(pats: &[String], x: &str) -> bool {
    ancestors_below_root(x).iter().any(|y| {
        pats.iter().any(|p| if p.starts_with('/') { y == p } else { y.ends_with(&format!("/{p}")) })
    })
}

fn real_excl(pats: &[String], x: &str) -> String {
    match Exclude::from_strings(pats) {
        Err(_) => "parse-error".into(),
        Ok(e) => e.matches(x).to_string(),
    }
}

fn real_glob(p: &str, x: &str) -> String {
    match GlobBuilder::new(p).literal_separator(true).build() {
        Err(_) => "parse-error".into(),
        Ok(g) => g.compile_matcher().is_match(x).to_string(),
    }
}

pub fn run(tier: &str, seed: u64, report: &mut Report) {
    let mut rng = Rng::new(seed ^ 0x15);
    let thorough = tier == "thorough";
    let n_excl = if thorough { 300_000 } else { 30_000 };
    let n_glob = if thorough { 200_000 } else { 20_000 };
    let alpha = path_alphabet();

    // ---- stream 1: Exclude semantics ----
    let mut cases: Vec<(Vec<String>, String)> = Vec::new();
    // fixed corner cases first
    let corner_pats: &[&[&str]] = &[
        &["*"], &["/"], &[""], &["**"], &["/**"], &["a/"], &["/a/"], &["**/"], &["/a/**"], &["a/**"], &["**/a"], &["/**/a"],
        &["a/**/b"], &["/a/**/**"], &["?"], &["??"], &["[é]"], &["[é][é]"], &["a[!b]c"], &["[!a]"], &["a\\"], &["[a"], &["[z-a]"],
        &["[é-à]"], &["{a,b}"], &["a}"], &["foo*", "quo", "bar*"], &["/exc"], &["foo*/bar/baz*"], &["foo?", "bar[abc]", "[!a-z]"],
        &["\\/a"], &["***"], &["/***"], &["a/***"], &["a/**b"], &["**a"], &["a**"], &["/a/**/"], &["*/"], &["//"], &["/a//b"],
    ];
    let corner_paths = ["/", "/a", "/a/b", "/a/c", "/b/a", "/a/b/c", "/é", "/éé", "/ab", "/b/a/c/b", "/foo", "/foobar", "/x/quo", "/a\nb", "/a\nb/c"];
    for ps in corner_pats {
        for x in corner_paths {
            cases.push((ps.iter().map(|p| p.to_string()).collect(), x.to_string()));
        }
    }
    // long exclusion lists (an exclude file of a hundred lines): 70–100 plain fillers around the corner
    // patterns, among them shell-style escaped spaces
    let escaped: &[&[&str]] = &[&["/a\\ b"], &["a\\ b"], &["/x/a\\ b"], &["/a\\ b", "c"], &["\\*"], &["/é\\ é"]];
    let esc_paths = ["/a b", "/a b/c", "/x/a b", "/x/a b/y", "/a", "/c", "/*", "/é é", "/é é/z", "/ab"];
    for ps in escaped {
        for x in esc_paths {
            cases.push((ps.iter().map(|p| p.to_string()).collect(), x.to_string()));
        }
    }
    for (li, ps) in corner_pats.iter().chain(escaped.iter()).enumerate() {
        let n_fill = 70 + (li * 7) % 31;
        let mut long: Vec<String> = (0..n_fill).map(|i| if i % 3 == 0 { format!("filler-{i}") } else { format!("/fill/er{i}") }).collect();
        let at = (li * 13) % (n_fill + 1);
        for (j, p) in ps.iter().enumerate() {
            long.insert((at + j).min(long.len()), p.to_string());
        }
        for x in corner_paths.iter().chain(esc_paths.iter()).step_by(2) {
            cases.push((long.clone(), x.to_string()));
        }
        report.hit("excl:long-list(>=64 patterns)");
    }
    report.hit_n("excl:corner-cases", cases.len() as u64);
    while cases.len() < n_excl {
        let k = 1 + rng.below(3);
        let pats: Vec<String> = (0..k)
            .map(|_| if rng.chance(1, 12) { gen_malformed(&mut rng) } else if rng.chance(1, 6) { (*rng.pick(HOT)).to_string() } else { gen_pattern(&mut rng) })
            .collect();
        // a few paths per pattern set
        for _ in 0..3 {
            let hot = rng.chance(1, 2);
            cases.push((pats.clone(), gen_path(&mut rng, hot)));
        }
    }
    let reqs: Vec<String> = cases
        .iter()
        .map(|(ps, x)| {
            let mut r = format!("excl {}", ps.len());
            for p in ps {
                r.push(' ');
                r.push_str(&s(p.as_bytes()));
            }
            r.push(' ');
            r.push_str(&s(x.as_bytes()));
            r
        })
        .collect();
    let ans = run_model_1(&reqs);
    let mut last_pats: Option<(Vec<String>, Option<Exclude>)> = None;
    for ((pats, x), m) in cases.iter().zip(ans.iter()) {
        debug_assert!(Apath::is_valid(x));
        // build the real Exclude once per pattern set
        let same = matches!(&last_pats, Some((p, _)) if p == pats);
        if !same {
            last_pats = Some((pats.clone(), Exclude::from_strings(pats).ok()));
        }
        let ex = &last_pats.as_ref().unwrap().1;
        let i = match ex {
            None => "parse-error".to_string(),
            Some(e) => e.matches(x.as_str()).to_string(),
        };
        let nontrivial = i == "true";
        report.case(&format!("excl {pats:?} {x:?}"), nontrivial);
        report.hit(&format!("excl:{i}"));
        if pats.iter().any(|p| !p.is_ascii()) {
            report.hit("excl:non-ascii-pattern");
        }
        if pats.iter().any(|p| p.contains("**")) {
            report.hit("excl:has-doublestar");
        }
        if pats.iter().any(|p| p.contains('[')) {
            report.hit("excl:has-class");
        }
        if pats.iter().any(|p| p.starts_with('/')) {
            report.hit("excl:has-anchored");
        }
        let case = || json!({"op":"excl","patterns":pats,"path":x});
        if m == "unsupported" {
            report.hit("excl:model-unsupported(alternates)");
        } else if i != *m {
            report.disagree("glob", case(), json!(i), json!(m));
        }
        // oracles on the real code
        if let Some(e) = ex {
            if i == "true" && x != "/" {
                for _ in 0..2 {
                    let c = *rng.pick(&alpha);
                    let child = format!("{x}/{c}");
                    report.hit("oracle:desc-closure-checked");
                    if !e.matches(child.as_str()) {
                        report.oracle_fail("desc-closure", case(), "path is excluded but its child is not", json!({"child": child}));
                    }
                }
            }
            if i == "true" && x == "/" {
                report.hit("excl:root-matched");
            }
            // a backslash before an ordinary character only quotes it: such patterns are literals too
            let unesc: Vec<String> = pats.iter().map(|p| simple_unescape(p).unwrap_or_else(|| p.clone())).collect();
            if pats.iter().all(|p| (simple_unescape(p).is_some() || !has_meta(p)) && !p.is_empty() && !p.ends_with('/') && !p.contains("//")) {
                report.hit("oracle:literal-rule-checked");
                let want = literal_rule(&unesc, x);
                if want != (i == "true") {
                    report.oracle_fail("literal-rule", case(), "plain-name patterns: excluded iff the path or an ancestor is (anchored) / ends with (unanchored) the name", json!(i));
                }
            }
        }
    }
    let k = cases.len() / 2;
    report.sample(json!({"op":"excl","patterns":cases[k].0,"path":cases[k].1,"answer":ans[k]}));
    report.sample(json!({"op":"excl","patterns":cases[cases.len()-1].0,"path":cases[cases.len()-1].1,"answer":ans[cases.len()-1]}));

    // ---- stream 2: single raw globs on arbitrary strings ----
    let mut gcases: Vec<(String, String)> = Vec::new();
    for _ in 0..n_glob {
        let p = match rng.below(10) {
            0 => gen_malformed(&mut rng),
            1 | 2 => format!("**/{}", gen_pattern(&mut rng)),
            3 => format!("{}/**", gen_pattern(&mut rng)),
            _ => gen_pattern(&mut rng),
        };
        let x = match rng.below(6) {
            0 => {
                // not an apath: no leading slash, doubled or trailing slashes
                let pieces = ["/", "a", "b", "ab", "é", "//", "c", ".rs", "a.b", "foo", "*"];
                let n = rng.below(7);
                (0..n).map(|_| *rng.pick(&pieces)).collect::<String>()
            }
            1 => gen_path(&mut rng, true)[1..].to_string(),
            _ => {
                let hot = rng.chance(1, 2);
                gen_path(&mut rng, hot)
            }
        };
        gcases.push((p, x));
    }
    let reqs: Vec<String> = gcases.iter().map(|(p, x)| format!("glob {} {}", s(p.as_bytes()), s(x.as_bytes()))).collect();
    let ans = run_model_1(&reqs);
    for ((p, x), m) in gcases.iter().zip(ans.iter()) {
        let i = real_glob(p, x);
        report.case(&format!("glob {p:?} {x:?}"), i == "true");
        report.hit(&format!("glob:{i}"));
        if m == "unsupported" {
            report.hit("glob:model-unsupported(alternates)");
        } else if i != *m {
            report.disagree("glob", json!({"op":"glob","pattern":p,"path":x}), json!(i), json!(m));
        }
    }
    let k = gcases.len() / 2;
    report.sample(json!({"op":"glob","pattern":gcases[k].0,"path":gcases[k].1,"answer":ans[k]}));
    // the single-set path through the real code is the same function as above; keep one direct use
    debug_assert_eq!(real_excl(&["/exc".to_string()], "/exc"), "true");
    report.notes.push("root: `Exclude::matches(\"/\")` can be true (e.g. patterns \"*\", \"\", \"/\") without the children being matched (pattern \"/\"); the property excepts the root, the oracle skips it".into());
}
