//! C18: diff and change reports agree with the real differences.
//!
//! `EntryChange::diff_metadata` and `MergeTrees` are `pub(crate)`, so everything goes through
//! the public `conserve::diff()` and `conserve::backup()` on real trees and archives:
//!   tree T0 --backup--> archive;  T0 --mutations--> T1;
//!   diff(stored, T1) with and without include_unchanged;  second backup with a change_callback.
//! Checked:
//!   oracle  : the reported (apath, kind) list == a list computed here from lstat of T0 and T1 by
//!             the property's rule (independent of conserve and of the model), in the documented
//!             path order (c11::doc_cmp); each mutation's direct effect is also asserted on it;
//!   model a : `difflist` fed with the entries the real iterators deliver (stored listing, source
//!             walk) must give the same list — exercises `mergeEntries` + `diffLoop`;
//!   model b : `diffmeta` on every pair present on both sides must give the class the real diff gave;
//!   events  : the callback events of the second backup == model `events`, and == the oracle
//!             restricted to deleted paths (any kind) and paths that are FILES in T1 — the code
//!             emits no event for directories and symlinks in the source (backup.rs copy_dir /
//!             copy_symlink return Ok(None)).
use crate::c11::doc_cmp;
use crate::model::{run_model, run_model_1, s};
use crate::report::Report;
use crate::rng::Rng;
use conserve::monitor::test::TestMonitor;
use conserve::{Apath, Archive, BackupOptions, BandSelectionPolicy, DiffOptions, EntryChange, EntryTrait, Exclude, Kind, SourceTree};
use filetime::FileTime;
use serde_json::json;
use std::cell::RefCell;
use std::collections::{BTreeMap, BTreeSet};
use std::os::unix::fs::{MetadataExt, PermissionsExt};
use std::path::{Path, PathBuf};
use std::rc::Rc;

const NS: i128 = 1_000_000_000;
const NAMES: &[&str] = &["a", "b", "a-", "a.b", "ab", "~", "ñ", " ", "0", "B"];
const MODES_FILE: &[u32] = &[0o644, 0o600, 0o755, 0o444, 0o4755, 0o2711, 0o0, 0o1777];
const MODES_DIR: &[u32] = &[0o755, 0o700, 0o1777, 0o2775, 0o555];
const IDS: &[u32] = &[0, 1, 2]; // root, daemon, bin — present in /etc/passwd and /etc/group here
const MTIMES: &[i128] = &[
    0,
    1_500_000_000,
    -1_500_000_000,
    -1,
    1_600_000_000_123_456_789,
    1_700_000_000_000_000_000,
    2_147_483_648_000_000_001,
    -86_400_000_000_000,
];

fn block_on<T>(fut: impl std::future::Future<Output = T>) -> T {
    tokio::runtime::Builder::new_current_thread().enable_all().build().unwrap().block_on(fut)
}

#[derive(Clone, Debug, PartialEq, Eq)]
struct Stat {
    kind: char, // f d l
    size: u64,
    mtime: i128,
    mode: u32,
    uid: u32,
    gid: u32,
    target: Option<String>,
}

fn lstat(p: &Path) -> Stat {
    let m = std::fs::symlink_metadata(p).unwrap();
    let ft = m.file_type();
    let kind = if ft.is_dir() { 'd' } else if ft.is_symlink() { 'l' } else { 'f' };
    Stat {
        kind,
        size: m.len(),
        mtime: m.mtime() as i128 * NS + m.mtime_nsec() as i128,
        mode: m.mode() & 0o7777,
        uid: m.uid(),
        gid: m.gid(),
        target: if kind == 'l' { Some(std::fs::read_link(p).unwrap().to_str().unwrap().to_string()) } else { None },
    }
}

/// apath → lstat, for the whole tree (root included as "/").
fn snapshot(root: &Path) -> BTreeMap<String, Stat> {
    fn walk(root: &Path, dir: &Path, apath: &str, out: &mut BTreeMap<String, Stat>) {
        for e in std::fs::read_dir(dir).unwrap() {
            let e = e.unwrap();
            let name = e.file_name().to_str().unwrap().to_string();
            let child = if apath == "/" { format!("/{name}") } else { format!("{apath}/{name}") };
            let st = lstat(&e.path());
            let is_dir = st.kind == 'd';
            out.insert(child.clone(), st);
            if is_dir {
                walk(root, &e.path(), &child, out);
            }
        }
    }
    let mut out = BTreeMap::new();
    out.insert("/".to_string(), lstat(root));
    walk(root, root, "/", &mut out);
    out
}

fn fs_path(root: &Path, apath: &str) -> PathBuf {
    if apath == "/" { root.to_path_buf() } else { root.join(&apath[1..]) }
}

fn set_mtime(p: &Path, t: i128) {
    let ft = FileTime::from_unix_time(t.div_euclid(NS) as i64, t.rem_euclid(NS) as u32);
    filetime::set_symlink_file_times(p, ft, ft).unwrap();
}

fn lchown(p: &Path, uid: Option<u32>, gid: Option<u32>) {
    std::os::unix::fs::lchown(p, uid, gid).unwrap();
}

fn chmod(p: &Path, mode: u32) {
    std::fs::set_permissions(p, std::fs::Permissions::from_mode(mode)).unwrap();
}

fn random_bytes(rng: &mut Rng, n: usize) -> Vec<u8> {
    (0..n).map(|_| b'a' + rng.below(26) as u8).collect()
}

/// Build a random tree; returns a textual description (canonical text of the case).
fn build_tree(rng: &mut Rng, root: &Path) -> Vec<String> {
    let mut desc = Vec::new();
    let mut dirs: Vec<String> = vec!["/".into()];
    let n = 2 + rng.below(9);
    let mut made: Vec<(String, char)> = Vec::new();
    for _ in 0..n {
        let parent = rng.pick(&dirs).clone();
        if parent.matches('/').count() >= 3 && parent != "/" {
            continue;
        }
        let name = *rng.pick(NAMES);
        let ap = if parent == "/" { format!("/{name}") } else { format!("{parent}/{name}") };
        let p = fs_path(root, &ap);
        if std::fs::symlink_metadata(&p).is_ok() {
            continue;
        }
        match rng.below(6) {
            0 | 1 | 2 => {
                let len = *rng.pick(&[0usize, 1, 3, 17, 40]);
                std::fs::write(&p, random_bytes(rng, len)).unwrap();
                made.push((ap.clone(), 'f'));
                desc.push(format!("file {ap} len={len}"));
            }
            3 | 4 => {
                std::fs::create_dir(&p).unwrap();
                dirs.push(ap.clone());
                made.push((ap.clone(), 'd'));
                desc.push(format!("dir {ap}"));
            }
            _ => {
                let target = *rng.pick(&["a", "../x", "/nowhere", "ñ"]);
                std::os::unix::fs::symlink(target, &p).unwrap();
                made.push((ap.clone(), 'l'));
                desc.push(format!("symlink {ap} -> {target}"));
            }
        }
    }
    // attributes: owner, then mode, then mtimes deepest first
    for (ap, k) in &made {
        let p = fs_path(root, ap);
        if rng.chance(1, 3) {
            let (u, g) = (*rng.pick(IDS), *rng.pick(IDS));
            lchown(&p, Some(u), Some(g));
            desc.push(format!("chown {ap} {u}:{g}"));
        }
        if *k != 'l' && rng.chance(1, 2) {
            let m = if *k == 'f' { *rng.pick(MODES_FILE) } else { *rng.pick(MODES_DIR) };
            chmod(&p, m);
            desc.push(format!("chmod {ap} {m:o}"));
        }
    }
    let mut order: Vec<&(String, char)> = made.iter().collect();
    order.sort_by(|a, b| b.0.len().cmp(&a.0.len()));
    for (ap, _) in order {
        if rng.chance(2, 3) {
            let t = *rng.pick(MTIMES) + rng.range(0, 3) as i128 * 1_000;
            set_mtime(&fs_path(root, ap), t);
            desc.push(format!("mtime {ap} {t}"));
        }
    }
    desc
}

/// What a mutation is expected to do to the paths it names, in terms of the final report.
#[derive(Debug)]
enum Expect {
    Class(String, &'static str),       // path must be reported with this class
    SubtreeDeleted(String),            // every T0 path under it is deleted (unless re-added → present in T1)
}

/// Apply random mutations to distinct, non-nested targets. Returns descriptions + expectations.
fn mutate(rng: &mut Rng, root: &Path, s0: &BTreeMap<String, Stat>, report: &mut Report) -> (Vec<String>, Vec<Expect>) {
    let mut desc = Vec::new();
    let mut expect = Vec::new();
    let mut touched: BTreeSet<String> = BTreeSet::new(); // targets and everything below removed/swapped dirs
    let n_mut = rng.below(6);
    let paths: Vec<String> = s0.keys().filter(|p| *p != "/").cloned().collect();
    let under = |p: &str, q: &str| p == q || p.starts_with(&format!("{q}/"));
    for _ in 0..n_mut {
        let kind = rng.below(12);
        // additions pick a live directory, others pick an existing path
        if kind >= 9 {
            let live_dirs: Vec<&String> = s0.iter().filter(|(p, st)| st.kind == 'd' && !touched.iter().any(|t| under(p, t))).map(|(p, _)| p).collect();
            if live_dirs.is_empty() {
                continue;
            }
            let parent = (*rng.pick(&live_dirs)).clone();
            let name = *rng.pick(&["new", "a", "zz", "ñ2", "-x"]);
            let ap = if parent == "/" { format!("/{name}") } else { format!("{parent}/{name}") };
            let p = fs_path(root, &ap);
            if std::fs::symlink_metadata(&p).is_ok() || touched.contains(&ap) {
                continue;
            }
            match kind {
                9 => std::fs::write(&p, random_bytes(rng, 5)).unwrap(),
                10 => std::fs::create_dir(&p).unwrap(),
                _ => std::os::unix::fs::symlink("t", &p).unwrap(),
            }
            touched.insert(ap.clone());
            desc.push(format!("add-{} {ap}", ["file", "dir", "symlink"][kind - 9]));
            report.hit(&format!("mut:add-{}", ["file", "dir", "symlink"][kind - 9]));
            expect.push(Expect::Class(ap, "added"));
            continue;
        }
        if paths.is_empty() {
            continue;
        }
        let ap = rng.pick(&paths).clone();
        // skip targets at/below/above something already touched
        if touched.iter().any(|t| under(&ap, t) || under(t, &ap)) {
            continue;
        }
        let st = &s0[&ap];
        let p = fs_path(root, &ap);
        match (kind, st.kind) {
            (0, 'f') => {
                // content change with size change; sometimes put the mtime back (size-only change)
                let mut c = std::fs::read(&p).unwrap();
                c.extend_from_slice(b"+more");
                std::fs::write(&p, c).unwrap();
                let keep_mtime = rng.chance(1, 2);
                if keep_mtime {
                    set_mtime(&p, st.mtime);
                } else {
                    set_mtime(&p, st.mtime + 2 * NS + 5);
                }
                desc.push(format!("grow {ap} keep_mtime={keep_mtime}"));
                report.hit("mut:content-size");
                expect.push(Expect::Class(ap.clone(), "changed"));
            }
            (1, 'f') => {
                // same-size rewrite with the mtime put back: invisible to a metadata diff
                let len = st.size as usize;
                std::fs::write(&p, vec![b'#'; len]).unwrap();
                set_mtime(&p, st.mtime);
                desc.push(format!("rewrite-same-size-same-mtime {ap}"));
                report.hit("mut:content-invisible");
                expect.push(Expect::Class(ap.clone(), "unchanged"));
            }
            (2, k) => {
                let t = st.mtime + [1i128, -1, NS, -NS / 2, 123_456_789][rng.below(5)];
                set_mtime(&p, t);
                desc.push(format!("mtime-only {ap} {t}"));
                report.hit(&format!("mut:mtime-only-{k}"));
                expect.push(Expect::Class(ap.clone(), if k == 'f' { "changed" } else { "unchanged" }));
            }
            (3, k) if k != 'l' => {
                let m = if st.mode == 0o750 { 0o705 } else { 0o750 };
                chmod(&p, m);
                set_mtime(&p, st.mtime);
                desc.push(format!("chmod {ap} {m:o}"));
                report.hit(&format!("mut:chmod-{k}"));
                expect.push(Expect::Class(ap.clone(), "changed"));
            }
            (4, k) => {
                let by_user = rng.chance(1, 2);
                if by_user {
                    lchown(&p, Some((st.uid + 1) % 3), None);
                } else {
                    lchown(&p, None, Some((st.gid + 1) % 3));
                }
                // chown clears setuid/setgid on files: put the mode back so only the owner differs
                if k != 'l' {
                    chmod(&p, st.mode);
                }
                set_mtime(&p, st.mtime);
                desc.push(format!("chown-{} {ap}", if by_user { "user" } else { "group" }));
                report.hit(&format!("mut:chown-{k}"));
                expect.push(Expect::Class(ap.clone(), "changed"));
            }
            (5, 'l') => {
                std::fs::remove_file(&p).unwrap();
                std::os::unix::fs::symlink("retargeted", &p).unwrap();
                lchown(&p, Some(st.uid), Some(st.gid));
                desc.push(format!("retarget {ap}"));
                report.hit("mut:retarget");
                expect.push(Expect::Class(ap.clone(), "changed"));
            }
            (6, k) => {
                if k == 'd' {
                    std::fs::remove_dir_all(&p).unwrap();
                } else {
                    std::fs::remove_file(&p).unwrap();
                }
                desc.push(format!("remove {ap}"));
                report.hit(&format!("mut:remove-{k}"));
                expect.push(Expect::SubtreeDeleted(ap.clone()));
            }
            (7, 'f') => {
                std::fs::remove_file(&p).unwrap();
                std::fs::create_dir(&p).unwrap();
                std::fs::write(p.join("inner"), b"i").unwrap();
                desc.push(format!("swap file->dir {ap}"));
                report.hit("mut:swap-file-dir");
                expect.push(Expect::Class(ap.clone(), "changed"));
                expect.push(Expect::Class(format!("{ap}/inner"), "added"));
            }
            (7, 'd') => {
                std::fs::remove_dir_all(&p).unwrap();
                std::fs::write(&p, b"now a file").unwrap();
                desc.push(format!("swap dir->file {ap}"));
                report.hit("mut:swap-dir-file");
                expect.push(Expect::Class(ap.clone(), "changed"));
            }
            (8, 'f') | (7, 'l') | (8, 'l') => {
                std::fs::remove_file(&p).unwrap();
                if st.kind == 'f' {
                    std::os::unix::fs::symlink("was-a-file", &p).unwrap();
                } else {
                    std::fs::write(&p, b"was a link").unwrap();
                }
                desc.push(format!("swap file<->symlink {ap}"));
                report.hit("mut:swap-file-symlink");
                expect.push(Expect::Class(ap.clone(), "changed"));
            }
            _ => continue,
        }
        touched.insert(ap);
    }
    (desc, expect)
}

fn owner_differs(a: &Stat, b: &Stat) -> bool {
    a.uid != b.uid || a.gid != b.gid
}

/// The property's rule, on lstat data only.
fn oracle(s0: &BTreeMap<String, Stat>, s1: &BTreeMap<String, Stat>, include_unchanged: bool) -> Vec<(String, &'static str)> {
    let mut paths: Vec<&String> = s0.keys().chain(s1.keys()).collect::<BTreeSet<_>>().into_iter().collect();
    paths.sort_by(|a, b| doc_cmp(a, b));
    let mut out = Vec::new();
    for p in paths {
        let class = match (s0.get(p), s1.get(p)) {
            (Some(_), None) => "deleted",
            (None, Some(_)) => "added",
            (Some(a), Some(b)) => {
                if a.kind != b.kind
                    || a.mode != b.mode
                    || owner_differs(a, b)
                    || (a.kind == 'f' && (a.size != b.size || a.mtime != b.mtime))
                    || (a.kind == 'l' && a.target != b.target)
                {
                    "changed"
                } else {
                    "unchanged"
                }
            }
            (None, None) => unreachable!(),
        };
        if include_unchanged || class != "unchanged" {
            out.push((p.clone(), class));
        }
    }
    out
}

fn class_of(ec: &EntryChange) -> &'static str {
    match ec.change.sigil() {
        '.' => "unchanged",
        '+' => "added",
        '-' => "deleted",
        '*' => "changed",
        _ => "?",
    }
}

fn kind_char(k: Kind) -> char {
    match k {
        Kind::File => 'f',
        Kind::Dir => 'd',
        Kind::Symlink => 'l',
        Kind::Unknown => 'u',
    }
}

fn opt_s(o: Option<&str>) -> String {
    match o {
        Some(x) => s(x.as_bytes()),
        None => "-".into(),
    }
}

fn mode_tok(m: conserve::UnixMode) -> String {
    match serde_json::to_value(m).unwrap() {
        serde_json::Value::Number(n) => n.to_string(),
        _ => "-".into(),
    }
}

/// The 8 tokens of the `EntryTrait` view.
fn meta_tokens(e: &dyn EntryTrait) -> String {
    let ts = e.mtime();
    format!(
        "{} {} {} {} {} {} {} {}",
        kind_char(e.kind()),
        ts.as_second(),
        ts.subsec_nanosecond(),
        e.size().map(|x| x.to_string()).unwrap_or("-".into()),
        mode_tok(e.unix_mode()),
        opt_s(e.owner().user.as_deref()),
        opt_s(e.owner().group.as_deref()),
        opt_s(e.symlink_target()),
    )
}

struct Listing {
    /// apath, 9 raw tokens for `difflist`/`events`, 8 view tokens for `diffmeta`
    a: Vec<(String, String, String)>,
    b: Vec<(String, String, String)>,
}

fn listings(archive: &Archive, src: &Path) -> Listing {
    block_on(async {
        let monitor = TestMonitor::arc();
        let st = archive.open_stored_tree(BandSelectionPolicy::Latest).await.unwrap();
        let mut it = st.iter_entries(Apath::root(), Exclude::nothing(), monitor.clone());
        let mut a = Vec::new();
        while let Some(e) = it.next().await {
            let raw = format!(
                "{} {} {} {} {} {} {} {} {}",
                s(e.apath.to_string().as_bytes()),
                kind_char(e.kind),
                e.mtime,
                e.mtime_nanos,
                e.addrs.iter().map(|x| x.len).sum::<u64>(),
                mode_tok(e.unix_mode),
                opt_s(e.owner.user.as_deref()),
                opt_s(e.owner.group.as_deref()),
                opt_s(e.target.as_deref()),
            );
            a.push((e.apath.to_string(), raw, meta_tokens(&e)));
        }
        let lt = SourceTree::open(src).unwrap();
        let mut b = Vec::new();
        for e in lt.iter_entries(Apath::root(), Exclude::nothing(), monitor.clone()).unwrap() {
            let view = meta_tokens(&e);
            b.push((e.apath().to_string(), format!("{} {}", s(e.apath().to_string().as_bytes()), view), view));
        }
        Listing { a, b }
    })
}

fn real_diff(archive: &Archive, src: &Path, include_unchanged: bool) -> Vec<(String, &'static str)> {
    block_on(async {
        let st = archive.open_stored_tree(BandSelectionPolicy::Latest).await.unwrap();
        let lt = SourceTree::open(src).unwrap();
        let options = DiffOptions { include_unchanged, ..DiffOptions::default() };
        let changes = conserve::diff(&st, &lt, options, TestMonitor::arc()).await.unwrap().collect().await;
        changes.iter().map(|ec| (ec.apath.to_string(), class_of(ec))).collect()
    })
}

/// The lines `conserve diff` is expected to print ("<sigil> <apath>"), from the library diff of the newest version.
pub fn library_diff_lines(arch: &Path, src: &Path, include_unchanged: bool, exclude: &[String]) -> Vec<String> {
    let archive = block_on(async { Archive::open(conserve::transport::Transport::local(arch)).await.unwrap() });
    let pairs: Vec<(String, &'static str)> = block_on(async {
        let st = archive.open_stored_tree(BandSelectionPolicy::Latest).await.unwrap();
        let lt = SourceTree::open(src).unwrap();
        let options = DiffOptions { include_unchanged, exclude: Exclude::from_strings(exclude).unwrap() };
        let changes = conserve::diff(&st, &lt, options, TestMonitor::arc()).await.unwrap().collect().await;
        changes.iter().map(|ec| (ec.apath.to_string(), class_of(ec))).collect()
    });
    pairs.into_iter().map(|(p, k)| format!("{} {p}", match k { "unchanged" => '.', "added" => '+', "deleted" => '-', "changed" => '*', _ => '?' })).collect()
}

/// The same against a named version (an interrupted one, say).
pub fn library_diff_lines_of_band(arch: &Path, band: u32, src: &Path, include_unchanged: bool, exclude: &[String]) -> Vec<String> {
    let archive = block_on(async { Archive::open(conserve::transport::Transport::local(arch)).await.unwrap() });
    let pairs: Vec<(String, &'static str)> = block_on(async {
        let st = archive.open_stored_tree(BandSelectionPolicy::Specified(conserve::BandId::from(band))).await.unwrap();
        let lt = SourceTree::open(src).unwrap();
        let options = DiffOptions { include_unchanged, exclude: Exclude::from_strings(exclude).unwrap() };
        let changes = conserve::diff(&st, &lt, options, TestMonitor::arc()).await.unwrap().collect().await;
        changes.iter().map(|ec| (ec.apath.to_string(), class_of(ec))).collect()
    });
    pairs.into_iter().map(|(p, k)| format!("{} {p}", match k { "unchanged" => '.', "added" => '+', "deleted" => '-', "changed" => '*', _ => '?' })).collect()
}

fn parse_model_lines(lines: &[String]) -> Vec<(String, String)> {
    lines
        .iter()
        .map(|l| {
            let mut it = l.split(' ');
            let p = it.next().unwrap_or("");
            let k = it.next().unwrap_or("").to_string();
            let path = p.strip_prefix("s:").and_then(|h| hex::decode(h).ok()).map(|b| String::from_utf8_lossy(&b).to_string()).unwrap_or(l.clone());
            (path, k)
        })
        .collect()
}

fn to_owned_pairs(v: &[(String, &'static str)]) -> Vec<(String, String)> {
    v.iter().map(|(p, k)| (p.clone(), k.to_string())).collect()
}

/// Directed: a version written on ANOTHER PLATFORM — one entry whose name is 300 bytes long (100 CJK
/// characters: legal on NTFS/HFS+/exFAT, impossible to create on ext4) spliced into the stored index in order.
/// Comparing that version with the (unchanged) tree reports every other entry as unchanged and the long name as
/// deleted; the next backup's callback names the same deletion.  Real code + oracle.
fn foreign_long_name(report: &mut Report) {
    let work = tempfile::tempdir().unwrap();
    let src = work.path().join("t");
    std::fs::create_dir(&src).unwrap();
    std::fs::write(src.join("a"), b"alpha").unwrap();
    std::fs::write(src.join("b"), b"beta").unwrap();
    let arch_path = work.path().join("a");
    let long = format!("/{}", "語".repeat(100));
    let archive = block_on(async {
        let archive = Archive::create_path(&arch_path).await.unwrap();
        conserve::backup(&archive, &src, &BackupOptions::default(), TestMonitor::arc()).await.unwrap();
        archive
    });
    let hunk = arch_path.join("b0000/i/00000/000000000");
    let raw = snap::raw::Decoder::new().decompress_vec(&std::fs::read(&hunk).unwrap()).unwrap();
    let mut v: serde_json::Value = serde_json::from_slice(&raw).unwrap();
    let template = v.as_array().unwrap().iter().find(|e| e["apath"] == "/a").cloned().unwrap();
    let mut e = template;
    e["apath"] = json!(long);
    v.as_array_mut().unwrap().push(e); // sorts after "/", "/a", "/b" (flat tree: no deeper entries follow)
    std::fs::write(&hunk, snap::raw::Encoder::new().compress_vec(&serde_json::to_vec(&v).unwrap()).unwrap()).unwrap();
    report.case("foreign-long-name", true);
    report.hit("directed:foreign-platform-long-name(300 bytes)");
    let case = json!({"directed": "an index entry with a 300-byte file name, as another platform can write it"});
    let mut want: Vec<(String, &'static str)> = vec![("/".into(), "unchanged"), ("/a".into(), "unchanged"), ("/b".into(), "unchanged"), (long.clone(), "deleted")];
    want.sort();
    let mut got = real_diff(&archive, &src, true);
    got.sort();
    if got != want {
        report.oracle_fail("diff-vs-oracle", case.clone(), "diff(include_unchanged) of a version holding a long foreign name against the unchanged tree", json!({"reported": got.iter().map(|(p, k)| format!("{k} {}", if p.len() > 40 { "<long name>" } else { p })).collect::<Vec<_>>()}));
    }
    let mut got2 = real_diff(&archive, &src, false);
    got2.sort();
    if got2 != vec![(long.clone(), "deleted")] {
        report.oracle_fail("diff-vs-oracle", case, "diff of a version holding a long foreign name against the unchanged tree", json!({"reported": got2.iter().map(|(p, k)| format!("{k} {}", if p.len() > 40 { "<long name>" } else { p })).collect::<Vec<_>>()}));
    }
}

pub fn run(tier: &str, seed: u64, report: &mut Report) {
    let thorough = tier == "thorough";
    foreign_long_name(report);
    let mut rng = Rng::new(seed ^ 0xC18);
    let n_cases = if thorough { 1500 } else { 120 };
    for case_no in 0..n_cases {
        let mut crng = rng.fork();
        let src_dir = tempfile::tempdir().unwrap();
        let src = src_dir.path().join("t");
        std::fs::create_dir(&src).unwrap();
        let arch_dir = tempfile::tempdir().unwrap();
        let arch_path = arch_dir.path().join("a");
        // directed structural cases (after the directed mtime ones): sibling directories whose names differ by
        // a suffix that sorts BEFORE '/' ("a" vs "a-" vs "a.b"), one of them with a nested non-empty directory —
        // where the archive's path order and plain string order of the directory part disagree
        const STRUCT: &[(&str, &str)] = &[("add", "/a/b/x2"), ("remove", "/a/b/x"), ("add", "/a-/n"), ("remove", "/a-/y"), ("add", "/a/b/0"), ("add", "/a.b/n"), ("remove", "/a/k"), ("add", "/a/b/~"),
            // a chmod that touches ONLY the set-uid / set-gid / sticky bit (file and directory)
            ("chmod4000", "/a/k"), ("chmod2000", "/a-"), ("chmod1000", "/a.b"), ("chmod2000", "/a/b/x")];
        let struct_case = if case_no >= 10 && case_no < 10 + STRUCT.len() { Some(STRUCT[case_no - 10]) } else { None };
        let mut tree_desc = if struct_case.is_some() {
            for d in ["a", "a/b", "a-", "a.b"] {
                std::fs::create_dir(src.join(d)).unwrap();
            }
            for (f, body) in [("a/b/x", "xx"), ("a-/y", "yy"), ("a.b/z", "zz"), ("a/k", "kk")] {
                std::fs::write(src.join(f), body).unwrap();
            }
            vec!["struct: dirs /a /a/b /a- /a.b; files /a/b/x /a-/y /a.b/z /a/k".to_string()]
        } else {
            build_tree(&mut crng, &src)
        };
        // directed cases first: a file whose STORED mtime is a whole second / has a fraction / is at or
        // before the epoch, then changed by a sub-second or whole-second amount only (size, mode, owner equal)
        const DIRECTED: &[(i128, i128)] = &[
            (1_700_000_000 * NS, 1), (1_700_000_000 * NS, 250_000_000), (1_700_000_000 * NS + 125_000_000, 250_000_000),
            (1_700_000_000 * NS + 125_000_000, -125_000_000), (0, 1), (-5 * NS, 1), (1_700_000_000 * NS, NS), (1_700_000_000 * NS, -1),
            (-5 * NS + 500_000_000, -500_000_000), (1_700_000_000 * NS + 999_999_999, 1),
        ];
        let directed = if case_no < DIRECTED.len() { Some(DIRECTED[case_no]) } else { None };
        if let Some((stored, _)) = directed {
            let p = src.join("zz-mt");
            if std::fs::symlink_metadata(&p).is_err() {
                std::fs::write(&p, b"stamp").unwrap();
            }
            set_mtime(&p, stored);
            tree_desc.push(format!("file /zz-mt mtime={stored}"));
        }
        let s0 = snapshot(&src);
        let archive = block_on(async {
            let archive = Archive::create_path(&arch_path).await.unwrap();
            let stats = conserve::backup(&archive, &src, &BackupOptions::default(), TestMonitor::arc()).await.unwrap();
            assert_eq!(stats.errors, 0);
            archive
        });
        // first case of every 4 is left unmodified: "the very tree it was made from"
        let (mut_desc, expects) = if let Some((stored, delta)) = directed {
            if s0.get("/zz-mt").map(|st| st.kind == 'f').unwrap_or(false) {
                set_mtime(&src.join("zz-mt"), stored + delta);
                report.hit("mut:directed-mtime-only");
                (vec![format!("mtime-only /zz-mt {}", stored + delta)], vec![Expect::Class("/zz-mt".into(), "changed")])
            } else {
                (vec![], vec![])
            }
        } else if let Some((what, ap)) = struct_case {
            report.hit("mut:directed-structure");
            let p = fs_path(&src, ap);
            if what == "add" {
                std::fs::write(&p, "new").unwrap();
                (vec![format!("add-file {ap}")], vec![Expect::Class(ap.to_string(), "added")])
            } else if let Some(bit) = what.strip_prefix("chmod") {
                let bit = u32::from_str_radix(bit, 8).unwrap();
                let m = s0[ap].mode ^ bit;
                chmod(&p, m);
                (vec![format!("chmod-special-bit-only {ap} {m:o}")], vec![Expect::Class(ap.to_string(), "changed")])
            } else {
                std::fs::remove_file(&p).unwrap();
                (vec![format!("remove {ap}")], vec![Expect::SubtreeDeleted(ap.to_string())])
            }
        } else if case_no % 4 == 0 {
            (vec![], vec![])
        } else {
            mutate(&mut crng, &src, &s0, report)
        };
        let s1 = snapshot(&src);
        let canonical = format!("{}|{}", tree_desc.join(";"), mut_desc.join(";"));
        let case = || json!({"tree": tree_desc, "mutations": mut_desc});
        let nontrivial = !mut_desc.is_empty();
        report.hit(if nontrivial { "case:mutated" } else { "case:self" });

        let lst = listings(&archive, &src);
        let a_raw: Vec<&str> = lst.a.iter().map(|x| x.1.as_str()).collect();
        let b_raw: Vec<&str> = lst.b.iter().map(|x| x.1.as_str()).collect();
        let lists = format!("{} {} {} {}", a_raw.len(), a_raw.join(" "), b_raw.len(), b_raw.join(" "));
        let model = run_model(&[format!("difflist 0 {lists}"), format!("difflist 1 {lists}"), format!("events {lists}")]);

        let mut full_real: Vec<(String, &'static str)> = Vec::new();
        for (inc, midx) in [(false, 0usize), (true, 1usize)] {
            let real = real_diff(&archive, &src, inc);
            let want = oracle(&s0, &s1, inc);
            report.case(&format!("diff inc={inc} {canonical}"), nontrivial);
            if real != want {
                report.oracle_fail("diff-vs-oracle", case(), &format!("diff(include_unchanged={inc}) differs from the differences computed from lstat"), json!({"reported": real, "expected": want}));
            }
            if !nontrivial && inc && real.iter().any(|(_, k)| *k != "unchanged") {
                report.oracle_fail("self-diff-not-clean", case(), "diff against the tree the version was made from reports a change", json!(real));
            }
            if !nontrivial && !inc && !real.is_empty() {
                report.oracle_fail("self-diff-not-clean", case(), "diff against the tree the version was made from reports something", json!(real));
            }
            let m = parse_model_lines(&model[midx]);
            if m != to_owned_pairs(&real) {
                report.disagree("difflist", json!({"case": case(), "include_unchanged": inc}), json!(real), json!(model[midx]));
            }
            for (_, k) in &real {
                report.hit(&format!("class:{k}"));
            }
            if inc {
                full_real = real;
            }
        }
        // each mutation had its direct effect
        let full: BTreeMap<&str, &str> = full_real.iter().map(|(p, k)| (p.as_str(), *k)).collect();
        for e in &expects {
            match e {
                Expect::Class(p, k) => {
                    if full.get(p.as_str()) != Some(k) {
                        report.oracle_fail("mutation-effect", case(), &format!("{p} should be reported {k}"), json!(full.get(p.as_str())));
                    }
                }
                Expect::SubtreeDeleted(q) => {
                    for p in s0.keys().filter(|p| *p == q || p.starts_with(&format!("{q}/"))) {
                        if full.get(p.as_str()) != Some(&"deleted") {
                            report.oracle_fail("mutation-effect", case(), &format!("{p} should be reported deleted"), json!(full.get(p.as_str())));
                        }
                    }
                }
            }
        }
        // model b: diffmeta on every pair present on both sides
        let b_view: BTreeMap<&str, &str> = lst.b.iter().map(|x| (x.0.as_str(), x.2.as_str())).collect();
        let mut pair_paths = Vec::new();
        let mut reqs = Vec::new();
        for (p, _, av) in &lst.a {
            if let Some(bv) = b_view.get(p.as_str()) {
                pair_paths.push(p.clone());
                reqs.push(format!("diffmeta {av} {bv}"));
            }
        }
        let ans = run_model_1(&reqs);
        for ((p, req), m) in pair_paths.iter().zip(reqs.iter()).zip(ans.iter()) {
            report.case(req, true);
            let real = full.get(p.as_str()).copied().unwrap_or("missing");
            if real != m {
                report.disagree("diffmeta", json!({"path": p, "request": req}), json!(real), json!(m));
            }
        }
        // events of the next backup
        let events: Rc<RefCell<Vec<(String, &'static str)>>> = Rc::new(RefCell::new(Vec::new()));
        let ev2 = events.clone();
        let options = BackupOptions {
            change_callback: Some(Box::new(move |ec: &EntryChange| {
                ev2.borrow_mut().push((ec.apath.to_string(), class_of(ec)));
                Ok(())
            })),
            ..BackupOptions::default()
        };
        block_on(async {
            let stats = conserve::backup(&archive, &src, &options, TestMonitor::arc()).await.unwrap();
            assert_eq!(stats.errors, 0);
        });
        let events = events.borrow().clone();
        report.case(&format!("events {canonical}"), nontrivial);
        let m = parse_model_lines(&model[2]);
        if m != to_owned_pairs(&events) {
            report.disagree("events", case(), json!(events), json!(model[2]));
        }
        // oracle for events: deleted paths of any kind + paths that are files in T1
        let want: Vec<(String, &'static str)> = oracle(&s0, &s1, true)
            .into_iter()
            .filter(|(p, k)| *k == "deleted" || s1.get(p).map(|st| st.kind == 'f').unwrap_or(false))
            .collect();
        if events != want {
            report.oracle_fail("events-vs-oracle", case(), "change_callback events of the next backup differ from the real differences (restricted to deleted paths and current files)", json!({"events": events, "expected": want}));
        }
        for (_, k) in &events {
            report.hit(&format!("event:{k}"));
        }
        report.traces_validated += 1;
        if case_no == 1 || case_no == 2 {
            report.sample(json!({"case": case(), "diff": full_real, "events": events}));
        }
    }
    report.notes.push("events are compared only for deleted paths (any kind) and for paths that are files in the new tree: backup.rs emits no change event for source directories and symlinks (copy_dir/copy_symlink return Ok(None)), so added/changed dirs and symlinks are never named by the next backup".into());
    report.notes.push("owners: run as root, chown among uid/gid 0,1,2 (root, daemon, bin); the oracle compares numeric ids, the code compares names".into());
}
