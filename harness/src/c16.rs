//! C16: restore stays inside its destination and never clobbers by default.
//!
//! A sandbox directory holds the destination (empty | absent | pre-populated) and sentinels beside
//! it; source trees get symlinks pointing at the sentinels in every way (upward, absolute, `..`,
//! `.`, other entries, dangling); they are backed up by the real code and restored with several
//! subtree / exclude selections, with and without the overwrite option.
//! Oracle (no model): everything not under the destination is identical before and after
//! (`restore:escaped-destination`; for a version whose backup was interrupted — D11, repaired in
//! /repo commit 7db24bb — still `restore:escaped-via-interrupted-version` should it come back); the
//! D11 shape must be refused with an `invalid-metadata` error for what lies below the symlink
//! (`restore:guard-silent` otherwise); a non-empty destination without the overwrite option is
//! refused and left identical (`restore:clobbered`).
//! Correspondence: the final real sandbox vs `restoreToFs` of the Lean model on the same initial
//! file system and the node list the store-level model produces (`fs-restore` request).
use crate::absarch::abstract_archive;
use crate::compare::{Session, parse_answer, trunc};
use crate::hist::copy_dir;
use crate::icept::IceptConfig;
use crate::model::run_model;
use crate::real::*;
use crate::report::Report;
use crate::rng::Rng;
use crate::treespec::*;
use conserve::Exclude;
use serde_json::{Value, json};
use std::collections::{BTreeMap, BTreeSet};
use std::fs;
use std::os::unix::fs::{MetadataExt, PermissionsExt};
use std::path::{Path, PathBuf};

const OLD: i64 = 1_600_000_000_000_000_000;

#[derive(Clone, Copy, Debug, PartialEq, Eq)]
enum DestKind {
    Empty,
    EmptySetgid,
    Absent,
    Populated,
}

fn set_meta(p: &Path, mode: u32, uid: u32, gid: u32, mtime_ns: i64) {
    let md = fs::symlink_metadata(p).unwrap();
    std::os::unix::fs::lchown(p, Some(uid), Some(gid)).unwrap();
    if !md.file_type().is_symlink() {
        fs::set_permissions(p, fs::Permissions::from_mode(mode)).unwrap();
    }
    let ft = filetime::FileTime::from_unix_time(mtime_ns.div_euclid(1_000_000_000), mtime_ns.rem_euclid(1_000_000_000) as u32);
    filetime::set_symlink_file_times(p, ft, ft).unwrap();
}

/// (Re)build the sandbox: sentinels beside `dest`, and `dest` itself.
fn build_sandbox(sb: &Path, kind: DestKind, collide: &[(String, bool)], rng: &mut Rng) {
    if sb.exists() {
        // modes of a previous restore may be restrictive, but we are root
        fs::remove_dir_all(sb).unwrap();
    }
    fs::create_dir_all(sb.join("outside/sub")).unwrap();
    fs::write(sb.join("outside/file"), b"sentinel-content").unwrap();
    fs::write(sb.join("outside/sub/deep"), b"deep").unwrap();
    fs::write(sb.join("sentinel.txt"), b"beside").unwrap();
    std::os::unix::fs::symlink("outside/file", sb.join("sentinel-link")).unwrap();
    let dest = sb.join("dest");
    match kind {
        DestKind::Absent => {}
        DestKind::Empty | DestKind::EmptySetgid => {
            fs::create_dir(&dest).unwrap();
        }
        DestKind::Populated => {
            fs::create_dir(&dest).unwrap();
            // names that collide with entries of the tree, with the other kind
            for (name, is_dir) in collide.iter().take(3) {
                let p = dest.join(name);
                if *is_dir {
                    fs::write(&p, b"was-a-file").unwrap();
                    set_meta(&p, 0o6751, 1, 1, OLD + 5);
                } else if rng.chance(1, 2) {
                    fs::create_dir(&p).unwrap();
                    fs::write(p.join("inner"), b"x").unwrap();
                    set_meta(&p.join("inner"), 0o600, 2, 2, OLD + 6);
                    set_meta(&p, 0o2775, 0, 8, OLD + 7);
                } else {
                    fs::write(&p, b"old-content-longer-than-the-new-one").unwrap();
                    set_meta(&p, 0o4711, 8, 1, OLD + 8);
                }
            }
            // … and as symlinks that stay inside the destination (followed by open / create_dir_all / chmod)
            for (j, (name, _)) in collide.iter().enumerate().skip(3).take(3) {
                let target = ["existing-dir", "existing", "existing-dir/f"][j % 3];
                std::os::unix::fs::symlink(target, dest.join(name)).unwrap();
                set_meta(&dest.join(name), 0, 2, 1, OLD + 9);
            }
            fs::create_dir(dest.join("existing-dir")).unwrap();
            fs::write(dest.join("existing-dir/f"), b"keep").unwrap();
            fs::write(dest.join("existing"), b"keep me").unwrap();
            std::os::unix::fs::symlink("existing-dir", dest.join("ln-dir")).unwrap();
            std::os::unix::fs::symlink("existing", dest.join("ln-file")).unwrap();
            set_meta(&dest.join("existing-dir/f"), 0o640, 1, 2, OLD + 1);
            set_meta(&dest.join("existing-dir"), 0o755, 0, 0, OLD + 2);
            set_meta(&dest.join("existing"), 0o4755, 2, 2, OLD + 3);
            set_meta(&dest.join("ln-dir"), 0, 1, 1, OLD + 4);
            set_meta(&dest.join("ln-file"), 0, 0, 0, OLD + 4);
        }
    }
    set_meta(&sb.join("outside/sub/deep"), 0o600, 2, 2, OLD + 11);
    set_meta(&sb.join("outside/sub"), 0o2755, 1, 8, OLD + 12);
    set_meta(&sb.join("outside/file"), 0o4755, 1, 1, 1_500_000_000_123_456_789);
    set_meta(&sb.join("outside"), 0o750, 8, 8, OLD + 13);
    set_meta(&sb.join("sentinel.txt"), 0o644, 2, 2, OLD + 14);
    set_meta(&sb.join("sentinel-link"), 0, 8, 8, OLD + 15);
    match kind {
        DestKind::Empty | DestKind::Populated => set_meta(&dest, 0o755, 0, 0, OLD + 16),
        DestKind::EmptySetgid => set_meta(&dest, 0o2775, 0, 8, OLD + 16),
        DestKind::Absent => {}
    }
    set_meta(sb, 0o755, 0, 0, OLD + 17);
}

/// Add symlinks aimed at the sentinels to a generated tree.
fn add_links(t: &mut Tree, rng: &mut Rng, sb_abs: &str) {
    let dirs: Vec<Vec<String>> = t.nodes.values().filter(|n| n.kind == NodeKind::Dir).map(|n| n.comps.clone()).collect();
    let others: Vec<String> = t.nodes.values().filter(|n| !n.comps.is_empty()).map(|n| n.comps.last().unwrap().clone()).collect();
    let n_links = 2 + rng.below(6);
    for i in 0..n_links {
        let parent = rng.pick(&dirs).clone();
        let up = "../".repeat(parent.len() + 1);
        let target = match rng.below(12) {
            0 => format!("{up}outside"),
            1 => format!("{up}outside/file"),
            2 => format!("{up}sentinel.txt"),
            3 => format!("{sb_abs}/outside"),
            4 => format!("{sb_abs}/outside/file"),
            5 => "..".to_string(),
            6 => ".".to_string(),
            7 => format!("{}outside/sub", "../".repeat(parent.len() + 1 + rng.below(2))),
            8 if !others.is_empty() => rng.pick(&others).clone(),
            9 => "dangling/nowhere".to_string(),
            10 => format!("{up}sentinel-link"),
            _ => format!("{up}dest"),
        };
        let name = if rng.chance(1, 2) { format!("lnk{i}") } else { rng.pick(NAMES).to_string() };
        let mut comps = parent.clone();
        comps.push(name);
        let ap = format!("/{}", comps.join("/"));
        if t.nodes.contains_key(&ap) {
            continue;
        }
        let (uid, gid) = *rng.pick(OWNERS);
        t.nodes.insert(ap, Node { comps, kind: NodeKind::Symlink(target), mode: 0o777, mtime_ns: gen_mtime(rng, &GenOpts::default()), uid, gid });
    }
}

fn is_under_dest(apath: &str) -> bool {
    apath == "/dest" || apath.starts_with("/dest/")
}

fn obs_json(o: &Obs) -> Value {
    json!({"path": o.apath, "kind": o.kind.to_string(), "content": String::from_utf8_lossy(&o.content).chars().take(40).collect::<String>(), "target": o.target, "mode": format!("{:o}", o.mode), "mtime_ns": o.mtime_ns, "uid": o.uid, "gid": o.gid})
}

/// Differences outside the destination between two observations of the sandbox (first few).
fn outside_diff(before: &[Obs], after: &[Obs], dest_was_absent: bool) -> Option<Value> {
    let b: BTreeMap<&str, &Obs> = before.iter().filter(|o| !is_under_dest(&o.apath)).map(|o| (o.apath.as_str(), o)).collect();
    let a: BTreeMap<&str, &Obs> = after.iter().filter(|o| !is_under_dest(&o.apath)).map(|o| (o.apath.as_str(), o)).collect();
    let mut diffs: Vec<Value> = Vec::new();
    for (p, oa) in &a {
        if !b.contains_key(p) {
            diffs.push(json!({"path": p, "what": "appeared", "after": obs_json(oa)}));
        }
    }
    for (p, ob) in &b {
        match a.get(p) {
            None => diffs.push(json!({"path": p, "what": "disappeared", "before": obs_json(ob)})),
            Some(oa) => {
                let mut x = (*oa).clone();
                if dest_was_absent && *p == "/" {
                    // mkdir(dest) stamps the mtime of dest's parent: the one permitted change
                    x.mtime_ns = ob.mtime_ns;
                }
                if x != **ob {
                    diffs.push(json!({"path": p, "what": "changed", "before": obs_json(ob), "after": obs_json(oa)}));
                }
            }
        }
    }
    if diffs.is_empty() { None } else { diffs.truncate(4); Some(json!(diffs)) }
}

fn dest_diff(before: &[Obs], after: &[Obs]) -> Option<Value> {
    let b: Vec<&Obs> = before.iter().filter(|o| is_under_dest(&o.apath)).collect();
    let a: Vec<&Obs> = after.iter().filter(|o| is_under_dest(&o.apath)).collect();
    if b == a { None } else { Some(json!({"before": b.iter().take(6).map(|o| obs_json(o)).collect::<Vec<_>>(), "after": a.iter().take(6).map(|o| obs_json(o)).collect::<Vec<_>>()})) }
}

fn hexs(s: &str) -> String {
    hex::encode(s.as_bytes())
}
fn hex_or_dash(b: &[u8]) -> String {
    if b.is_empty() { "-".to_string() } else { hex::encode(b) }
}

/// `fsnode` tokens for the model: ancestors of the sandbox (as directories) and the sandbox itself.
fn fs_tokens(sb: &Path, obs: &[Obs]) -> Vec<String> {
    let mut out = Vec::new();
    let mut anc: Vec<PathBuf> = sb.ancestors().skip(1).map(|p| p.to_path_buf()).collect();
    anc.reverse();
    for p in anc {
        let md = fs::symlink_metadata(&p).unwrap();
        out.push(format!("{},d,-,-,{},{},{},{}", hexs(p.to_str().unwrap()), md.mode() & 0o7777, md.uid(), md.gid(), md.mtime() * 1_000_000_000 + md.mtime_nsec()));
    }
    let sbs = sb.to_str().unwrap();
    for o in obs {
        let p = if o.apath == "/" { sbs.to_string() } else { format!("{sbs}{}", o.apath) };
        out.push(format!("{},{},{},{},{},{},{},{}", hexs(&p), o.kind, hex_or_dash(&o.content), hex_or_dash(o.target.as_deref().unwrap_or("").as_bytes()), o.mode, o.uid, o.gid, o.mtime_ns));
    }
    out
}

fn owner_tokens() -> Vec<String> {
    let mut v = Vec::new();
    for id in [0u32, 1, 2, 8] {
        if let Some(n) = user_name(id) {
            v.push(format!("u:{}:{id}", hexs(&n)));
        }
        if let Some(n) = group_name(id) {
            v.push(format!("g:{}:{id}", hexs(&n)));
        }
    }
    v
}

/// `node …` line of the stateful driver -> `<rnode>` token of the fs-restore request.
fn rnode_token(line: &str) -> Option<String> {
    let f: Vec<&str> = line.split(' ').collect();
    if f.len() != 11 || f[0] != "node" {
        return None;
    }
    let content = if f[3].is_empty() { "-" } else { f[3] };
    Some(format!("{},{},{},{},{},{},{},{},{},{}", f[1], f[2], content, f[4], f[5], f[6], f[7], f[8], f[9], f[10]))
}

struct Pending {
    case: Value,
    sb: PathBuf,
    i_nodes: usize,
    fs_toks: Vec<String>,
    overwrite: bool,
    t0_ns: i64,
    after: Vec<Obs>,
    real: RunResult,
    known_gap: bool,
}

fn now_ns() -> i64 {
    let d = std::time::SystemTime::now().duration_since(std::time::UNIX_EPOCH).unwrap();
    d.as_nanos() as i64
}

#[allow(clippy::too_many_arguments)]
fn one_restore(
    report: &mut Report, session: &mut Session, pend: &mut Vec<Pending>, rng: &mut Rng, case_base: &Value, arch: &Path, sb: &Path,
    all_apaths: &BTreeSet<String>, collide: &[(String, bool)], kind: DestKind, p: RestoreParams, interrupted: bool, expect_guard: bool, known_gap: bool,
) {
    build_sandbox(sb, kind, collide, rng);
    let dest = sb.join("dest");
    let before = observe(sb);
    let fs_toks = fs_tokens(sb, &before);
    // the model's node list: subtree by the model, exclusions evaluated by the real `Exclude`
    let ex = Exclude::from_strings(&p.exclude).expect("exclude patterns");
    let excluded: Vec<&String> = all_apaths.iter().filter(|a| ex.matches(a.as_str())).collect();
    let sub = p.subtree.clone().unwrap_or("/".into());
    let i_nodes = session.push(
        format!("restore {} s:{} {} {}", p.sel.text(), hexs(&sub), excluded.len(), excluded.iter().map(|a| format!("s:{}", hexs(a))).collect::<Vec<_>>().join(" ")).trim_end().to_string(),
    );
    let case = json!({"base": case_base, "dest": format!("{kind:?}"), "overwrite": p.overwrite, "select": p.sel.text(), "subtree": p.subtree, "exclude": p.exclude, "interrupted_version": interrupted});
    let t0_ns = now_ns();
    let real = real_restore(arch, &dest, &p, IceptConfig::default());
    let after = observe(sb);
    // ---- oracle, no model involved
    let dest_nonempty = kind == DestKind::Populated;
    if let Some(d) = outside_diff(&before, &after, kind == DestKind::Absent) {
        let sig = if interrupted { "restore:escaped-via-interrupted-version" } else { "restore:escaped-destination" };
        report.oracle_fail(sig, case.clone(), "something outside the destination directory changed during restore", d);
        report.hit(if interrupted { "escape:interrupted-version" } else { "escape:complete-version" });
    }
    if expect_guard {
        // the D11 shape, whole tree into an empty destination: `/a/b` lies below the symlink `/a`
        // of the same listing and must be refused, loudly
        let n = real.events.iter().filter(|e| e.as_str() == "event error invalid-metadata").count();
        if n == 0 || !real.result.starts_with("result ok") {
            report.oracle_fail("restore:guard-silent", case.clone(), "the entry below a symlink of the same listing was not reported as invalid-metadata", json!({"result": trunc(&real.result), "events": real.events.iter().take(4).collect::<Vec<_>>()}));
        }
        if dest.join("a").join("b").exists() || !dest.join("a").is_symlink() {
            report.oracle_fail("restore:guard-silent", case.clone(), "the D11 shape did not restore `/a` as a symlink with nothing below it", json!(after.iter().map(obs_json).collect::<Vec<_>>()));
        }
        report.hit("guard:d11-shape-refused");
    }
    if real.events.iter().any(|e| e == "event error invalid-metadata") {
        report.hit("guard:invalid-metadata-reported");
    }
    if dest_nonempty && !p.overwrite {
        // refused either for being non-empty, or earlier because the version cannot be opened
        let earlier = ["result err band-head-missing", "result err band-not-found", "result err no-complete-bands"].iter().any(|e| real.result.starts_with(e));
        if real.result != "result err destination-not-empty" && !earlier {
            report.oracle_fail("restore:clobbered", case.clone(), "non-empty destination without --overwrite was not refused", json!(trunc(&real.result)));
        } else if let Some(d) = dest_diff(&before, &after) {
            report.oracle_fail("restore:clobbered", case.clone(), "refused restore changed the destination", d);
        }
        report.hit("refused:non-empty");
    }
    if real.result.starts_with("result panic") {
        report.oracle_fail("restore:panic", case.clone(), "restore panicked", json!(trunc(&real.result)));
    }
    report.case(&serde_json::to_string(&case).unwrap(), before.len() > 6);
    report.hit(&format!("dest:{kind:?} overwrite:{}", p.overwrite));
    report.hit(if p.subtree.is_some() { "select:subtree" } else { "select:whole" });
    if !p.exclude.is_empty() {
        report.hit("select:exclude");
    }
    pend.push(Pending { case, sb: sb.to_path_buf(), i_nodes, fs_toks, overwrite: p.overwrite, t0_ns, after, real, known_gap });
}

fn gen_selection(rng: &mut Rng, tree: &Tree) -> (Option<String>, Vec<String>) {
    let keys: Vec<&String> = tree.nodes.keys().filter(|k| *k != "/").collect();
    let dirs: Vec<&String> = tree.nodes.iter().filter(|(k, n)| *k != "/" && n.kind == NodeKind::Dir).map(|(k, _)| k).collect();
    let subtree = match rng.below(6) {
        0 | 1 if !dirs.is_empty() => Some((*rng.pick(&dirs)).clone()),
        2 if !keys.is_empty() => Some((*rng.pick(&keys)).clone()),
        3 => Some("/no/such/dir".to_string()),
        _ => None,
    };
    let mut exclude = Vec::new();
    if rng.chance(1, 3) && !keys.is_empty() {
        for _ in 0..1 + rng.below(2) {
            let k = *rng.pick(&keys);
            let name = k.rsplit('/').next().unwrap();
            exclude.push(match rng.below(3) {
                0 => k.clone(),
                1 => name.to_string(),
                _ => format!("/**/{name}"),
            });
        }
        // patterns with glob metacharacters in names are kept away from (C15 covers them)
        exclude.retain(|p| !p.contains(['[', ']', '{', '}', '?', '\\', '!']) && !p.replace("/**/", "").contains('*'));
    }
    (subtree, exclude)
}

fn band_incomplete(arch: &Path, b: u32) -> bool {
    !arch.join(band_name(b)).join("BANDTAIL").exists()
}

/// Second backup stopped right before its tail is written; returns false if that did not work out.
fn interrupted_backup(work: &Path, arch: &Path, src: &Path, params: &BackupParams) -> bool {
    let scratch = work.join("scratch-arch");
    if scratch.exists() {
        fs::remove_dir_all(&scratch).unwrap();
    }
    copy_dir(arch, &scratch);
    let dry = real_backup(&scratch, src, params, IceptConfig::default());
    let _ = fs::remove_dir_all(&scratch);
    if dry.steps < 3 {
        return false;
    }
    // the tail write is the last two micro-steps (create empty, fill): stop before both
    let _ = real_backup(arch, src, params, IceptConfig { crash_at: Some(dry.steps - 2), ..Default::default() });
    true
}

pub fn run(tier: &str, seed: u64, report: &mut Report) {
    let thorough = tier == "thorough";
    nix::sys::stat::umask(nix::sys::stat::Mode::from_bits_truncate(0o022));
    let n_cases = if thorough { 400 } else { 36 };
    let mut session = Session::new();
    let mut pend: Vec<Pending> = Vec::new();
    for i in 0..n_cases {
        let case_seed = seed.wrapping_mul(7_000_003).wrapping_add(i as u64);
        let mut rng = Rng::new(case_seed ^ 0xC16);
        let work = tempfile::tempdir().expect("tempdir");
        let (src, arch, sb) = (work.path().join("src"), work.path().join("arch"), work.path().join("sandbox"));
        let sb_abs = sb.to_str().unwrap().to_string();
        let go = GenOpts { max_nodes: if thorough { 20 } else { 14 }, max_depth: 3, block: 8, cap: 4, ..Default::default() };
        let params = BackupParams { max_entries_per_hunk: *rng.pick(&[1usize, 2, 3, 1000]), max_block_size: 64, small_file_cap: 8, owner: true, exclude: vec![] };
        let mut all_apaths: BTreeSet<String> = BTreeSet::new();
        create_archive(&arch);
        // ---- scenario: 0 = one complete version; 1 = two complete versions with a dir->symlink swap;
        //      2 = the D11 shape exactly; 3 = generated tree, swap, second backup interrupted before its tail
        //      4 = like 3, but an EARLIER attempt died while writing its first hunk (zero-length hunk 0) in between
        let scenario = if i == 0 { 2 } else if i == 1 { 4 } else { [0, 0, 1, 3, 3, 2, 4][rng.below(7)] };
        let mut tree = if scenario == 2 {
            let mut t = Tree::default();
            t.nodes.insert("/".into(), Node { comps: vec![], kind: NodeKind::Dir, mode: 0o755, mtime_ns: OLD, uid: 0, gid: 0 });
            t.nodes.insert("/a".into(), Node { comps: vec!["a".into()], kind: NodeKind::Dir, mode: 0o755, mtime_ns: OLD + 1, uid: 0, gid: 0 });
            t.nodes.insert("/a/b".into(), Node { comps: vec!["a".into(), "b".into()], kind: NodeKind::File(b"from-the-old-band".to_vec()), mode: 0o4755, mtime_ns: OLD + 2, uid: 2, gid: 2 });
            t
        } else {
            let mut t = gen_tree(&mut rng, &go);
            add_links(&mut t, &mut rng, &sb_abs);
            t
        };
        tree.materialize(&src);
        all_apaths.extend(tree.nodes.keys().cloned());
        let b0 = real_backup(&arch, &src, &params, IceptConfig::default());
        if !b0.result.starts_with("result ok") {
            report.oracle_fail("backup-not-clean", json!({"case_seed": case_seed}), "backup failed", json!(trunc(&b0.result)));
            continue;
        }
        // an archive written by conserve on macOS / BSD records the symlink's OWN permission bits (0755 under
        // umask 022), where Linux always records 0777: rewrite the stored entries that way in some of the
        // one-version cases — restoring such an archive must still leave the links' targets alone
        if scenario == 0 && (i == 2 || rng.chance(1, 3)) {
            let mut n = 0;
            for sub in fs::read_dir(arch.join("b0000/i")).into_iter().flatten().flatten() {
                for h in fs::read_dir(sub.path()).into_iter().flatten().flatten() {
                    let Ok(bytes) = fs::read(h.path()) else { continue };
                    let Ok(raw) = snap::raw::Decoder::new().decompress_vec(&bytes) else { continue };
                    let Ok(mut v) = serde_json::from_slice::<serde_json::Value>(&raw) else { continue };
                    if let Some(arr) = v.as_array_mut() {
                        for e in arr.iter_mut().filter(|e| e["kind"] == "Symlink") {
                            e["unix_mode"] = json!(0o755);
                            n += 1;
                        }
                    }
                    fs::write(h.path(), snap::raw::Encoder::new().compress_vec(&serde_json::to_vec(&v).unwrap()).unwrap()).unwrap();
                }
            }
            if n > 0 {
                report.hit("scenario0:symlink-modes-as-recorded-on-macos(0755)");
            }
        }
        let mut interrupted_band: Option<u32> = None;
        let mut swapped: Option<String> = None;
        if scenario >= 1 {
            // replace a directory that has children by a symlink leading out of the destination
            let dirs: Vec<String> = tree.nodes.iter().filter(|(k, n)| *k != "/" && n.kind == NodeKind::Dir && tree.nodes.keys().any(|c| c.starts_with(&format!("{k}/")))).map(|(k, _)| k.clone()).collect();
            if let Some(d) = if dirs.is_empty() { None } else { Some(rng.pick(&dirs).clone()) } {
                let node = tree.nodes[&d].clone();
                let up = "../".repeat(node.comps.len());
                let target = if scenario == 2 { format!("{up}outside") } else { rng.pick(&[format!("{up}outside"), format!("{sb_abs}/outside"), format!("{up}outside/sub"), "..".to_string(), format!("{up}sentinel.txt")]).clone() };
                let below: Vec<String> = tree.nodes.keys().filter(|k| k.starts_with(&format!("{d}/"))).cloned().collect();
                for k in below {
                    tree.nodes.remove(&k);
                }
                tree.nodes.insert(d.clone(), Node { kind: NodeKind::Symlink(target), mode: 0o777, ..node });
                fs::remove_dir_all(&src).unwrap();
                tree.materialize(&src);
                swapped = Some(d);
                if scenario == 1 {
                    let b1 = real_backup(&arch, &src, &params, IceptConfig::default());
                    if !b1.result.starts_with("result ok") {
                        continue;
                    }
                } else if scenario == 4 {
                    if crate::sweep::die_on_first_hunk(work.path(), &arch, &src, &params, 1) && interrupted_backup(work.path(), &arch, &src, &params) && band_incomplete(&arch, 2) {
                        report.hit("scenario4:zero-length-hunk-band-in-between");
                        interrupted_band = Some(2);
                    }
                } else if interrupted_backup(work.path(), &arch, &src, &params) && band_incomplete(&arch, 1) {
                    interrupted_band = Some(1);
                }
            }
        }
        let (state, _) = abstract_archive(&arch);
        session.load_store(&state);
        let scenario_name = ["one-version", "dir-to-symlink-two-complete-versions", "D11-shape", "dir-to-symlink-second-backup-interrupted", "dir-to-symlink-two-interrupted-backups-first-died-on-hunk-0"][scenario];
        let case_base = json!({"case_seed": case_seed, "scenario": scenario_name, "swapped": swapped,
            "tree": tree.nodes.values().map(|n| json!({"apath": n.apath(), "kind": match &n.kind { NodeKind::File(c) => format!("file:{}", c.len()), NodeKind::Dir => "dir".into(), NodeKind::Symlink(t) => format!("symlink:{t}") }})).collect::<Vec<_>>()});
        if i < 3 {
            report.sample(case_base.clone());
        }
        report.hit(&format!("scenario:{}", scenario));
        let collide: Vec<(String, bool)> = tree.nodes.values().filter(|n| n.comps.len() == 1).map(|n| (n.comps[0].clone(), n.kind == NodeKind::Dir)).collect();
        // ---- restores
        let mut plans: Vec<(DestKind, RestoreParams, bool, bool)> = Vec::new();
        let sels: Vec<(Sel, bool)> = match (scenario, interrupted_band) {
            (_, Some(b)) => vec![(Sel::Band(b), true), (Sel::Band(0), false), (Sel::Closed, false)],
            (1, _) if swapped.is_some() => vec![(Sel::Band(0), false), (Sel::Band(1), false), (Sel::Closed, false)],
            _ => vec![(Sel::Closed, false)],
        };
        for (sel, interrupted) in &sels {
            // whole tree into an empty destination, always
            plans.push((DestKind::Empty, RestoreParams { sel: sel.clone(), subtree: None, exclude: vec![], overwrite: false }, *interrupted, *interrupted && scenario == 2));
            let extra = if thorough { 4 } else { 2 };
            for _ in 0..extra {
                let kind = *rng.pick(&[DestKind::Empty, DestKind::EmptySetgid, DestKind::Absent, DestKind::Populated, DestKind::Populated]);
                let (subtree, exclude) = gen_selection(&mut rng, &tree);
                let overwrite = rng.chance(1, 2);
                plans.push((kind, RestoreParams { sel: sel.clone(), subtree, exclude, overwrite }, *interrupted, false));
            }
        }
        // The code's guard only counts symlinks it managed to create; the store-level model counts every
        // symlink entry (it cannot know whether `symlink()` succeeded).  The two differ exactly when the
        // swapped symlink cannot be created because the pre-populated destination already holds its
        // name (or a file where its parent should be).  Random plans keep away from that collision;
        // one plan per D11-shape case keeps it, labelled, to document the difference.
        let swapped_top: Option<String> = swapped.as_ref().map(|d| d[1..].split('/').next().unwrap().to_string());
        let collide_safe: Vec<(String, bool)> = collide.iter().filter(|(n, _)| Some(n) != swapped_top.as_ref()).cloned().collect();
        if scenario == 2 && interrupted_band.is_some() {
            let p = RestoreParams { sel: Sel::Band(1), subtree: None, exclude: vec![], overwrite: true };
            one_restore(report, &mut session, &mut pend, &mut rng, &case_base, &arch, &sb, &all_apaths, &collide, DestKind::Populated, p, true, false, true);
        }
        for (kind, p, interrupted, expect_guard) in plans {
            let c = if interrupted { &collide_safe } else { &collide };
            one_restore(report, &mut session, &mut pend, &mut rng, &case_base, &arch, &sb, &all_apaths, c, kind, p, interrupted, expect_guard, false);
        }
        drop(work);
    }
    // ---- correspondence with the model: store level gives the nodes, Fs level the final file system
    let answers = session.run();
    let owners = owner_tokens().join(" ");
    let mut reqs: Vec<String> = Vec::new();
    let mut idx: Vec<Option<usize>> = Vec::new();
    for p in &pend {
        let a = parse_answer(&answers[p.i_nodes]);
        if !a.result.starts_with("result ok") {
            idx.push(None);
            continue;
        }
        let nodes: Vec<String> = a.lines.iter().filter_map(|l| rnode_token(l)).collect();
        let dest = format!("{}/dest", p.sb.to_str().unwrap());
        idx.push(Some(reqs.len()));
        reqs.push(format!("fs-restore {} 0 {} 18 {} {} {} {} {}", if p.overwrite { 1 } else { 0 }, hexs(&dest), p.fs_toks.len(), p.fs_toks.join(" "), nodes.len(), nodes.join(" "), owners));
    }
    let fs_answers = run_model(&reqs);
    for (p, ix) in pend.iter().zip(idx.iter()) {
        let store = parse_answer(&answers[p.i_nodes]);
        let Some(ix) = ix else {
            // the store-level half fails (no such band, …): the real restore must fail too and touch nothing
            report.hit("store-level-error");
            if p.real.result.starts_with("result ok") {
                report.disagree("fs:store-level-result", p.case.clone(), json!(trunc(&p.real.result)), json!(trunc(&store.result)));
            }
            continue;
        };
        compare_fs(report, p, &store.events, &fs_answers[*ix]);
    }
}

fn compare_fs(report: &mut Report, p: &Pending, store_events: &[String], model: &[String]) {
    report.traces_validated += 1;
    if model.first().map(|s| s.as_str()) == Some("bad-op") {
        report.disagree("fs:bad-request", p.case.clone(), json!(""), json!("bad-op"));
        return;
    }
    let sbs = p.sb.to_str().unwrap();
    // model's final file system, sandbox part
    let mut m: BTreeMap<String, Vec<String>> = BTreeMap::new();
    let mut merrs: Vec<String> = Vec::new();
    let mut mresult = String::new();
    for l in model {
        let f: Vec<&str> = l.split(' ').collect();
        match f[0] {
            "fsnode" => {
                let path = String::from_utf8(hex::decode(f[1]).unwrap()).unwrap();
                if path == sbs || path.starts_with(&format!("{sbs}/")) {
                    let rel = if path == sbs { "/".to_string() } else { path[sbs.len()..].to_string() };
                    m.insert(rel, f[2..].iter().map(|s| s.to_string()).collect());
                }
            }
            "err" => merrs.push(f[1].to_string()),
            "result" => mresult = l.clone(),
            _ => {}
        }
    }
    {
        // The code's guard only counts symlinks it managed to create (`restored_symlinks.insert` comes
        // after a successful `restore_symlink`); the store-level model counts every symlink entry, it
        // cannot know whether `symlink()` succeeded.  When a symlink of an interrupted version's listing
        // could not be created (EEXIST in a pre-populated destination, ENOENT when it is the root of the
        // selected subtree and its parent does not exist) the code goes on to the entries below it —
        // inside the destination, or failing — while the model has dropped them with invalid-metadata.
        // Documented difference: such runs are counted, not compared (the oracle above still applies).
        let interrupted = p.case["interrupted_version"].as_bool().unwrap_or(false);
        let real_has_symlink_err = p.real.events.iter().any(|e| e.contains("RestoreSymlink"));
        let model_dropped = store_events.iter().any(|e| e.contains("invalid-metadata"));
        // (since /repo 3da10b6 the code records a symlink entry before trying to create it, like the
        // model: these runs are compared like all others; the counter stays for the evidence)
        if interrupted && real_has_symlink_err && model_dropped {
            report.hit("guard:symlink-creation-failed-entries-below-still-refused");
        }
        if p.known_gap {
            report.hit("known-gap:not-triggered");
        }
    }
    // errors: the store-level half logs block errors and guard refusals, the fs half everything else.
    // The code tests the destination before it looks at the first entry: when the fs half refuses
    // (destination not empty, I/O error) the per-entry loop never ran and has reported nothing.
    let store_events: &[String] = if mresult == "result ok" { store_events } else { &[] };
    let real_errs: Vec<String> = p.real.events.iter().filter_map(|e| e.strip_prefix("event error ")).map(|e| e.strip_prefix("other:").unwrap_or(e).split(':').next().unwrap().to_string()).collect();
    let mut model_errs: Vec<String> = store_events.iter().filter_map(|e| e.strip_prefix("event error ")).map(|e| e.split(':').next().unwrap().to_string()).collect();
    model_errs.extend(merrs.iter().cloned());
    let norm = |v: &Vec<String>| {
        let mut v: Vec<String> = v.iter().map(|s| s.to_lowercase().replace('-', "")).collect();
        v.sort();
        v
    };
    let real_result = if p.real.result.starts_with("result ok") { "result ok".to_string() } else if p.real.result.starts_with("result err other:") { "result err io".to_string() } else { p.real.result.trim_end().to_string() };
    let mresult_n = if mresult.starts_with("result err io:") { "result err io".to_string() } else { mresult.clone() };
    if real_result != mresult_n {
        report.disagree("fs:result", p.case.clone(), json!(trunc(&p.real.result)), json!(mresult));
        return;
    }
    if norm(&real_errs) != norm(&model_errs) {
        report.disagree("fs:errors", p.case.clone(), json!(real_errs), json!(model_errs));
    }
    if !real_errs.is_empty() {
        report.hit("restore:with-monitor-errors");
    }
    // final file system, path by path
    let real: BTreeMap<&str, &Obs> = p.after.iter().map(|o| (o.apath.as_str(), o)).collect();
    for (path, o) in &real {
        let Some(f) = m.get(*path) else {
            report.disagree("fs:missing-in-model", p.case.clone(), obs_json(o), json!(null));
            return;
        };
        let content = hex_or_dash(&o.content);
        let target = hex_or_dash(o.target.as_deref().unwrap_or("").as_bytes());
        let mut bad: Option<&str> = None;
        if f[0] != o.kind.to_string() {
            bad = Some("kind");
        } else if f[1] != content {
            bad = Some("content");
        } else if f[2] != target {
            bad = Some("target");
        } else if f[3] != o.mode.to_string() {
            bad = Some("mode");
        } else if f[4] != o.uid.to_string() || f[5] != o.gid.to_string() {
            bad = Some("owner");
        } else if f[6] == "now" {
            // stamped by the kernel during the restore (coarse clock: allow a tick of slack)
            if o.mtime_ns < p.t0_ns - 50_000_000 {
                bad = Some("mtime-not-now");
            }
        } else if f[6] != o.mtime_ns.to_string() {
            bad = Some("mtime");
        }
        if let Some(b) = bad {
            let sig = format!("fs:{b}");
            report.disagree(&sig, p.case.clone(), obs_json(o), json!({"path": path, "model": f}));
            return;
        }
    }
    for path in m.keys() {
        if !real.contains_key(path.as_str()) {
            report.disagree("fs:extra-in-model", p.case.clone(), json!(null), json!({"path": path, "model": m[path]}));
            return;
        }
    }
    report.hit("fs:agree");
}
