//! Run the real conserve operations in-process, through an intercepted Transport, and render
//! what happened in the model's text forms.
use crate::absarch;
use crate::icept::{Icept, IceptConfig, OpRec};
use conserve::monitor::test::TestMonitor;
use conserve::transport::verif_hooks::{Outcome, Verb};
use conserve::transport::{ErrorKind, Transport, WriteMode};
use conserve::*;
use std::panic::AssertUnwindSafe;
use std::path::Path;
use std::sync::{Arc, Mutex};

pub fn verb_text(v: Verb) -> &'static str {
    match v {
        Verb::Read => "read",
        Verb::Write => "write",
        Verb::ListDir => "list",
        Verb::CreateDir => "mkdir",
        Verb::Metadata => "stat",
        Verb::RemoveFile => "rm",
        Verb::RemoveDirAll => "rmtree",
    }
}

pub fn parse_verb(s: &str) -> Option<Verb> {
    Some(match s {
        "read" => Verb::Read,
        "write" => Verb::Write,
        "list" => Verb::ListDir,
        "mkdir" => Verb::CreateDir,
        "stat" => Verb::Metadata,
        "rm" => Verb::RemoveFile,
        "rmtree" => Verb::RemoveDirAll,
        _ => return None,
    })
}

pub fn kind_text(k: ErrorKind) -> &'static str {
    match k {
        ErrorKind::NotFound => "nf",
        ErrorKind::AlreadyExists => "ae",
        ErrorKind::PermissionDenied => "pd",
        _ => "ot",
    }
}

pub fn parse_kind(s: &str) -> ErrorKind {
    match s {
        "nf" => ErrorKind::NotFound,
        "ae" => ErrorKind::AlreadyExists,
        "pd" => ErrorKind::PermissionDenied,
        _ => ErrorKind::Other,
    }
}

/// One trace line in the model's format: `op <verb> <path> <value|-> <new|over|-> <ok|err:kind>`.
pub fn op_text(r: &OpRec) -> String {
    let (v, m) = match (&r.payload, r.mode) {
        (Some(p), Some(mode)) => (absarch::abstract_file(&r.path, p), if mode == WriteMode::CreateNew { "new" } else { "over" }),
        _ => ("-".to_string(), "-"),
    };
    let resp = match &r.outcome {
        Outcome::Err(k) => format!("err:{}", kind_text(*k)),
        _ => "ok".to_string(),
    };
    format!("op {} {} {} {} {}", verb_text(r.verb), r.path, v, m, resp)
}

/// conserve::Error -> the model's error text.
pub fn err_text(e: &Error) -> String {
    match e {
        Error::Transport { source } => format!("transport:{}", kind_text(source.kind())),
        Error::DeserializeJson { .. } | Error::SnapCompressionError { .. } | Error::SerializeJson { .. } => "json".into(),
        Error::NotAnArchive => "not-an-archive".into(),
        Error::UnsupportedArchiveVersion { .. } => "unsupported-archive-version".into(),
        Error::BandHeadMissing { band_id } => format!("band-head-missing:{}", band_num(band_id)),
        Error::UnsupportedBandVersion { band_id, .. } => format!("unsupported-band-version:{}", band_num(band_id)),
        Error::UnsupportedBandFormatFlags { band_id, .. } => format!("unsupported-band-flags:{}", band_num(band_id)),
        Error::BandNotFound { band_id } => format!("band-not-found:{}", band_num(band_id)),
        Error::NoCompleteBands => "no-complete-bands".into(),
        Error::ArchiveEmpty => "archive-empty".into(),
        Error::GarbageCollectionLockHeld => "gc-lock-held".into(),
        Error::DeleteWithIncompleteBackup { band_id } => format!("delete-with-incomplete-backup:{}", band_num(band_id)),
        Error::GarbageCollectionLockHeldDuringBackup => "gc-lock-held-during-backup".into(),
        Error::ListBlocks { source } => format!("list-blocks:{}", kind_text(source.kind())),
        Error::BlockCorrupt { hash } => format!("block-corrupt:{hash}"),
        Error::BlockTooShort { hash, .. } => format!("block-too-short:{hash}"),
        Error::BlockMissing { hash } => format!("block-missing:{hash}"),
        Error::RestoreFileBlock { apath, hash, .. } => format!("restore-file-block:{}:{}", hex::encode(apath.as_bytes()), hash),
        Error::InvalidMetadata { .. } => "invalid-metadata".into(),
        Error::DestinationNotEmpty => "destination-not-empty".into(),
        other => format!("other:{}", format!("{other:?}").split(|c: char| !c.is_alphanumeric()).next().unwrap_or("?")),
    }
}

fn band_num(b: &BandId) -> u64 {
    b.to_string()[1..].parse().unwrap()
}

pub fn band_name(b: u32) -> String {
    format!("b{b:04}")
}

#[derive(Debug, Clone, Default)]
pub struct RunResult {
    /// full trace in the model's format
    pub trace: Vec<String>,
    /// `event …` lines
    pub events: Vec<String>,
    /// `result ok …` / `result err …` / `result panic …`
    pub result: String,
    /// extra payload lines (entries, nodes)
    pub lines: Vec<String>,
    pub steps: usize,
    pub dead: bool,
    pub injected: Vec<crate::icept::FaultSpec>,
}

pub fn stats_text(s: &BackupStats) -> String {
    format!(
        "files={} symlinks={} directories={} unknown_kind={} unmodified_files={} modified_files={} new_files={} replaced_damaged_blocks={} deduplicated_bytes={} uncompressed_bytes={} deduplicated_blocks={} written_blocks={} combined_blocks={} empty_files={} small_combined_files={} single_block_files={} multi_block_files={} errors={}",
        s.files, s.symlinks, s.directories, s.unknown_kind, s.unmodified_files, s.modified_files, s.new_files, s.replaced_damaged_blocks,
        s.deduplicated_bytes, s.uncompressed_bytes, s.deduplicated_blocks, s.written_blocks, s.combined_blocks, s.empty_files,
        s.small_combined_files, s.single_block_files, s.multi_block_files, s.errors
    )
}

pub fn delete_stats_text(s: &DeleteStats) -> String {
    format!(
        "unreferenced_block_count={} deleted_band_count={} deleted_block_count={} deletion_errors={}",
        s.unreferenced_block_count, s.deleted_band_count, s.deleted_block_count, s.deletion_errors
    )
}

pub fn panic_text(p: Box<dyn std::any::Any + Send>) -> String {
    let s = if let Some(s) = p.downcast_ref::<String>() {
        s.clone()
    } else if let Some(s) = p.downcast_ref::<&str>() {
        s.to_string()
    } else {
        "?".to_string()
    };
    s.replace([' ', '\n'], "_")
}

thread_local! {
    /// `Some(n)`: operations started from this thread run on a multi-thread runtime with n workers.
    static RT_WORKERS: std::cell::Cell<Option<usize>> = const { std::cell::Cell::new(None) };
    /// Listings (path, names in the order handed to the caller) of the last finished operation.
    static LAST_LISTINGS: std::cell::RefCell<Vec<(String, Vec<String>)>> = const { std::cell::RefCell::new(Vec::new()) };
}

/// Run `f` with every `block_on_catch` on this thread (so every `real_*` call) using a
/// multi-thread tokio runtime with `workers` worker threads (`None` = the default
/// current-thread runtime).  The operation's own future is still polled by `block_on` on the
/// calling thread (conserve's futures are `!Send`); tasks it spawns (the block-directory
/// listing JoinSet, validate's JoinSet, the gc lock's Drop) run on the worker threads.
pub fn with_runtime_workers<R>(workers: Option<usize>, f: impl FnOnce() -> R) -> R {
    let prev = RT_WORKERS.with(|c| c.replace(workers));
    let r = std::panic::catch_unwind(AssertUnwindSafe(f));
    RT_WORKERS.with(|c| c.set(prev));
    match r {
        Ok(v) => v,
        Err(p) => std::panic::resume_unwind(p),
    }
}

fn build_runtime() -> tokio::runtime::Runtime {
    match RT_WORKERS.with(|c| c.get()) {
        None => tokio::runtime::Builder::new_current_thread().enable_all().build().expect("runtime"),
        Some(n) => tokio::runtime::Builder::new_multi_thread().worker_threads(n.max(1)).enable_all().build().expect("runtime"),
    }
}

/// Every listing the last `real_*` operation on this thread received: (path, names in the
/// order the (possibly shuffling) interceptor handed them to the program).
pub fn take_last_listings() -> Vec<(String, Vec<String>)> {
    LAST_LISTINGS.with(|l| std::mem::take(&mut *l.borrow_mut()))
}

/// Run an async operation on its own runtime (current-thread unless `with_runtime_workers`
/// says otherwise), catching panics, and drain
/// tasks it spawned (the gc lock's Drop spawns its cleanup).
pub fn block_on_catch<T, F>(make: impl FnOnce() -> F) -> std::result::Result<T, String>
where
    F: std::future::Future<Output = T>,
{
    let rt = build_runtime();
    let multi = RT_WORKERS.with(|c| c.get()).is_some();
    let r = std::panic::catch_unwind(AssertUnwindSafe(|| {
        rt.block_on(async {
            let out = make().await;
            for _ in 0..3 {
                tokio::task::yield_now().await;
            }
            if multi {
                // detached tasks (the gc lock's Drop) run on worker threads at their own pace: wait
                // until none is alive, so that their operations are in the log and on disk
                let t0 = std::time::Instant::now();
                while tokio::runtime::Handle::current().metrics().num_alive_tasks() > 0 && t0.elapsed() < std::time::Duration::from_secs(2) {
                    tokio::time::sleep(std::time::Duration::from_millis(1)).await;
                }
            }
            tokio::time::sleep(std::time::Duration::from_millis(2)).await;
            out
        })
    }));
    // give blocking-pool work of spawned cleanup tasks a moment, then drop the runtime
    let _ = std::panic::catch_unwind(AssertUnwindSafe(|| rt.block_on(async { tokio::time::sleep(std::time::Duration::from_millis(3)).await })));
    drop(rt);
    r.map_err(panic_text)
}

pub fn transport_for(archive_dir: &Path, ic: &Arc<Icept>) -> Transport {
    Transport::local(archive_dir).with_interceptor(ic.clone())
}

fn finish(ic: &Arc<Icept>, monitor: &Arc<TestMonitor>, changes: &Arc<Mutex<Vec<String>>>, result: String, lines: Vec<String>) -> RunResult {
    let mut events: Vec<String> = Vec::new();
    // the model interleaves errors and changes in program order; the real side collects them
    // separately, so events are compared as two ordered sub-sequences (see compare.rs)
    for e in monitor.take_errors() {
        events.push(format!("event error {}", err_text(&e)));
    }
    events.extend(changes.lock().unwrap().drain(..));
    let listings: Vec<(String, Vec<String>)> = ic.log().iter().filter_map(|r| if let Outcome::Listing(es) = &r.outcome { Some((r.path.clone(), es.iter().map(|e| e.name.clone()).collect())) } else { None }).collect();
    LAST_LISTINGS.with(|l| *l.borrow_mut() = listings);
    RunResult { trace: ic.log().iter().map(op_text).collect(), events, result, lines, steps: ic.steps(), dead: ic.dead(), injected: ic.injected() }
}

pub struct BackupParams {
    pub max_entries_per_hunk: usize,
    pub max_block_size: usize,
    pub small_file_cap: u64,
    pub owner: bool,
    pub exclude: Vec<String>,
}

impl Default for BackupParams {
    fn default() -> Self {
        BackupParams { max_entries_per_hunk: 1000, max_block_size: 1 << 20, small_file_cap: 1 << 16, owner: true, exclude: vec![] }
    }
}

impl BackupParams {
    pub fn model_args(&self) -> String {
        format!("{} {} {} {}", self.max_entries_per_hunk, self.max_block_size, self.small_file_cap, if self.owner { 1 } else { 0 })
    }
}

fn change_text(c: &EntryChange) -> String {
    use conserve::change::Change;
    let k = match c.change {
        Change::Added { .. } => "added",
        Change::Changed { .. } => "changed",
        Change::Unchanged { .. } => "unchanged",
        Change::Deleted { .. } => "deleted",
    };
    format!("event change {} {}", hex::encode(c.apath.as_bytes()), k)
}

thread_local! {
    /// Called with the apath of every change event of a backup running on this thread: lets a scenario alter
    /// the SOURCE while it is being backed up (a file shrinking, growing or vanishing between the listing of
    /// its directory and its own read).
    static CHANGE_HOOK: std::cell::RefCell<Option<Box<dyn Fn(&str)>>> = const { std::cell::RefCell::new(None) };
}

/// Run `f` with `hook` installed as the change hook of backups started from this thread.
pub fn with_change_hook<R>(hook: Box<dyn Fn(&str)>, f: impl FnOnce() -> R) -> R {
    CHANGE_HOOK.with(|h| *h.borrow_mut() = Some(hook));
    let r = f();
    CHANGE_HOOK.with(|h| *h.borrow_mut() = None);
    r
}

pub fn real_backup(archive_dir: &Path, source: &Path, p: &BackupParams, cfg: IceptConfig) -> RunResult {
    let ic = Icept::new(cfg);
    let monitor = TestMonitor::arc();
    let changes: Arc<Mutex<Vec<String>>> = Arc::new(Mutex::new(Vec::new()));
    let ch2 = changes.clone();
    let r = block_on_catch(|| {
        let ic = ic.clone();
        let monitor = monitor.clone();
        async move {
            let archive = Archive::open(transport_for(archive_dir, &ic)).await?;
            let options = BackupOptions {
                exclude: Exclude::from_strings(&p.exclude)?,
                max_entries_per_hunk: p.max_entries_per_hunk,
                max_block_size: p.max_block_size,
                small_file_cap: p.small_file_cap,
                owner: p.owner,
                change_callback: Some(Box::new(move |c: &EntryChange| {
                    ch2.lock().unwrap().push(change_text(c));
                    CHANGE_HOOK.with(|h| {
                        if let Some(hook) = h.borrow().as_ref() {
                            hook(&c.apath.to_string());
                        }
                    });
                    Ok(())
                })),
            };
            backup(&archive, source, &options, monitor).await
        }
    });
    let result = match r {
        Ok(Ok(stats)) => format!("result ok {}", stats_text(&stats)),
        Ok(Err(e)) => format!("result err {}", err_text(&e)),
        Err(p) => format!("result panic {p}"),
    };
    finish(&ic, &monitor, &changes, result, vec![])
}

pub fn real_delete(archive_dir: &Path, bands: &[u32], dry_run: bool, break_lock: bool, cfg: IceptConfig) -> RunResult {
    let ic = Icept::new(cfg);
    let monitor = TestMonitor::arc();
    let r = block_on_catch(|| {
        let ic = ic.clone();
        let monitor = monitor.clone();
        async move {
            let archive = Archive::open(transport_for(archive_dir, &ic)).await?;
            let ids: Vec<BandId> = bands.iter().map(|b| BandId::from(*b)).collect();
            archive.delete_bands(&ids, &DeleteOptions { dry_run, break_lock }, monitor).await
        }
    });
    let result = match r {
        Ok(Ok(stats)) => format!("result ok {}", delete_stats_text(&stats)),
        Ok(Err(e)) => format!("result err {}", err_text(&e)),
        Err(p) => format!("result panic {p}"),
    };
    finish(&ic, &monitor, &Arc::new(Mutex::new(vec![])), result, vec![])
}

pub fn real_validate(archive_dir: &Path, quick: bool, cfg: IceptConfig) -> RunResult {
    let ic = Icept::new(cfg);
    let monitor = TestMonitor::arc();
    let r = block_on_catch(|| {
        let ic = ic.clone();
        let monitor = monitor.clone();
        async move {
            let archive = Archive::open(transport_for(archive_dir, &ic)).await?;
            archive.validate(&ValidateOptions { skip_block_hashes: quick }, monitor).await
        }
    });
    let result = match r {
        Ok(Ok(())) => "result ok ".to_string(),
        Ok(Err(e)) => format!("result err {}", err_text(&e)),
        Err(p) => format!("result panic {p}"),
    };
    finish(&ic, &monitor, &Arc::new(Mutex::new(vec![])), result, vec![])
}

#[derive(Clone, Debug)]
pub enum Sel {
    Closed,
    Latest,
    Band(u32),
}

impl Sel {
    pub fn policy(&self) -> BandSelectionPolicy {
        match self {
            Sel::Closed => BandSelectionPolicy::LatestClosed,
            Sel::Latest => BandSelectionPolicy::Latest,
            Sel::Band(b) => BandSelectionPolicy::Specified(BandId::from(*b)),
        }
    }
    pub fn text(&self) -> String {
        match self {
            Sel::Closed => "closed".into(),
            Sel::Latest => "latest".into(),
            Sel::Band(b) => band_name(*b),
        }
    }
}

fn index_entry_text(e: &IndexEntry) -> String {
    // through JSON and the independent decoder's struct, so the text form has one definition
    let v = serde_json::to_value(e).expect("entry to json");
    let h: absarch::HEntry = serde_json::from_value(v).expect("entry json shape");
    absarch::entry_text(&h)
}

/// `Archive::iter_entries(sel, subtree, exclude)` collected.
pub fn real_list(archive_dir: &Path, sel: &Sel, subtree: &str, exclude: &[String], cfg: IceptConfig) -> RunResult {
    let ic = Icept::new(cfg);
    let monitor = TestMonitor::arc();
    let r = block_on_catch(|| {
        let ic = ic.clone();
        let monitor = monitor.clone();
        async move {
            let archive = Archive::open(transport_for(archive_dir, &ic)).await?;
            let mut stitch = archive.iter_entries(sel.policy(), Apath::from(subtree), Exclude::from_strings(exclude)?, monitor).await?;
            let mut out = Vec::new();
            while let Some(e) = stitch.next().await {
                out.push(format!("entry {}", index_entry_text(&e)));
            }
            Ok::<_, Error>(out)
        }
    });
    let (result, lines) = match r {
        Ok(Ok(lines)) => ("result ok ".to_string(), lines),
        Ok(Err(e)) => (format!("result err {}", err_text(&e)), vec![]),
        Err(p) => (format!("result panic {p}"), vec![]),
    };
    finish(&ic, &monitor, &Arc::new(Mutex::new(vec![])), result, lines)
}

pub struct RestoreParams {
    pub sel: Sel,
    pub subtree: Option<String>,
    pub exclude: Vec<String>,
    pub overwrite: bool,
}

pub fn real_restore(archive_dir: &Path, dest: &Path, p: &RestoreParams, cfg: IceptConfig) -> RunResult {
    let ic = Icept::new(cfg);
    let monitor = TestMonitor::arc();
    let r = block_on_catch(|| {
        let ic = ic.clone();
        let monitor = monitor.clone();
        async move {
            let archive = Archive::open(transport_for(archive_dir, &ic)).await?;
            let options = RestoreOptions {
                exclude: Exclude::from_strings(&p.exclude)?,
                only_subtree: p.subtree.as_ref().map(|s| Apath::from(s.as_str())),
                overwrite: p.overwrite,
                band_selection: p.sel.policy(),
                change_callback: None,
                inject_failures: Default::default(),
            };
            restore(&archive, dest, options, monitor).await
        }
    });
    let result = match r {
        Ok(Ok(())) => "result ok ".to_string(),
        Ok(Err(e)) => format!("result err {}", err_text(&e)),
        Err(p) => format!("result panic {p}"),
    };
    finish(&ic, &monitor, &Arc::new(Mutex::new(vec![])), result, vec![])
}

/// Create an empty archive (not intercepted).
pub fn create_archive(archive_dir: &Path) {
    block_on_catch(|| async move { Archive::create_path(archive_dir).await.expect("create archive") }).expect("create archive");
}
