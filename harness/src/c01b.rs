//! C01 (b): a file's mtime survives backup and restore, for every representable value.
//!
//! Three sub-checks, all against the REAL code:
//!  1. whole pipeline: set a file's mtime to `t` ns, `conserve::backup` (under `catch_unwind`),
//!     read the stored `(mtime, mtime_nanos)` from the index, `conserve::restore`, lstat;
//!     compared with the model (`mtime-enc`, `mtime-rt`) and with the original (oracle).
//!  2. `IndexEntry::mtime()` (public through `EntryTrait`) on hand-made entries, against
//!     `index-mtime` — covers both `unwrap`s of the read side.
//!  3. the read side alone on chosen stored pairs (floor seconds + positive nanos for a
//!     pre-epoch fractional time, which `to_file_time` mishandled before commit 6ea0861): the
//!     index hunk of a real archive is rewritten on disk, then `restore`; against `index-rt`.
use crate::model::run_model_1;
use crate::report::Report;
use crate::rng::Rng;
use conserve::monitor::test::TestMonitor;
use conserve::{
    Apath, Archive, BackupOptions, BandSelectionPolicy, EntryTrait, Exclude, IndexEntry, Kind, Owner, RestoreOptions,
    UnixMode,
};
use filetime::FileTime;
use serde_json::json;
use std::os::unix::fs::MetadataExt;
use std::path::Path;
use std::sync::Mutex;

const NS: i128 = 1_000_000_000;

static LAST_PANIC: Mutex<Option<String>> = Mutex::new(None);

/// Run `f` catching a panic; returns Err("file:line") of the panic location.
pub fn catch<T>(f: impl FnOnce() -> T + std::panic::UnwindSafe) -> Result<T, String> {
    let prev = std::panic::take_hook();
    std::panic::set_hook(Box::new(|info| {
        let loc = info.location().map(|l| format!("{}:{}", l.file(), l.line())).unwrap_or_default();
        *LAST_PANIC.lock().unwrap() = Some(loc);
    }));
    let r = std::panic::catch_unwind(f);
    std::panic::set_hook(prev);
    r.map_err(|_| LAST_PANIC.lock().unwrap().take().unwrap_or_default())
}

fn block_on<T>(fut: impl std::future::Future<Output = T>) -> T {
    tokio::runtime::Builder::new_current_thread().enable_all().build().unwrap().block_on(fut)
}

fn split_floor(t: i128) -> (i64, u32) {
    (t.div_euclid(NS) as i64, t.rem_euclid(NS) as u32)
}

fn lstat_ns(p: &Path) -> i128 {
    let m = std::fs::symlink_metadata(p).unwrap();
    m.mtime() as i128 * NS + m.mtime_nsec() as i128
}

/// Does the model's panic site (`index/entry.rs:146:…`) name the location the code panicked at
/// (`/repo/src/index/entry.rs:146`)?
fn same_site(model_site: &str, loc: &str) -> bool {
    let mut it = model_site.splitn(3, ':');
    let (file, line) = (it.next().unwrap_or(""), it.next().unwrap_or(""));
    loc.ends_with(&format!("src/{file}:{line}"))
}

struct PipelineResult {
    /// Err(location) if the backup panicked; Ok(stored (mtime, mtime_nanos))
    encoded: Result<(i64, u32), String>,
    /// lstat of the restored file, restore errors
    restored: Option<(i128, Vec<String>)>,
}

fn pipeline(t_src: i128, src: &Path) -> PipelineResult {
    let arch_dir = tempfile::tempdir().unwrap();
    let dest_dir = tempfile::tempdir().unwrap();
    let apath = arch_dir.path().join("a");
    let src2 = src.to_path_buf();
    let ap2 = apath.clone();
    let r = catch(move || {
        block_on(async {
            let archive = Archive::create_path(&ap2).await.unwrap();
            let monitor = TestMonitor::arc();
            let stats = conserve::backup(&archive, &src2, &BackupOptions::default(), monitor.clone()).await.unwrap();
            assert_eq!(stats.errors, 0);
            let st = archive.open_stored_tree(BandSelectionPolicy::Latest).await.unwrap();
            let mut it = st.iter_entries(Apath::root(), Exclude::nothing(), monitor.clone());
            let mut found = None;
            while let Some(e) = it.next().await {
                if e.apath == "/f" {
                    found = Some((e.mtime, e.mtime_nanos));
                }
            }
            found.expect("/f in index")
        })
    });
    let _ = t_src;
    match r {
        Err(loc) => PipelineResult { encoded: Err(loc), restored: None },
        Ok(pair) => {
            let dest = dest_dir.path().join("d");
            let errors = block_on(async {
                let archive = Archive::open_path(&apath).await.unwrap();
                let monitor = TestMonitor::arc();
                let r = conserve::restore(&archive, &dest, RestoreOptions::default(), monitor.clone()).await;
                let mut errs: Vec<String> = monitor.take_errors().iter().map(|e| format!("{e:?}")).collect();
                if let Err(e) = r {
                    errs.push(format!("{e:?}"));
                }
                errs
            });
            let ns = lstat_ns(&dest.join("f"));
            PipelineResult { encoded: Ok(pair), restored: Some((ns, errors)) }
        }
    }
}

pub fn run(tier: &str, seed: u64, report: &mut Report) {
    let thorough = tier == "thorough";
    let mut rng = Rng::new(seed ^ 0xC01B);
    // CV_C01B_PRE=1: the harness is linked against conserve as it was before commit 6ea0861
    // (a scratch checkout); compare with the `…Pre` model instead (replay of `mtime_refuted_pre`).
    let pre = std::env::var("CV_C01B_PRE").map(|v| v == "1").unwrap_or(false);
    let sfx = if pre { "-pre" } else { "" };
    if pre {
        report.notes.push("CV_C01B_PRE=1: compared with the model of the code before commit 6ea0861".into());
    }

    // ---------- 1. whole pipeline
    let mut times: Vec<i128> = vec![
        0,
        1,
        -1,
        NS,
        -NS,
        3 * NS / 2,
        -3 * NS / 2,
        -NS / 2,
        -NS - 1,
        NS + 1,
        (1i128 << 31) * NS,
        1_700_000_000_000_000_123,
        -2 * NS,
        -999_999_999,
        -(1i128 << 31) * NS,       // ext4 lower limit (1901)
        -(1i128 << 31) * NS + 1,
        -86_400 * NS + 250_000_000,
    ];
    let n_rand = if thorough { 300 } else { 40 };
    for i in 0..n_rand {
        // ext4 keeps 1901-12-13 .. 2446-05-10; stay inside so the file system does not clamp
        let sec = match i % 3 {
            0 => rng.range(-(1i64 << 31), -1),
            1 => rng.range(0, 15_000_000_000),
            _ => rng.range(-100_000, 100_000),
        } as i128;
        let nanos = match rng.below(4) {
            0 => 0,
            1 => rng.range(1, 999) as i128,
            _ => rng.range(0, 999_999_999) as i128,
        };
        times.push(sec * NS + nanos);
    }
    // the model's answers
    let mut reqs = Vec::new();
    for t in &times {
        reqs.push(format!("mtime-enc{sfx} {t}"));
        reqs.push(format!("mtime-rt{sfx} {t}"));
        reqs.push(format!("mtime-rt-pre {t}"));
    }
    let ans = run_model_1(&reqs);
    for (i, &t) in times.iter().enumerate() {
        let (m_enc, m_rt, m_rt_pre) = (&ans[3 * i], &ans[3 * i + 1], &ans[3 * i + 2]);
        let src_dir = tempfile::tempdir().unwrap();
        let f = src_dir.path().join("f");
        std::fs::write(&f, b"x").unwrap();
        let (s, n) = split_floor(t);
        filetime::set_file_mtime(&f, FileTime::from_unix_time(s, n)).unwrap();
        let t_fs = lstat_ns(&f);
        if t_fs != t {
            // the file system clamped or rounded: not a case about conserve
            report.hit("pipeline:fs-did-not-keep-time");
            continue;
        }
        let frac_neg = t < 0 && t.rem_euclid(NS) != 0;
        let case = json!({"op":"mtime-pipeline","t_ns": t.to_string()});
        report.case(&format!("pipeline {t}"), true);
        report.hit(if frac_neg { "pipeline:pre-epoch-fraction" } else if t < 0 { "pipeline:pre-epoch-whole" } else { "pipeline:non-negative" });
        let r = pipeline(t, src_dir.path());
        // for the record: what the model of the code before commit 6ea0861 says
        if m_rt_pre.starts_with("panic") {
            report.hit("pipeline:panicked-before-repair(model)");
        }
        match &r.encoded {
            Err(loc) => {
                report.hit("pipeline:backup-panicked");
                let ok = m_enc.strip_prefix("panic ").map(|site| same_site(site, loc)).unwrap_or(false);
                if !ok {
                    report.disagree("mtime-enc", case.clone(), json!(format!("panic at {loc}")), json!(m_enc));
                }
                report.oracle_fail(
                    if frac_neg { "mtime-pre-epoch-fraction" } else { "mtime" },
                    case.clone(),
                    "backup panicked instead of storing the file's mtime",
                    json!({"panic_at": loc}),
                );
            }
            Ok((sec, nanos)) => {
                let i_enc = format!("ok {sec} {nanos}");
                if i_enc != *m_enc {
                    report.disagree("mtime-enc", case.clone(), json!(i_enc), json!(m_enc));
                }
                let (ns, errs) = r.restored.clone().unwrap();
                let (rs, rn) = split_floor(ns);
                let i_rt = format!("ok {rs} {rn}");
                if !errs.is_empty() || i_rt != *m_rt {
                    report.disagree("mtime-rt", case.clone(), json!({"restored": i_rt, "errors": errs}), json!(m_rt));
                }
                if ns != t {
                    report.oracle_fail(
                        if frac_neg { "mtime-pre-epoch-fraction" } else { "mtime" },
                        case.clone(),
                        "restored mtime differs from the source's",
                        json!({"restored_ns": ns.to_string(), "errors": errs}),
                    );
                }
                report.traces_validated += 1;
            }
        }
        if i < 3 {
            report.sample(json!({"op":"mtime-pipeline","t_ns":t.to_string(),"model_enc":m_enc,"model_rt":m_rt,
                "impl_enc": format!("{:?}", r.encoded), "impl_restored": r.restored.as_ref().map(|x| x.0.to_string())}));
        }
    }

    // ---------- 2. IndexEntry::mtime() directly
    let secs: Vec<i64> = {
        let mut v = vec![
            -377705023202, -377705023201, -377705023200, 253402207199, 253402207200, 253402207201,
            -2, -1, 0, 1, 2, 1_700_000_000, i64::MIN, i64::MAX,
        ];
        for _ in 0..(if thorough { 200 } else { 30 }) {
            v.push(rng.range(-400_000_000_000, 300_000_000_000));
        }
        v
    };
    let nanos_list: Vec<u32> = {
        let mut v = vec![0, 1, 500_000_000, 999_999_999, 1_000_000_000, 2_147_483_647, 2_147_483_648, u32::MAX];
        for _ in 0..(if thorough { 12 } else { 4 }) {
            v.push(rng.range(0, 999_999_999) as u32);
        }
        v
    };
    let mut pairs = Vec::new();
    for s in &secs {
        for n in &nanos_list {
            pairs.push((*s, *n));
        }
    }
    let reqs: Vec<String> = pairs.iter().map(|(s, n)| format!("index-mtime {s} {n}")).collect();
    let ans = run_model_1(&reqs);
    for ((s, n), m) in pairs.iter().zip(ans.iter()) {
        let e = IndexEntry {
            apath: Apath::from("/f"),
            kind: Kind::File,
            mtime: *s,
            unix_mode: UnixMode::from(0o644),
            owner: Owner::default(),
            mtime_nanos: *n,
            addrs: vec![],
            target: None,
        };
        let r = catch(move || e.mtime().as_nanosecond());
        let i = match &r {
            Ok(ns) => format!("ok {ns}"),
            Err(loc) => format!("panic at {loc}"),
        };
        let agree = match &r {
            Ok(ns) => *m == format!("ok {ns}"),
            Err(loc) => m.strip_prefix("panic ").map(|site| same_site(site, loc)).unwrap_or(false),
        };
        report.case(&format!("index-mtime {s} {n}"), true);
        report.hit(if r.is_ok() { "index-mtime:ok" } else { "index-mtime:panic" });
        if !agree {
            report.disagree("index-mtime", json!({"op":"IndexEntry::mtime","mtime":s,"mtime_nanos":n}), json!(i), json!(m));
        }
        // read-side oracle: a pair with nanos < 10^9 and seconds in range denotes s*10^9+n
        if let Ok(ns) = r {
            if ns != *s as i128 * NS + *n as i128 {
                report.oracle_fail("index-mtime-value", json!({"mtime":s,"mtime_nanos":n}), "IndexEntry::mtime() is not mtime*10^9+nanos", json!(ns.to_string()));
            }
        }
    }

    // ---------- 3. restore of a stored pair with floor seconds (pre-epoch, fractional)
    let stored: Vec<(i64, u32)> = vec![(-2, 500_000_000), (-1, 999_999_999), (-1, 1), (-86_400, 250_000_000), (-2, 0), (5, 7)];
    let mut reqs = Vec::new();
    for (s, n) in &stored {
        reqs.push(format!("index-rt{sfx} {s} {n}"));
        reqs.push(format!("index-rt-pre {s} {n}"));
    }
    let ans = run_model_1(&reqs);
    for (k, (s, n)) in stored.iter().enumerate() {
        let (m_rt, m_pre) = (&ans[2 * k], &ans[2 * k + 1]);
        let t = *s as i128 * NS + *n as i128;
        let case = json!({"op":"restore-stored-pair","mtime":s,"mtime_nanos":n});
        report.case(&format!("index-rt {s} {n}"), true);
        let (restored_ns, errs) = restore_rewritten(*s, *n);
        // model: what is handed to utimensat; accepted iff tv_nsec < 10^9
        let toks: Vec<&str> = m_rt.split(' ').collect();
        let (m_sec, m_nsec): (i128, i128) = (toks[1].parse().unwrap(), toks[2].parse().unwrap());
        let model_accepts = m_nsec < NS;
        let impl_set = errs.is_empty();
        if model_accepts != impl_set || (impl_set && restored_ns != m_sec * NS + m_nsec) {
            report.disagree("index-rt", case.clone(), json!({"restored_ns": restored_ns.to_string(), "errors": errs}), json!(m_rt));
        }
        if m_pre != m_rt {
            report.hit("index-rt:differs-from-before-repair(model)");
        }
        report.hit(if impl_set { "index-rt:time-set" } else { "index-rt:restore-error" });
        if restored_ns != t || !errs.is_empty() {
            report.oracle_fail(
                "mtime-pre-epoch-fraction-read-side",
                case,
                "an index entry denoting a pre-epoch fractional time is not restored to that time",
                json!({"restored_ns": restored_ns.to_string(), "errors": errs}),
            );
        }
    }
    report.notes.push("pipeline cases whose time the file system did not keep exactly are skipped (ext4 range 1901..2446); times outside jiff's range (|year| > 9999) cannot be set on this file system and are covered by the model only (panic site source.rs)".into());
}

/// Back up one empty-ish file, rewrite its stored (mtime, mtime_nanos) in the index hunk on
/// disk, restore; returns (lstat ns of the restored file, errors reported).
fn restore_rewritten(sec: i64, nanos: u32) -> (i128, Vec<String>) {
    let src_dir = tempfile::tempdir().unwrap();
    std::fs::write(src_dir.path().join("f"), b"x").unwrap();
    let arch_dir = tempfile::tempdir().unwrap();
    let dest_dir = tempfile::tempdir().unwrap();
    let apath = arch_dir.path().join("a");
    block_on(async {
        let archive = Archive::create_path(&apath).await.unwrap();
        conserve::backup(&archive, src_dir.path(), &BackupOptions::default(), TestMonitor::arc()).await.unwrap();
    });
    let hunk = apath.join("b0000").join("i").join("00000").join("000000000");
    let raw = std::fs::read(&hunk).unwrap();
    let json_bytes = snap::raw::Decoder::new().decompress_vec(&raw).unwrap();
    let mut v: serde_json::Value = serde_json::from_slice(&json_bytes).unwrap();
    for e in v.as_array_mut().unwrap() {
        if e["apath"] == "/f" {
            e["mtime"] = json!(sec);
            e["mtime_nanos"] = json!(nanos);
        }
    }
    let out = snap::raw::Encoder::new().compress_vec(&serde_json::to_vec(&v).unwrap()).unwrap();
    std::fs::write(&hunk, out).unwrap();
    let dest = dest_dir.path().join("d");
    let errs = block_on(async {
        let archive = Archive::open_path(&apath).await.unwrap();
        let monitor = TestMonitor::arc();
        let r = conserve::restore(&archive, &dest, RestoreOptions::default(), monitor.clone()).await;
        let mut errs: Vec<String> = monitor.take_errors().iter().map(|e| format!("{e:?}")).collect();
        if let Err(e) = r {
            errs.push(format!("{e:?}"));
        }
        errs
    });
    (lstat_ns(&dest.join("f")), errs)
}
