//! BLAKE: the Lean model of unkeyed BLAKE2b-512 (`Conserve.blake2bHex`, request `blake2b b:<hex>`) against
//! `blake2_rfc::blake2b::blake2b(64, &[], data)`, which is what `conserve::BlockHash::hash_bytes` calls,
//! and against `BlockHash`'s `Display` (the block file name).
use crate::model::run_model_1;
use crate::report::Report;
use crate::rng::Rng;
use blake2_rfc::blake2b::blake2b;
use conserve::BlockHash;
use serde_json::json;

/// RFC 7693 appendix A ("abc") and the well-known digest of the empty message.
const KNOWN: &[(&[u8], &str)] = &[
    (b"", "786a02f742015903c6c6fd852552d272912f4740e15847618a86e217f71f5419d25e1031afee585313896444934eb04b903a685b1448b755d56f701afe9be2ce"),
    (b"abc", "ba80a53f981c4d0d6a2797b69f12f6e94c212f14685ac4b74b12bb6fdbffa2d17d87c5392aab792dc252d5de4533cc9518d38aa8dbf1925ab92386edd4009923"),
];

fn random_bytes(rng: &mut Rng, len: usize) -> Vec<u8> {
    let mut v = Vec::with_capacity(len + 8);
    while v.len() < len {
        v.extend_from_slice(&rng.next_u64().to_le_bytes());
    }
    v.truncate(len);
    v
}

fn describe(data: &[u8]) -> serde_json::Value {
    if data.len() <= 64 {
        json!({"len": data.len(), "hex": hex::encode(data)})
    } else {
        json!({"len": data.len(), "head": hex::encode(&data[..32]), "tail": hex::encode(&data[data.len() - 32..])})
    }
}

pub fn run(tier: &str, seed: u64, report: &mut Report) {
    let mut rng = Rng::new(seed ^ 0xb1a6e2b);
    let thorough = tier == "thorough";
    let mut cases: Vec<(String, Vec<u8>)> = Vec::new();
    for (m, _) in KNOWN {
        cases.push(("known".into(), m.to_vec()));
    }
    // every length around the first two block boundaries, random contents
    for len in 0..=300usize {
        cases.push(("len0-300:random".into(), random_bytes(&mut rng, len)));
    }
    // constant contents at the boundary lengths (padding bytes vs. real zero bytes, high bits)
    for len in [0usize, 1, 63, 64, 65, 127, 128, 129, 255, 256, 257, 383, 384, 385] {
        for fill in [0u8, 0xff, 0x80] {
            if len > 0 {
                cases.push(("boundary:constant".into(), vec![fill; len]));
            }
        }
    }
    let mut big = vec![127usize, 128, 129, 255, 256, 257, 1000, 4096, 65536];
    if thorough {
        big.extend_from_slice(&[65535, 65537, (1 << 20) - 1, 1 << 20, (1 << 20) + 1]);
        for _ in 0..200 {
            big.push(rng.below(20000));
        }
        for k in 1..=40usize {
            big.push(128 * k);
        }
    }
    for len in big {
        let kind = if len >= 65536 { "large:random" } else { "mid:random" };
        cases.push((kind.into(), random_bytes(&mut rng, len)));
    }

    let reqs: Vec<String> = cases.iter().map(|(_, d)| format!("blake2b b:{}", hex::encode(d))).collect();
    let ans = run_model_1(&reqs);
    for ((kind, data), m) in cases.iter().zip(ans.iter()) {
        let direct = hex::encode(blake2b(64, &[], data).as_bytes());
        let via_conserve = BlockHash::hash_bytes(data).to_string();
        report.case(&format!("blake2b {}", hex::encode(data)), !data.is_empty());
        report.hit(kind);
        report.hit(match data.len() {
            0 => "len:0",
            n if n % 128 == 0 => "len:multiple-of-128",
            n if n < 128 => "len:under-one-block",
            _ => "len:other",
        });
        if direct != *m {
            report.disagree("blake2b", describe(data), json!(direct), json!(m));
        }
        if via_conserve != *m {
            report.disagree("blake2b-blockhash-display", describe(data), json!(via_conserve), json!(m));
        }
    }
    // the implementation against published vectors (independent of the model)
    for (msg, want) in KNOWN {
        let got = BlockHash::hash_bytes(msg).to_string();
        if got != *want {
            report.oracle_fail("blake2b-known-vector", describe(msg), "BlockHash::hash_bytes differs from the published digest", json!(got));
        }
    }
    let k = 200.min(cases.len() - 1);
    report.sample(json!({"op": "blake2b", "case": describe(&cases[k].1), "answer": ans[k]}));
    report.sample(json!({"op": "blake2b", "case": describe(&cases[0].1), "answer": ans[0]}));
    report.sample(json!({"op": "blake2b", "case": describe(&cases[cases.len() - 1].1), "answer": ans[cases.len() - 1]}));
}
