//! Two actors on one archive, advanced one storage operation at a time under a schedule.
//! Each actor runs on its own thread with its own current-thread runtime and its own
//! intercepted Transport; the interceptor parks the actor before every operation.
use crate::icept::{Gate, Icept, IceptConfig};
use crate::real::*;
use conserve::monitor::test::TestMonitor;
use conserve::*;
use std::path::{Path, PathBuf};
use std::sync::{Arc, Mutex};
use std::time::Duration;

#[derive(Clone, Debug)]
pub enum ActorSpec {
    Backup { params: BackupParamsOwned, source: PathBuf, slot: usize },
    Delete { bands: Vec<u32>, dry_run: bool },
    /// `delete_bands` / gc with `break_lock: true` (real code only: the model's schedules have no such actor)
    DeleteBreakLock { bands: Vec<u32> },
}

#[derive(Clone, Debug)]
pub struct BackupParamsOwned {
    pub hunk: usize,
    pub block: usize,
    pub cap: u64,
}

impl ActorSpec {
    pub fn model_token(&self, strict: u32) -> String {
        match self {
            ActorSpec::Backup { params, slot, .. } => format!("backup:{}:{}:{}:{}", params.hunk, params.block, params.cap, slot),
            ActorSpec::DeleteBreakLock { .. } => "unsupported".to_string(),
            ActorSpec::Delete { bands, dry_run } => format!(
                "delete:{}:{}:{}",
                if *dry_run { 1 } else { 0 },
                strict,
                if bands.is_empty() { "-".to_string() } else { bands.iter().map(|b| band_name(*b)).collect::<Vec<_>>().join(",") }
            ),
        }
    }
}

pub struct ActorResult {
    pub run: RunResult,
}

struct Handle {
    gate: Arc<Gate>,
    ic: Arc<Icept>,
    done: Arc<Mutex<Option<(String, Vec<String>)>>>,
    thread: Option<std::thread::JoinHandle<()>>,
}

fn spawn_actor(archive_dir: &Path, spec: &ActorSpec, faults: Vec<crate::icept::FaultSpec>) -> Handle {
    let gate = Arc::new(Gate::default());
    let ic = Icept::with_gate(IceptConfig { faults, ..Default::default() }, gate.clone());
    let done: Arc<Mutex<Option<(String, Vec<String>)>>> = Arc::new(Mutex::new(None));
    let (ic2, done2, gate2) = (ic.clone(), done.clone(), gate.clone());
    let archive_dir = archive_dir.to_path_buf();
    let spec = spec.clone();
    let thread = std::thread::spawn(move || {
        let monitor = TestMonitor::arc();
        let changes: Arc<Mutex<Vec<String>>> = Arc::new(Mutex::new(Vec::new()));
        let ch2 = changes.clone();
        let mon2 = monitor.clone();
        let r = block_on_catch(|| {
            let ic = ic2.clone();
            async move {
                let archive = Archive::open(transport_for(&archive_dir, &ic)).await?;
                match &spec {
                    ActorSpec::Backup { params, source, .. } => {
                        let options = BackupOptions {
                            max_entries_per_hunk: params.hunk,
                            max_block_size: params.block,
                            small_file_cap: params.cap,
                            change_callback: Some(Box::new(move |c: &EntryChange| {
                                ch2.lock().unwrap().push(format!("event change {} {}", hex::encode(c.apath.as_bytes()), change_kind(c)));
                                Ok(())
                            })),
                            ..Default::default()
                        };
                        backup(&archive, source, &options, mon2).await.map(|s| stats_text(&s))
                    }
                    ActorSpec::Delete { bands, dry_run } => {
                        let ids: Vec<BandId> = bands.iter().map(|b| BandId::from(*b)).collect();
                        archive.delete_bands(&ids, &DeleteOptions { dry_run: *dry_run, break_lock: false }, mon2).await.map(|s| delete_stats_text(&s))
                    }
                    ActorSpec::DeleteBreakLock { bands } => {
                        let ids: Vec<BandId> = bands.iter().map(|b| BandId::from(*b)).collect();
                        archive.delete_bands(&ids, &DeleteOptions { dry_run: false, break_lock: true }, mon2).await.map(|s| delete_stats_text(&s))
                    }
                }
            }
        });
        let result = match r {
            Ok(Ok(s)) => format!("result ok {s}"),
            Ok(Err(e)) => format!("result err {}", err_text(&e)),
            Err(p) => format!("result panic {p}"),
        };
        let mut events: Vec<String> = monitor.take_errors().iter().map(|e| format!("event error {}", err_text(e))).collect();
        events.extend(changes.lock().unwrap().drain(..));
        *done2.lock().unwrap() = Some((result, events));
        // wake the scheduler
        let _g = gate2.inner.lock().unwrap();
        gate2.cv.notify_all();
    });
    Handle { gate, ic, done, thread: Some(thread) }
}

fn change_kind(c: &EntryChange) -> &'static str {
    use conserve::change::Change;
    match c.change {
        Change::Added { .. } => "added",
        Change::Changed { .. } => "changed",
        Change::Unchanged { .. } => "unchanged",
        Change::Deleted { .. } => "deleted",
    }
}

impl Handle {
    fn is_done(&self) -> bool {
        self.done.lock().unwrap().is_some()
    }
    /// Wait until the actor is parked before an operation, or finished.
    fn wait_parked_or_done(&self) -> bool {
        let mut gs = self.gate.inner.lock().unwrap();
        loop {
            if self.is_done() {
                return false;
            }
            if gs.waiting.is_some() && gs.credits == 0 {
                return true;
            }
            let (g, _) = self.gate.cv.wait_timeout(gs, Duration::from_millis(20)).unwrap();
            gs = g;
        }
    }
    /// Let the actor perform exactly one operation (it must be parked).
    fn grant_one(&self) {
        let mut gs = self.gate.inner.lock().unwrap();
        gs.credits += 1;
        gs.waiting = None;
        self.gate.cv.notify_all();
        drop(gs);
        // wait until the credit has been consumed (the op started) …
        loop {
            let gs = self.gate.inner.lock().unwrap();
            if gs.credits == 0 || self.is_done() {
                break;
            }
            drop(gs);
            std::thread::yield_now();
        }
    }
    fn finish(mut self) -> RunResult {
        // run to completion
        loop {
            if !self.wait_parked_or_done() {
                break;
            }
            self.grant_one();
        }
        if let Some(t) = self.thread.take() {
            let _ = t.join();
        }
        let (result, events) = self.done.lock().unwrap().clone().unwrap();
        RunResult { trace: self.ic.log().iter().map(op_text).collect(), events, result, lines: vec![], steps: self.ic.steps(), dead: false, injected: vec![] }
    }
}

/// Run two actors under a schedule (false = A moves, true = B moves; turns of a finished actor
/// are skipped); afterwards A runs to completion, then B.
pub fn run_schedule(archive_dir: &Path, a: &ActorSpec, b: &ActorSpec, schedule: &[bool]) -> (RunResult, RunResult) {
    run_schedule_with_faults(archive_dir, a, b, schedule, vec![], vec![])
}

/// The same with storage faults injected into either actor's own transport (the other actor does not see them).
pub fn run_schedule_with_faults(archive_dir: &Path, a: &ActorSpec, b: &ActorSpec, schedule: &[bool], faults_a: Vec<crate::icept::FaultSpec>, faults_b: Vec<crate::icept::FaultSpec>) -> (RunResult, RunResult) {
    let ha = spawn_actor(archive_dir, a, faults_a);
    let hb = spawn_actor(archive_dir, b, faults_b);
    // both park before their first operation
    ha.wait_parked_or_done();
    hb.wait_parked_or_done();
    for turn in schedule {
        let h = if *turn { &hb } else { &ha };
        if h.wait_parked_or_done() {
            h.grant_one();
            // the operation completes before anyone else moves: wait until parked again or done
            h.wait_parked_or_done();
        }
    }
    let ra = ha.finish();
    let rb = hb.finish();
    (ra, rb)
}
