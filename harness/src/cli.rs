//! The command-line layer (src/bin/conserve.rs): option parsing and the mapping of options to library calls are
//! glue that no theorem covers and that the in-process harness bypasses.  For a few generated cases per property
//! the `conserve` BINARY built from /repo is run and its observable results are compared with what the library
//! (driven in-process, the way every other check does) produces on the same input.  Real code on both sides;
//! the oracle is "the command does what the library call it stands for does".
use crate::absarch::abstract_archive;
use crate::hist::{copy_dir, restore_observe};
use crate::icept::IceptConfig;
use crate::real::*;
use crate::report::Report;
use crate::rng::Rng;
use crate::treespec::*;
use serde_json::json;
use std::path::{Path, PathBuf};

fn bin() -> Option<PathBuf> {
    std::env::var("CONSERVE_BIN").ok().map(PathBuf::from).filter(|p| p.exists())
}

fn cli(args: &[&str]) -> (i32, String, String) {
    let out = std::process::Command::new(bin().unwrap()).args(args).env("RUST_LOG", "off").output().expect("run conserve");
    (out.status.code().unwrap_or(-1), String::from_utf8_lossy(&out.stdout).to_string(), String::from_utf8_lossy(&out.stderr).to_string())
}

fn s(p: &Path) -> &str {
    p.to_str().unwrap()
}

/// conserve's default options, as the CLI uses them
fn defaults(exclude: Vec<String>) -> BackupParams {
    BackupParams { max_entries_per_hunk: 100_000, max_block_size: 20 << 20, small_file_cap: 1 << 20, owner: true, exclude }
}

struct Setup {
    work: tempfile::TempDir,
    src: PathBuf,
    tree: Tree,
}

fn setup(rng: &mut Rng) -> Setup {
    let work = tempfile::tempdir().unwrap();
    let src = work.path().join("src");
    let go = GenOpts { max_nodes: 14, block: 16, cap: 8, max_depth: 3, ..Default::default() };
    let tree = gen_tree(rng, &go);
    tree.materialize(&src);
    Setup { work, src, tree }
}

fn paths_of_listing(lines: &[String]) -> Vec<String> {
    lines.iter().filter_map(|l| l.strip_prefix("entry ").and_then(|x| x.split(',').next()).and_then(|h| hex::decode(h).ok()).map(|b| String::from_utf8_lossy(&b).to_string())).collect()
}


/// What the README promises of `--exclude-from`: "one per line, ignoring leading and trailing whitespace, and
/// skipping comment lines that start with a `#`" (blank lines hold no pattern).  Written here independently of
/// src/excludes.rs.
fn spec_patterns_of_file(text: &str) -> Vec<String> {
    text.lines().map(|l| l.trim_matches(|c: char| c.is_whitespace())).filter(|l| !l.is_empty() && !l.starts_with('#')).map(|l| l.to_string()).collect()
}

/// Exclude FILES: generated file contents (patterns with '#' inside, rooted patterns whose name also exists deeper,
/// padded patterns, comments, indented comments, blank and whitespace-only lines), split over one to three `-E`
/// files (the last one possibly without any pattern) and combined with `-e`.  `backup`, `ls`, `diff` and `restore`
/// with those options must do what the library does with the pattern list the README's rule yields.
fn exclude_file_probe(prop: &str, rounds: usize, rng: &mut Rng, report: &mut Report) {
    const PATTERN_LINES: &[&str] = &[".#*", "report#*", "/cache", "*.o", "  *.o  ", "\t/data/report.txt", "/keep?.txt", "Track #??.wav", "main.*", "/src/main.c", "data/cache"];
    const OTHER_LINES: &[&str] = &["", "   ", "\t", " \t ", "# a comment", "   # an indented comment", "#", "#*.txt", "  #/keep1.txt"];
    // an exclude file with a line that is not valid UTF-8 (a Latin-1 comment from an old editor) followed by more
    // patterns: the command may refuse the file; if it accepts it, every pattern it could read must be honoured —
    // never the patterns before the bad line only
    {
        let work = tempfile::tempdir().unwrap();
        let w = work.path();
        let src = w.join("src");
        std::fs::create_dir_all(src.join("secret")).unwrap();
        for (f, c) in [("keep.txt", "k"), ("old.bak", "b"), ("secret/key", "s")] {
            std::fs::write(src.join(f), c).unwrap();
        }
        let exf = w.join("latin1.txt");
        std::fs::write(&exf, b"*.bak\n# caf\xe9 : un commentaire en Latin-1\n/secret\n").unwrap();
        let a = w.join("a");
        let _ = cli(&["init", s(&a)]);
        let (rc, _, _) = cli(&["backup", s(&a), s(&src), "--no-stats", "-E", s(&exf)]);
        report.case(&format!("cli-exclude-file/{prop}/not-utf8"), true);
        report.hit("cli:exclude-file-not-utf8");
        if rc == 0 {
            let stored = paths_of_listing(&real_list(&a, &Sel::Latest, "/", &[], IceptConfig::default()).lines);
            if stored.iter().any(|p| p == "/secret" || p == "/secret/key" || p == "/old.bak") {
                report.oracle_fail("cli:exclude-file-partly-read", json!({"cli": prop, "exclude_file": "*.bak / <a comment line that is not UTF-8> / /secret"}), "`conserve backup -E file` accepted a file it could not read completely and silently dropped the patterns after the unreadable line", json!({"stored": stored}));
            }
        }
    }
    for round in 0..rounds {
        let work = tempfile::tempdir().unwrap();
        let w = work.path();
        let src = w.join("src");
        for d in ["report", "cache", "data/cache", "src"] {
            std::fs::create_dir_all(src.join(d)).unwrap();
        }
        for (f, c) in [(".#notes.txt", "lock"), ("report#draft", "d"), ("report/q1.txt", "q1"), ("cache/x", "x"), ("data/cache/y", "y"), ("data/report.txt", "r"), ("junk.o", "o"), ("src/main.o", "mo"), ("src/main.c", "mc"), ("keep1.txt", "k"), ("Track #01.wav", "w")] {
            std::fs::write(src.join(f), c).unwrap();
        }
        // file contents
        let n_files = 1 + rng.below(3);
        let mut files: Vec<String> = Vec::new();
        for i in 0..n_files {
            let last = i + 1 == n_files;
            let mut text = String::new();
            let n_lines = 1 + rng.below(6);
            for _ in 0..n_lines {
                // the last file of several is, half of the time, free of patterns (a template still commented out)
                let only_other = last && n_files > 1 && round % 2 == 0;
                let line = if only_other || rng.chance(2, 5) { OTHER_LINES[rng.below(OTHER_LINES.len())] } else { PATTERN_LINES[rng.below(PATTERN_LINES.len())] };
                text.push_str(line);
                text.push('\n');
            }
            if round % 4 == 3 && i == 0 {
                text = " \n\t\n# nothing but blanks and comments\n   # here\n".to_string();
            }
            files.push(text);
        }
        let e_pats: Vec<String> = if rng.chance(1, 2) { vec!["*.wav".to_string()] } else { vec![] };
        let mut want: Vec<String> = e_pats.clone();
        let mut opt: Vec<String> = Vec::new();
        for p in &e_pats {
            opt.extend(["-e".to_string(), p.clone()]);
        }
        for (i, t) in files.iter().enumerate() {
            let f = w.join(format!("exclude-{i}.txt"));
            std::fs::write(&f, t).unwrap();
            opt.extend([if i % 2 == 0 { "-E".to_string() } else { "--exclude-from".to_string() }, s(&f).to_string()]);
            want.extend(spec_patterns_of_file(t));
        }
        let case = json!({"cli": prop, "exclude_files": files, "-e": e_pats, "patterns_by_the_documented_rule": want});
        report.case(&format!("cli-exclude-file/{prop}/{round}/{files:?}/{e_pats:?}"), !want.is_empty());
        report.hit("cli:exclude-file-probe");
        report.hit(&format!("cli:exclude-files={n_files}"));
        let opt: Vec<&str> = opt.iter().map(|x| x.as_str()).collect();
        // backup with the options == library backup with the pattern list
        let (a_cli, a_lib, a_all) = (w.join("a-cli"), w.join("a-lib"), w.join("a-all"));
        let _ = cli(&["init", s(&a_cli)]);
        let _ = cli(&["init", s(&a_all)]);
        let (rc, _, e) = cli(&[&["backup", s(&a_cli), s(&src), "--no-stats"][..], &opt[..]].concat());
        let (rc_all, _, _) = cli(&["backup", s(&a_all), s(&src), "--no-stats"]);
        create_archive(&a_lib);
        let lb = real_backup(&a_lib, &src, &defaults(want.clone()), IceptConfig::default());
        if rc != 0 || rc_all != 0 || !lb.result.starts_with("result ok") {
            report.oracle_fail("cli:backup-failed", case.clone(), "`conserve backup` with exclude files failed", json!({"rc": rc, "stderr": e.chars().take(300).collect::<String>(), "library": crate::compare::trunc(&lb.result)}));
            continue;
        }
        let listed = |a: &Path| -> Vec<String> { paths_of_listing(&real_list(a, &Sel::Latest, "/", &[], IceptConfig::default()).lines) };
        let (got, exp) = (listed(&a_cli), listed(&a_lib));
        if got != exp {
            report.oracle_fail("cli:exclude-file-backup-differs", case.clone(), "`conserve backup -E file…` stored other entries than a backup with the patterns the documented rule reads from the files", json!({"stored": got, "expected": exp}));
        }
        // the whole source restores from it, minus what the patterns match (C01's reading)
        let dest = w.join("dest");
        let (rc, _, _) = cli(&["restore", s(&a_cli), s(&dest), "--no-stats"]);
        let restored: Vec<String> = if dest.exists() { observe(&dest).into_iter().map(|o| o.apath).collect() } else { vec![] };
        let mut exp_sorted = exp.clone();
        exp_sorted.sort();
        if rc != 0 || restored != exp_sorted {
            report.oracle_fail("cli:exclude-file-restore-differs", case.clone(), "restoring the version made with exclude files does not give the source minus the excluded entries", json!({"rc": rc, "restored": restored, "expected": exp}));
        }
        // ls / restore / diff of a FULL backup with the same options
        let (rc, out, _) = cli(&[&["ls", s(&a_all)][..], &opt[..]].concat());
        let got: Vec<String> = out.lines().map(|l| l.to_string()).collect();
        if rc != 0 || got != exp {
            report.oracle_fail("cli:exclude-file-ls-differs", case.clone(), "`conserve ls -E file…` of a full backup lists other entries than the documented rule gives", json!({"listed": got, "expected": exp}));
        }
        let dest2 = w.join("dest2");
        let (rc, _, _) = cli(&[&["restore", s(&a_all), s(&dest2), "--no-stats"][..], &opt[..]].concat());
        let restored: Vec<String> = if dest2.exists() { observe(&dest2).into_iter().map(|o| o.apath).collect() } else { vec![] };
        if rc != 0 || restored != exp_sorted {
            report.oracle_fail("cli:exclude-file-restore-differs", case.clone(), "`conserve restore -E file…` of a full backup restores other entries than the documented rule gives", json!({"rc": rc, "restored": restored, "expected": exp}));
        }
        std::fs::write(src.join("keep1.txt"), "changed and longer").unwrap();
        std::fs::write(src.join("fresh.o"), "o").unwrap();
        std::fs::write(src.join("fresh.txt"), "t").unwrap();
        for inc in [false, true] {
            let mut a = vec!["diff", s(&a_cli), s(&src)];
            if inc {
                a.push("--include-unchanged");
            }
            let (rc, out, _) = cli(&[&a[..], &opt[..]].concat());
            let mut got: Vec<String> = out.lines().map(|l| l.to_string()).collect();
            got.sort();
            let mut exp = crate::c18::library_diff_lines(&a_lib, &src, inc, &want);
            exp.sort();
            if rc != 0 || got != exp {
                report.oracle_fail("cli:exclude-file-diff-differs", case.clone(), "`conserve diff -E file…` reports other changes than the library diff with the patterns the documented rule gives", json!({"include_unchanged": inc, "printed": got, "expected": exp}));
            }
        }
    }
}

pub fn run(prop: &str, tier: &str, seed: u64, report: &mut Report) {
    if bin().is_none() {
        report.hit("cli:binary-not-available");
        report.notes.push("CONSERVE_BIN not set or missing: the command-line layer was not exercised".into());
        return;
    }
    let mut rng = Rng::new(seed ^ 0xC11);
    let thorough = tier == "thorough";
    if matches!(prop, "C01" | "C02" | "C15" | "C18") {
        exclude_file_probe(prop, if thorough { 24 } else { 4 }, &mut rng, report);
    }
    for round in 0..(if thorough { 12 } else { 3 }) {
        let st = setup(&mut rng);
        let w = st.work.path();
        let (a_cli, a_lib) = (w.join("a-cli"), w.join("a-lib"));
        let case = json!({"cli": prop, "round": round, "tree": st.tree.nodes.keys().collect::<Vec<_>>()});
        report.case(&format!("cli/{prop}/{round}/{}", st.tree.nodes.len()), true);
        report.hit(&format!("cli:{prop}"));
        if prop == "C12" {
            // a directory whose NAME holds a backslash (an ordinary character on Unix) next to a/b
            for d in ["cli-bs/a/b", "cli-bs/a\\b/sub"] {
                std::fs::create_dir_all(st.src.join(d)).unwrap();
            }
            for f in ["cli-bs/a/b/plain", "cli-bs/a\\b/inner", "cli-bs/a\\b/sub/deep"] {
                std::fs::write(st.src.join(f), f).unwrap();
            }
        }
        // exclusions for the properties that are about them
        let excl: Vec<String> = if prop == "C15" {
            // something for each pattern to match: "-e" takes the first, the exclude file the other two
            std::fs::write(st.src.join("cli-extra-1.tmp"), b"t").unwrap();
            std::fs::write(st.src.join("cli-extra-2.bak"), b"b").unwrap();
            let mut v = vec!["*.tmp".to_string(), "/cli-extra-2.*".to_string()];
            // plus one top-level name of the generated tree, when it needs no escaping and survives a line-oriented file
            v.extend(st.tree.nodes.values().filter(|n| n.comps.len() == 1 && n.comps[0].chars().all(|c| c.is_ascii_alphanumeric() || c == '.' || c == '-' || c == '_')).take(1).map(|n| format!("/{}", n.comps[0])));
            v
        } else {
            vec![]
        };
        let mut bargs: Vec<String> = vec!["backup".into(), s(&a_cli).into(), s(&st.src).into(), "--no-stats".into()];
        let exfile = w.join("excludes.txt");
        if prop == "C15" {
            // one pattern on the command line, the rest from a file with a comment and a blank line
            bargs.push("-e".into());
            bargs.push(excl[0].clone());
            std::fs::write(&exfile, format!("# comment\n\n{}\n", excl[1..].join("\n"))).unwrap();
            bargs.push("-E".into());
            bargs.push(s(&exfile).into());
        }
        let (rc0, _, e0) = cli(&["init", s(&a_cli)]);
        let (rc1, _, e1) = cli(&bargs.iter().map(|x| x.as_str()).collect::<Vec<_>>());
        create_archive(&a_lib);
        let lb = real_backup(&a_lib, &st.src, &defaults(excl.clone()), IceptConfig::default());
        if rc0 != 0 || rc1 != 0 || !lb.result.starts_with("result ok") {
            report.oracle_fail("cli:backup-failed", case.clone(), "`conserve init` / `conserve backup` failed on a generated tree", json!({"init": rc0, "backup": rc1, "stderr": format!("{e0}{e1}").chars().take(300).collect::<String>(), "library": crate::compare::trunc(&lb.result)}));
            continue;
        }
        let (s_cli, _) = abstract_archive(&a_cli);
        let (s_lib, _) = abstract_archive(&a_lib);
        if s_cli != s_lib {
            let d = s_cli.iter().zip(s_lib.iter()).find(|(a, b)| a != b).map(|(a, b)| json!({"cli": a.chars().take(160).collect::<String>(), "library": b.chars().take(160).collect::<String>()}));
            report.oracle_fail("cli:backup-differs-from-library", case.clone(), "`conserve backup` wrote a different archive than the library call with the default options", json!({"first_difference": d, "files": [s_cli.len(), s_lib.len()]}));
            continue;
        }
        match prop {
            "C01" | "C02" | "C16" => {
                // restore: whole tree into a fresh directory; refuses a non-empty one unless forced
                let dest = w.join("dest");
                let (rc, _, e) = cli(&["restore", s(&a_cli), s(&dest), "--no-stats"]);
                let (_, lobs) = restore_observe(&a_lib, w, &Sel::Latest, "clilib");
                let cobs = observe(&dest);
                if rc != 0 || crate::c01::tree_diff(&lobs, &cobs).is_some() {
                    report.oracle_fail("cli:restore-differs-from-library", case.clone(), "`conserve restore` does not produce what the library restore produces", json!({"rc": rc, "stderr": e.chars().take(200).collect::<String>(), "diff": crate::c01::tree_diff(&lobs, &cobs)}));
                }
                let busy = w.join("busy");
                std::fs::create_dir(&busy).unwrap();
                std::fs::write(busy.join("precious"), b"keep me").unwrap();
                let (rc2, _, _) = cli(&["restore", s(&a_cli), s(&busy), "--no-stats"]);
                let untouched = std::fs::read(busy.join("precious")).ok().as_deref() == Some(b"keep me".as_slice()) && std::fs::read_dir(&busy).unwrap().count() == 1;
                if rc2 == 0 || !untouched {
                    report.oracle_fail("cli:restore-into-non-empty", case.clone(), "`conserve restore` into a non-empty directory without --force-overwrite must fail and leave it untouched", json!({"rc": rc2, "untouched": untouched}));
                }
                // no other option may switch the refusal off
                let cj_in = busy.join("changes.json");
                let cj_out = w.join("changes-outside.json");
                for extra in [vec!["-v"], vec!["-l"], vec!["--changes-json", s(&cj_out)], vec!["--changes-json", s(&cj_in)], vec!["-e", "nothing-matches-this"], vec!["--only", "/"], vec!["-b", "b0000"]] {
                    let (rc, _, _) = cli(&[&["restore", s(&a_cli), s(&busy), "--no-stats"][..], &extra[..]].concat());
                    let names: Vec<String> = std::fs::read_dir(&busy).unwrap().flatten().map(|e| e.file_name().to_string_lossy().to_string()).filter(|n| n != "changes.json").collect();
                    let untouched = std::fs::read(busy.join("precious")).ok().as_deref() == Some(b"keep me".as_slice()) && names == vec!["precious".to_string()];
                    if rc == 0 || !untouched {
                        report.oracle_fail("cli:restore-into-non-empty", case.clone(), "`conserve restore` into a non-empty directory without --force-overwrite must fail and leave it untouched, whatever other options are given", json!({"options": extra, "rc": rc, "untouched": untouched, "now_there": names}));
                    }
                    // (the command creates the --changes-json file itself before looking at the destination)
                    let _ = std::fs::remove_file(&cj_in);
                }
                let (rc3, _, _) = cli(&["restore", s(&a_cli), s(&busy), "--no-stats", "--force-overwrite"]);
                if rc3 != 0 && !st.tree.nodes.contains_key("/precious") {
                    report.oracle_fail("cli:restore-force-overwrite", case.clone(), "`conserve restore --force-overwrite` into a non-empty directory failed", json!({"rc": rc3}));
                }
                // a second version, then -b selects the first
                std::fs::write(st.src.join("added-later"), b"v2").unwrap();
                let _ = cli(&["backup", s(&a_cli), s(&st.src), "--no-stats"]);
                let old = w.join("old");
                let (rc4, _, _) = cli(&["restore", s(&a_cli), s(&old), "-b", "b0000", "--no-stats"]);
                if rc4 != 0 || crate::c01::tree_diff(&lobs, &observe(&old)).is_some() {
                    report.oracle_fail("cli:restore-b-selects-wrong-version", case.clone(), "`conserve restore -b b0000` does not restore the first version", json!({"rc": rc4}));
                }
                let (_, vout, _) = cli(&["versions", s(&a_cli), "--short"]);
                if vout.lines().map(|l| l.trim()).collect::<Vec<_>>() != vec!["b0000", "b0001"] {
                    report.oracle_fail("cli:versions", case.clone(), "`conserve versions --short` does not list the two versions", json!(vout));
                }
            }
            "C12" | "C15" | "C08" => {
                // ls (with the exclusions) and restore --only / with exclusions.  For the exclusions to have
                // something to exclude, these read a second archive that was written WITHOUT them.
                let (a_cli, a_lib) = if prop == "C15" {
                    let a2 = w.join("a-all");
                    let _ = cli(&["init", s(&a2)]);
                    let (rc, _, _) = cli(&["backup", s(&a2), s(&st.src), "--no-stats"]);
                    if rc != 0 {
                        report.oracle_fail("cli:backup-failed", case.clone(), "`conserve backup` failed on a generated tree", json!({"backup": rc}));
                        continue;
                    }
                    (a2.clone(), a2)
                } else {
                    (a_cli.clone(), a_lib.clone())
                };
                let mut largs: Vec<String> = vec!["ls".into(), s(&a_cli).into()];
                if prop == "C15" {
                    largs.extend(["-e".into(), excl[0].clone(), "-E".into(), s(&exfile).into()]);
                }
                let (rc, out, _) = cli(&largs.iter().map(|x| x.as_str()).collect::<Vec<_>>());
                let lib = real_list(&a_lib, &Sel::Latest, "/", &excl, IceptConfig::default());
                let want = paths_of_listing(&lib.lines);
                let got: Vec<String> = out.lines().map(|l| l.to_string()).collect();
                if rc != 0 || got != want {
                    report.oracle_fail("cli:ls-differs-from-library", case.clone(), "`conserve ls` does not list what the library listing yields", json!({"rc": rc, "cli": got.len(), "library": want.len(), "first_cli": got.iter().take(4).collect::<Vec<_>>(), "first_library": want.iter().take(4).collect::<Vec<_>>()}));
                }
                if prop != "C15" {
                    // a second version; `ls -b b0000` still lists the first, `ls` the second
                    std::fs::write(st.src.join("zz-added-later"), b"v2").unwrap();
                    let _ = cli(&["backup", s(&a_cli), s(&st.src), "--no-stats"]);
                    let (rc, out0, _) = cli(&["ls", s(&a_cli), "-b", "b0000"]);
                    let (rc1, out1, _) = cli(&["ls", s(&a_cli)]);
                    let l0: Vec<String> = out0.lines().map(|l| l.to_string()).collect();
                    let mut l1: Vec<String> = out1.lines().map(|l| l.to_string()).collect();
                    let had = l1.iter().any(|l| l == "/zz-added-later");
                    l1.retain(|l| l != "/zz-added-later");
                    if rc != 0 || rc1 != 0 || l0 != want || l1 != want || !had {
                        report.oracle_fail("cli:ls-b-selects-wrong-version", case.clone(), "`conserve ls -b b0000` / `conserve ls` do not list the first / the newest version", json!({"rc": [rc, rc1], "b0000": l0.len(), "latest": l1.len(), "expected": want.len(), "latest_has_new_file": had}));
                    }
                }
                if prop == "C15" {
                    let ex_args = ["-e", excl[0].as_str(), "-E", s(&exfile)];
                    // whole-tree restore with the exclusions
                    let dest = w.join("excl");
                    let (rc, _, _) = cli(&[&["restore", s(&a_cli), s(&dest), "--no-stats"][..], &ex_args[..]].concat());
                    let ldest = w.join("excl-lib");
                    let _ = real_restore(&a_lib, &ldest, &RestoreParams { sel: Sel::Latest, subtree: None, exclude: excl.clone(), overwrite: false }, IceptConfig::default());
                    let (c, l) = (if dest.exists() { observe(&dest) } else { vec![] }, if ldest.exists() { observe(&ldest) } else { vec![] });
                    if rc != 0 || c.iter().map(|o| &o.apath).collect::<Vec<_>>() != l.iter().map(|o| &o.apath).collect::<Vec<_>>() {
                        report.oracle_fail("cli:restore-exclusions-differ-from-library", case.clone(), "`conserve restore -e .. -E ..` does not restore what the library restore with the same patterns restores", json!({"rc": rc, "cli": c.len(), "library": l.len()}));
                    }
                    // diff with the exclusions
                    let (rc, out, _) = cli(&[&["diff", s(&a_cli), s(&st.src), "--include-unchanged"][..], &ex_args[..]].concat());
                    let mut got: Vec<String> = out.lines().map(|l| l.to_string()).collect();
                    got.sort();
                    let mut want = crate::c18::library_diff_lines(&a_lib, &st.src, true, &excl);
                    want.sort();
                    if rc != 0 || got != want {
                        report.oracle_fail("cli:diff-exclusions-differ-from-library", case.clone(), "`conserve diff -e .. -E ..` does not print what the library diff with the same patterns reports", json!({"rc": rc, "cli": got.len(), "library": want.len()}));
                    }
                }
                let mut subs: Vec<String> = st.tree.nodes.iter().filter(|(k, n)| *k != "/" && n.kind == NodeKind::Dir).map(|(k, _)| k.clone()).take(2).collect();
                if prop == "C12" {
                    subs.extend(["/cli-bs/a\\b".to_string(), "/cli-bs/a\\b/sub".to_string(), "/cli-bs/a/b".to_string(), "/cli-bs/a".to_string()]);
                }
                for (i, sub) in subs.into_iter().enumerate() {
                    let dest = w.join(format!("only{i}"));
                    let mut rargs: Vec<String> = vec!["restore".into(), s(&a_cli).into(), s(&dest).into(), (if i % 2 == 0 { "--only" } else { "-i" }).into(), sub.clone(), "--no-stats".into()];
                    if prop == "C15" {
                        rargs.extend(["-e".into(), excl[0].clone(), "-E".into(), s(&exfile).into()]);
                    }
                    let (rc, _, _) = cli(&rargs.iter().map(|x| x.as_str()).collect::<Vec<_>>());
                    let ldest = w.join(format!("only-lib{i}"));
                    let lr = real_restore(&a_lib, &ldest, &RestoreParams { sel: Sel::Latest, subtree: Some(sub.clone()), exclude: excl.clone(), overwrite: false }, IceptConfig::default());
                    let (c, l) = (if dest.exists() { observe(&dest) } else { vec![] }, if ldest.exists() { observe(&ldest) } else { vec![] });
                    let same_paths = c.iter().map(|o| &o.apath).collect::<Vec<_>>() == l.iter().map(|o| &o.apath).collect::<Vec<_>>();
                    if !same_paths || (rc == 0) != lr.result.starts_with("result ok") {
                        report.oracle_fail("cli:restore-only-differs-from-library", case.clone(), "`conserve restore --only` (with the exclusions) does not restore what the library call restores", json!({"subtree": sub, "rc": rc, "cli": c.len(), "library": l.len()}));
                    }
                }
            }
            "C05" | "C07" | "C06" => {
                // two more versions, then delete / gc: same archive as the library calls on a copy
                for i in 0..2 {
                    std::fs::write(st.src.join(format!("later{i}")), format!("content {i}")).unwrap();
                    let _ = cli(&["backup", s(&a_cli), s(&st.src), "--no-stats"]);
                }
                let copy = w.join("copy");
                copy_dir(&a_cli, &copy);
                let before = abstract_archive(&a_cli).0;
                let (rc, _, _) = cli(&["delete", s(&a_cli), "-b", "b0000,b0001", "--dry-run", "--no-stats"]);
                if rc != 0 || abstract_archive(&a_cli).0 != before {
                    report.oracle_fail("cli:delete-dry-run-changed-something", case.clone(), "`conserve delete --dry-run` failed or changed the archive", json!({"rc": rc}));
                }
                let (rc, _, e) = cli(&["delete", s(&a_cli), "-b", "b0000,b0001", "--no-stats"]);
                let _ = real_delete(&copy, &[0, 1], false, false, IceptConfig::default());
                if rc != 0 || abstract_archive(&a_cli).0 != abstract_archive(&copy).0 {
                    report.oracle_fail("cli:delete-differs-from-library", case.clone(), "`conserve delete -b b0000,b0001` leaves a different archive than the library call", json!({"rc": rc, "stderr": e.chars().take(200).collect::<String>()}));
                }
                let (rc, _, _) = cli(&["gc", s(&a_cli), "--no-stats"]);
                let _ = real_delete(&copy, &[], false, false, IceptConfig::default());
                if rc != 0 || abstract_archive(&a_cli).0 != abstract_archive(&copy).0 {
                    report.oracle_fail("cli:gc-differs-from-library", case.clone(), "`conserve gc` leaves a different archive than the library call", json!({"rc": rc}));
                }
                if prop == "C06" || prop == "C05" {
                    // a garbage-collection lock left in the archive: backup, delete and gc — dry runs too — must
                    // refuse (exit non-zero, nothing changes, the lock stays); --break-lock lets gc go ahead and
                    // removes the lock
                    std::fs::write(a_cli.join("GC_LOCK"), b"{}\n").unwrap();
                    let before = abstract_archive(&a_cli).0;
                    for args in [vec!["delete", s(&a_cli), "-b", "b0002", "--no-stats", "--dry-run"], vec!["gc", s(&a_cli), "--no-stats", "--dry-run"], vec!["backup", s(&a_cli), s(&st.src), "--no-stats"], vec!["delete", s(&a_cli), "-b", "b0002", "--no-stats"], vec!["gc", s(&a_cli), "--no-stats"]] {
                        let (rc, _, _) = cli(&args);
                        let after = abstract_archive(&a_cli).0;
                        if rc == 0 || after != before || !a_cli.join("GC_LOCK").is_file() {
                            report.oracle_fail("cli:ran-under-gc-lock", case.clone(), "a command that must respect the garbage-collection lock went ahead (or reported success) while the lock was held", json!({"command": args[..1].iter().chain(args.iter().filter(|a| a.starts_with("--d"))).collect::<Vec<_>>(), "rc": rc, "archive_changed": after != before, "lock_still_there": a_cli.join("GC_LOCK").is_file()}));
                        }
                    }
                    let (rc, _, _) = cli(&["gc", s(&a_cli), "--no-stats", "--break-lock"]);
                    if rc != 0 || a_cli.join("GC_LOCK").exists() {
                        report.oracle_fail("cli:break-lock", case.clone(), "`conserve gc --break-lock` failed or left the lock behind", json!({"rc": rc}));
                    }
                }
                let (_, lobs) = restore_observe(&copy, w, &Sel::Latest, "clilib2");
                let dest = w.join("after");
                let (rc, _, _) = cli(&["restore", s(&a_cli), s(&dest), "--no-stats"]);
                if rc != 0 || crate::c01::tree_diff(&lobs, &observe(&dest)).is_some() {
                    report.oracle_fail("cli:restore-after-delete", case.clone(), "after `conserve delete` and `gc` the remaining version does not restore", json!({"rc": rc}));
                }
            }
            "C09" | "C10" => {
                for q in [false, true] {
                    let mut a = vec!["validate", s(&a_cli), "--no-stats"];
                    if q {
                        a.push("--quick");
                    }
                    let (rc, _, e) = cli(&a);
                    if rc != 0 {
                        report.oracle_fail("cli:validate-false-alarm", case.clone(), "`conserve validate` does not exit 0 on a healthy archive", json!({"quick": q, "rc": rc, "stderr": e.chars().take(200).collect::<String>()}));
                    }
                }
                // remove a referenced block: both modes must exit non-zero
                let blocks: Vec<PathBuf> = std::fs::read_dir(a_cli.join("d")).into_iter().flatten().flatten().flat_map(|d| std::fs::read_dir(d.path()).into_iter().flatten().flatten().map(|f| f.path()).collect::<Vec<_>>()).collect();
                if let Some(b) = blocks.last() {
                    // damaged content: the full validation (no --quick) must notice
                    let orig = std::fs::read(b).unwrap();
                    let mut bad = orig.clone();
                    let n = bad.len();
                    bad[n - 1] ^= 0x55;
                    std::fs::write(b, &bad).unwrap();
                    let (rc, _, _) = cli(&["validate", s(&a_cli), "--no-stats"]);
                    if rc == 0 {
                        report.oracle_fail("cli:validate-silent-exit-code", case.clone(), "`conserve validate` (full) exits 0 although a block's content is damaged", json!({"block": b.file_name().unwrap().to_str()}));
                    }
                    // the same with a garbage-collection lock left behind by a killed gc (validate does not lock)
                    std::fs::write(a_cli.join("GC_LOCK"), b"{}\n").unwrap();
                    let (rc, _, _) = cli(&["validate", s(&a_cli), "--no-stats"]);
                    if rc == 0 {
                        report.oracle_fail("cli:validate-silent-exit-code", case.clone(), "`conserve validate` (full) exits 0 although a block's content is damaged (a stale GC_LOCK is present)", json!({"block": b.file_name().unwrap().to_str()}));
                    }
                    std::fs::remove_file(a_cli.join("GC_LOCK")).unwrap();
                    let _ = cli(&["validate", s(&a_cli), "--no-stats", "--quick", "-D"]);
                    std::fs::write(b, &orig).unwrap();
                }
                if let Some(b) = blocks.first() {
                    std::fs::remove_file(b).unwrap();
                    for q in [false, true] {
                        let mut a = vec!["validate", s(&a_cli), "--no-stats"];
                        if q {
                            a.push("--quick");
                        }
                        let (rc, _, _) = cli(&a);
                        if rc == 0 {
                            report.oracle_fail("cli:validate-silent-exit-code", case.clone(), "`conserve validate` exits 0 although a referenced block is missing", json!({"quick": q}));
                        }
                    }
                }
            }
            "C18" => {
                let keys: Vec<String> = st.tree.nodes.iter().filter(|(k, n)| *k != "/" && matches!(n.kind, NodeKind::File(_))).map(|(k, _)| k.clone()).collect();
                if let Some(k) = keys.first() {
                    std::fs::write(st.src.join(&k[1..]), b"changed content, other size").unwrap();
                }
                std::fs::write(st.src.join("brand-new"), b"n").unwrap();
                for inc in [false, true] {
                    let mut a = vec!["diff", s(&a_cli), s(&st.src)];
                    if inc {
                        a.push("--include-unchanged");
                    }
                    let (rc, out, _) = cli(&a);
                    let mut got: Vec<String> = out.lines().map(|l| l.to_string()).collect();
                    got.sort();
                    let mut want: Vec<String> = crate::c18::library_diff_lines(&a_lib, &st.src, inc, &[]);
                    want.sort();
                    if rc != 0 || got != want {
                        report.oracle_fail("cli:diff-differs-from-library", case.clone(), "`conserve diff` does not print what the library diff reports", json!({"include_unchanged": inc, "rc": rc, "cli": got.iter().take(6).collect::<Vec<_>>(), "library": want.iter().take(6).collect::<Vec<_>>()}));
                    }
                }
            }
            _ => {}
        }
    }
}
