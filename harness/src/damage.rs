//! C09 / C10: damage to stored files.  One archive file at a time is deleted, truncated,
//! overwritten with garbage or bit-flipped; then every read operation and a new backup run.
use crate::absarch::abstract_archive;
use crate::compare::*;
use crate::hist::*;
use crate::icept::IceptConfig;
use crate::real::*;
use crate::report::Report;
use crate::rng::Rng;
use crate::sweep::*;
use crate::treespec::*;
use serde_json::{Value, json};
use std::collections::{BTreeMap, BTreeSet};
use std::path::Path;

#[derive(Clone, Debug, PartialEq)]
pub enum Damage {
    Delete,
    Truncate0,
    TruncateHalf,
    Garbage(u64),
    BitFlip(usize, u8),
}

impl Damage {
    pub fn text(&self) -> String {
        match self {
            Damage::Delete => "delete".into(),
            Damage::Truncate0 => "truncate-0".into(),
            Damage::TruncateHalf => "truncate-half".into(),
            Damage::Garbage(s) => format!("garbage({s})"),
            Damage::BitFlip(p, b) => format!("bitflip(byte {p}, bit {b})"),
        }
    }
    pub fn class(&self) -> &'static str {
        match self {
            Damage::Delete => "delete",
            Damage::Truncate0 => "truncate-0",
            Damage::TruncateHalf => "truncate-half",
            Damage::Garbage(_) => "garbage",
            Damage::BitFlip(..) => "bitflip",
        }
    }
    pub fn apply(&self, path: &Path) {
        match self {
            Damage::Delete => std::fs::remove_file(path).unwrap(),
            Damage::Truncate0 => std::fs::write(path, b"").unwrap(),
            Damage::TruncateHalf => {
                let b = std::fs::read(path).unwrap();
                std::fs::write(path, &b[..b.len() / 2]).unwrap();
            }
            Damage::Garbage(seed) => {
                let n = std::fs::read(path).unwrap().len().max(1);
                let mut r = Rng::new(*seed);
                let g: Vec<u8> = (0..n).map(|_| r.below(256) as u8).collect();
                std::fs::write(path, g).unwrap();
            }
            Damage::BitFlip(p, bit) => {
                let mut b = std::fs::read(path).unwrap();
                if !b.is_empty() {
                    let i = p % b.len();
                    b[i] ^= 1 << (bit % 8);
                }
                std::fs::write(path, b).unwrap();
            }
        }
    }
}

pub fn file_class(rel: &str) -> &'static str {
    if rel == "CONSERVE" {
        "header"
    } else if rel.ends_with("/BANDHEAD") {
        "head"
    } else if rel.ends_with("/BANDTAIL") {
        "tail"
    } else if rel.contains("/i/") {
        "hunk"
    } else if rel.starts_with("d/") {
        "block"
    } else {
        "other"
    }
}

/// Run `f` on another thread; None if it does not finish in time (a hang).
pub fn with_timeout<T: Send + 'static>(secs: u64, f: impl FnOnce() -> T + Send + 'static) -> Option<T> {
    let (tx, rx) = std::sync::mpsc::channel();
    std::thread::spawn(move || {
        let _ = tx.send(f());
    });
    rx.recv_timeout(std::time::Duration::from_secs(secs)).ok()
}

/// "list versions": band ids, and for each whether it opens and is closed.
pub fn real_versions(arch: &Path) -> RunResult {
    use conserve::*;
    let arch = arch.to_path_buf();
    let r = block_on_catch(|| async move {
        let archive = Archive::open_path(&arch).await?;
        let mut out = Vec::new();
        for id in archive.list_band_ids().await? {
            match Band::open(&archive, id).await {
                Ok(b) => match b.get_info().await {
                    Ok(info) => out.push(format!("version {id} {}", if info.is_closed { "closed" } else { "open" })),
                    Err(e) => out.push(format!("version {id} info-error:{}", err_text(&e))),
                },
                Err(e) => out.push(format!("version {id} open-error:{}", err_text(&e))),
            }
        }
        Ok::<_, Error>(out)
    });
    let (result, lines) = match r {
        Ok(Ok(l)) => ("result ok ".to_string(), l),
        Ok(Err(e)) => (format!("result err {}", err_text(&e)), vec![]),
        Err(p) => (format!("result panic {p}"), vec![]),
    };
    RunResult { result, lines, ..Default::default() }
}

pub struct DamageCase {
    pub rel: String,
    pub damage: Damage,
}

pub struct Outcome {
    pub versions: Option<RunResult>,
    pub lists: BTreeMap<u32, Option<RunResult>>,
    pub restores: BTreeMap<u32, Option<(RunResult, Vec<Obs>)>>,
    pub validate_full: Option<RunResult>,
    pub validate_quick: Option<RunResult>,
    pub state: Vec<String>,
}

/// Pick the damage cases for one archive: every file x the four coarse damages, plus bit flips.
pub fn plan(arch: &Path, rng: &mut Rng, flips_per_file: usize, include_header: bool) -> Vec<DamageCase> {
    let mut out = Vec::new();
    for (rel, bytes) in raw_files(arch) {
        let class = file_class(&rel);
        if class == "other" || (class == "header" && !include_header) {
            continue;
        }
        for d in [Damage::Delete, Damage::Truncate0, Damage::TruncateHalf, Damage::Garbage(rng.next_u64())] {
            out.push(DamageCase { rel: rel.clone(), damage: d });
        }
        for _ in 0..flips_per_file {
            if !bytes.is_empty() {
                out.push(DamageCase { rel: rel.clone(), damage: Damage::BitFlip(rng.below(bytes.len()), rng.below(8) as u8) });
            }
        }
        // directed: a flip after which the block STILL DECOMPRESSES, to other bytes of the same length (raw
        // Snappy has no checksum; a flip inside a literal run does this) — searched from the end of the file,
        // so that in a combined block it is the LAST file's bytes that change, not the first one read
        if class == "block" {
            if let Ok(orig) = snap::raw::Decoder::new().decompress_vec(&bytes) {
                'search: for pos in (0..bytes.len()).rev() {
                    for bit in 0..8u8 {
                        let mut b = bytes.clone();
                        b[pos] ^= 1 << bit;
                        if let Ok(d) = snap::raw::Decoder::new().decompress_vec(&b) {
                            if d.len() == orig.len() && d != orig {
                                out.push(DamageCase { rel: rel.clone(), damage: Damage::BitFlip(pos, bit) });
                                break 'search;
                            }
                        }
                    }
                }
            }
        }
    }
    out
}

/// Apply one damage to a copy and run all read operations on it.
pub fn observe_damage(sc: &Scenario, case: &DamageCase) -> (std::path::PathBuf, Outcome) {
    let arch = fresh_copy(sc, "dmg");
    case.damage.apply(&arch.join(&case.rel));
    let (state, _) = abstract_archive(&arch);
    let a = arch.clone();
    let versions = with_timeout(30, move || real_versions(&a));
    let mut lists = BTreeMap::new();
    let mut restores = BTreeMap::new();
    for b in all_bands(&state) {
        let a = arch.clone();
        lists.insert(b, with_timeout(30, move || real_list(&a, &Sel::Band(b), "/", &[], IceptConfig::default())));
        let a = arch.clone();
        let w = sc.run.work.path().to_path_buf();
        restores.insert(b, with_timeout(30, move || restore_observe(&a, &w, &Sel::Band(b), &format!("dmg{b}"))));
    }
    let a = arch.clone();
    let validate_full = with_timeout(30, move || real_validate(&a, false, IceptConfig::default()));
    let a = arch.clone();
    let validate_quick = with_timeout(30, move || real_validate(&a, true, IceptConfig::default()));
    (arch, Outcome { versions, lists, restores, validate_full, validate_quick, state })
}

fn reports_error(r: &RunResult) -> bool {
    !r.result.starts_with("result ok") || r.events.iter().any(|e| e.starts_with("event error"))
}

/// Which (band, apath) file entries are touched by damage to `rel` (from the undamaged state).
pub fn touched_files(pre: &[String], rel: &str) -> BTreeSet<(u32, String)> {
    let st = state_map(pre);
    let mut out = BTreeSet::new();
    for b in all_bands(pre) {
        for (hunk, e) in band_entries(&st, b) {
            let hit = hunk == rel || e.addrs.iter().any(|(h, _, _)| rel.ends_with(h.as_str()));
            if hit {
                out.insert((b, e.apath.clone()));
            }
        }
    }
    out
}

pub fn scenario(seed: u64, report: &mut Report, sig: &'static str) -> (Scenario, Value) {
    let mut rng = Rng::new(seed);
    let go = GenOpts { max_nodes: 9, block: 8, cap: 6, max_depth: 3, ..Default::default() };
    let steps = gen_history(&mut rng, 5, &go, seed % 3 == 0, seed % 2 == 0);
    // end on a completed backup so that there is a newest complete version; make sure it has a combined
    // block shared by several small files (read more than once during one restore)
    let mut steps = steps;
    if let Some(mut t) = steps.iter().rev().find_map(|s| if let Step::SetTree(t) = s { Some(t.clone()) } else { None }) {
        for (i, body) in [b"k1x", b"k2y", b"k3z", b"k4w"].iter().enumerate() {
            let name = format!("k{i}");
            t.nodes.insert(format!("/{name}"), Node { comps: vec![name], kind: NodeKind::File(body.to_vec()), mode: 0o644, mtime_ns: 1_650_000_000_000_000_000 + i as i64, uid: 0, gid: 0 });
        }
        steps.push(Step::SetTree(t));
    }
    steps.push(Step::Backup(BackupParamsLite { hunk: 4, block: 8, cap: 6 }));
    let case_id = json!({"case_seed": seed, "history": history_json(&steps)});
    (build_scenario(&steps, report, &case_id, sig), case_id)
}

/// Like `scenario`, but the newest version is INTERRUPTED after several one-entry hunks (head, no tail).
pub fn scenario_open(seed: u64, report: &mut Report, sig: &'static str) -> (Scenario, Value) {
    let mut rng = Rng::new(seed ^ 0x0BE7);
    let go = GenOpts { max_nodes: 9, block: 8, cap: 6, max_depth: 3, ..Default::default() };
    let mut steps = gen_history(&mut rng, 3, &go, false, false);
    steps.push(Step::Backup(BackupParamsLite { hunk: 3, block: 8, cap: 6 }));
    let last_tree = steps.iter().rev().find_map(|s| if let Step::SetTree(t) = s { Some(t.clone()) } else { None }).unwrap();
    let mut clock = 1_700_000_000_000_000_000;
    let mut t = mutate_tree(&mut rng, &last_tree, &go, &mut clock);
    // every file differs between the complete version and the interrupted one, so that taking an entry
    // from the wrong version (or losing it) always shows in the restored tree
    for n in t.nodes.values_mut() {
        if let NodeKind::File(c) = &mut n.kind {
            c.push(b'!');
            n.mtime_ns += 1_000_000_000;
        }
    }
    // make sure there are enough entries for several hunks
    for i in 0..4 {
        let name = format!("open{i}");
        t.nodes.insert(format!("/{name}"), Node { comps: vec![name], kind: NodeKind::File(vec![b'o', b'0' + i as u8, b'x', b'y', b'z']), mode: 0o644, mtime_ns: clock + i as i64, uid: 0, gid: 0 });
    }
    steps.push(Step::SetTree(t));
    steps.push(Step::BackupCrash(BackupParamsLite { hunk: 2, block: 8, cap: 6 }, 4, 5));
    let case_id = json!({"case_seed": seed, "open_newest": true, "history": history_json(&steps)});
    (build_scenario(&steps, report, &case_id, sig), case_id)
}


/// Directed: a complete version of 13 entries in four hunks (`max_entries_per_hunk` 4), then an interrupted version
/// in which f03 and f05 were rewritten and f04 deleted, killed after about half of its work — so the point where
/// the interrupted version's listing continues in its predecessor lies two or three hunks into the predecessor,
/// with intact hunks between a damaged FIRST hunk and that point.
pub fn scenario_open_directed(report: &mut Report, sig: &'static str) -> (Scenario, Value) {
    let mk = |name: &str, kind: NodeKind, m: i64| Node { comps: if name.is_empty() { vec![] } else { vec![name.to_string()] }, kind: kind.clone(), mode: if matches!(kind, NodeKind::Dir) { 0o755 } else { 0o644 }, mtime_ns: 1_650_000_000_000_000_000 + m, uid: 0, gid: 0 };
    let mut t = Tree::default();
    t.nodes.insert("/".into(), mk("", NodeKind::Dir, 0));
    for i in 0..12 {
        let name = format!("f{i:02}");
        t.nodes.insert(format!("/{name}"), mk(&name, NodeKind::File(format!("first version of {name}").into_bytes()), i));
    }
    let mut t2 = t.clone();
    for name in ["f03", "f05"] {
        t2.nodes.insert(format!("/{name}"), mk(name, NodeKind::File(format!("SECOND version of {name}, longer").into_bytes()), 1_000_000_000));
    }
    t2.nodes.remove("/f04");
    let p = BackupParamsLite { hunk: 4, block: 1 << 20, cap: 0 };
    let steps = vec![Step::SetTree(t), Step::Backup(p.clone()), Step::SetTree(t2), Step::BackupCrash(p, 17, 20)];
    let case_id = json!({"directed": "interrupted version over a four-hunk predecessor", "history": history_json(&steps)});
    let sc = build_scenario(&steps, report, &case_id, sig);
    let own_hunks = sc.pre_state.iter().filter(|l| l.contains(" b0001/i/") && l.contains(" hunk:")).count();
    report.hit(&format!("directed:open-version-own-hunks={own_hunks}"));
    (sc, case_id)
}

/// Directed: the newest version's TAIL write had begun when the backup was killed (the tail file exists, zero
/// length): every entry is recorded, the version counts as complete, but it carries no hunk count.
pub fn scenario_tail_started(report: &mut Report, sig: &'static str) -> (Scenario, Value) {
    let mk = |name: &str, kind: NodeKind, m: i64| Node { comps: if name.is_empty() { vec![] } else { vec![name.to_string()] }, kind: kind.clone(), mode: if matches!(kind, NodeKind::Dir) { 0o755 } else { 0o644 }, mtime_ns: 1_655_000_000_000_000_000 + m, uid: 0, gid: 0 };
    let mut t = Tree::default();
    t.nodes.insert("/".into(), mk("", NodeKind::Dir, 0));
    for (i, name) in ["a", "b", "c", "d", "e", "f", "g"].iter().enumerate() {
        t.nodes.insert(format!("/{name}"), mk(name, NodeKind::File(format!("{name}: content number {i}").into_bytes()), i as i64));
    }
    let mut t2 = t.clone();
    t2.nodes.insert("/d".into(), mk("d", NodeKind::File(b"d: changed for the second version".to_vec()), 1_000_000_000));
    let p = BackupParamsLite { hunk: 3, block: 16, cap: 8 };
    let steps = vec![Step::SetTree(t), Step::Backup(p.clone()), Step::SetTree(t2), Step::BackupCrash(p, 999, 1000)];
    let case_id = json!({"directed": "newest version killed during its tail write (zero-length tail)", "history": history_json(&steps)});
    (build_scenario(&steps, report, &case_id, sig), case_id)
}

/// A version whose tail file exists but is zero-length (the backup was killed between the two micro-steps of
/// its last write) carries no hunk count: like a version without tail, the REMOVAL of its LAST hunk cannot be told
/// from an earlier kill.  (Props/C09 `open_band_trailing_hunk_loss_undetectable`; validate must stay silent on
/// the undamaged archive, which fault-free operations produce.)  An EMPTIED last hunk is another matter when a tail
/// file is there: a zero-length hunk is what a killed hunk write leaves, and no hunk write is in progress once the
/// tail write has begun — `check_index_hunks` takes the band for closed and reports the empty hunk, so that damage
/// is within the promise.  Without any tail file both are indistinguishable from an earlier kill.
fn trailing_hunk_of_countless_version(pre: &BTreeMap<String, String>, b: u32, dc: &DamageCase) -> bool {
    let tail = pre.get(&format!("{}/BANDTAIL", band_name(b)));
    let tail_countless = tail.map(|v| !v.starts_with("tail:")).unwrap_or(true);
    let idx_prefix = format!("{}/i/", band_name(b));
    let last_hunk = pre.keys().filter(|k| k.starts_with(&idx_prefix) && file_class(k) == "hunk").max().cloned();
    let undetectable_damage = if tail.is_some() { matches!(dc.damage, Damage::Delete) } else { matches!(dc.damage, Damage::Delete | Damage::Truncate0) };
    tail_countless && last_hunk.as_deref() == Some(dc.rel.as_str()) && undetectable_damage
}

// ---------------------------------------------------------------- C09

/// Directed: validate on an archive of MORE THAN A HUNDRED versions (real code + oracle): silent when healthy;
/// the block only the OLDEST version needs removed → both validations report, as that version no longer restores.
fn many_versions_validate(report: &mut Report) {
    let n = 112u32;
    let (work, arch, _src, snaps) = crate::sweep::many_versions(n);
    report.case("many-versions-validate", true);
    report.hit("directed:many-versions(112)");
    let case = json!({"directed": "many-versions", "versions": n});
    for quick in [false, true] {
        let v = real_validate(&arch, quick, IceptConfig::default());
        if reports_error(&v) {
            report.oracle_fail("validate:false-alarm-many-versions", case.clone(), "validate reported an error on a healthy archive of 112 versions", json!({"result": trunc(&v.result), "events": v.events.iter().take(3).collect::<Vec<_>>()}));
        }
    }
    // the journal block of b0000: the one address of its /journal entry
    let hunk = arch.join("b0000/i/00000/000000000");
    let Some(h) = std::fs::read(&hunk).ok().and_then(|b| crate::absarch::decode_hunk(&b)).and_then(|es| es.into_iter().find(|e| e.apath == "/journal")).and_then(|e| e.addrs.first().map(|a| a.hash.clone())) else { return };
    let _ = std::fs::remove_file(arch.join("d").join(&h[..3]).join(&h));
    let (rr, robs) = restore_observe(&arch, work.path(), &Sel::Band(0), "mv0");
    let harmed = reports_error(&rr) || crate::c01::tree_diff(&snaps[&0], &robs).is_some();
    for quick in [false, true] {
        let v = real_validate(&arch, quick, IceptConfig::default());
        if harmed && !reports_error(&v) {
            report.oracle_fail(if quick { "validate-quick:silent-on-missing-block-many-versions" } else { "validate:silent-on-block-delete-many-versions" }, case.clone(), "the block only the oldest of 112 versions needs is gone, that version no longer restores, and validation reports nothing", json!({"block": h}));
        }
    }
}

pub fn run_c09(tier: &str, seed: u64, report: &mut Report) {
    let thorough = tier == "thorough";
    many_versions_validate(report);
    big_index_interrupted_lost_boundary_hunk(report);
    // healthy side: every state of generated histories validates silently (full and quick)
    let n_hist = if thorough { 150 } else { 12 };
    for h in 0..n_hist {
        let case_seed = seed.wrapping_mul(87178291199).wrapping_add(h as u64);
        let mut rng = Rng::new(case_seed);
        let go = GenOpts { max_nodes: 12, block: 16, cap: 8, ..Default::default() };
        let steps = gen_history(&mut rng, 10, &go, true, true);
        let case_id = json!({"case_seed": case_seed, "steps": history_json(&steps)});
        let o = HistOpts { restore_each: false, raw: false, sig: "healthy" };
        let run = run_history(&steps, &o, report, &case_id);
        // validate the final state and (by replaying prefixes cheaply) — here: final state only per history,
        // plus each intermediate state via the model comparison below
        let mut session = Session::new();
        let mut pend = Vec::new();
        for quick in [false, true] {
            let v = real_validate(&run.arch, quick, IceptConfig::default());
            let (state, _) = abstract_archive(&run.arch);
            let st = state_map(&state);
            // "interrupted-with-header": a headless newest band is outside the promise
            let headless = all_bands(&state).into_iter().any(|b| !st.get(&format!("{}/BANDHEAD", band_name(b))).map(|v| v.starts_with("head:")).unwrap_or(false));
            let case = json!({"history": case_id, "validate": if quick { "quick" } else { "full" }});
            report.case(&format!("healthy/{case_seed}/{quick}"), true);
            report.hit("healthy-archive-validated");
            if !headless && reports_error(&v) {
                report.oracle_fail("validate:false-alarm", case.clone(), "validate reported an error on an archive produced by fault-free operations", json!({"result": trunc(&v.result), "events": v.events.iter().take(3).collect::<Vec<_>>()}));
            }
            session.load_store(&state);
            let i = session.push(format!("validate {}", if quick { "quick" } else { "full" }));
            pend.push((case, v, i));
        }
        let answers = session.run();
        for (case, v, i) in &pend {
            compare_run(report, "validate", case, v, &parse_answer(&answers[*i]), &CmpOpts { errors_unordered: true, ..Default::default() });
        }
    }
    // damage side
    let n_scen = if thorough { 10 } else { 3 };
    for sidx in 0..n_scen {
        let case_seed = seed.wrapping_mul(479001599).wrapping_add(sidx as u64);
        let (sc, case_id) = if sidx == 2 { report.hit("directed:tail-started-version"); scenario_tail_started(report, "dmg-prefix") } else if sidx % 2 == 1 { scenario_open(case_seed, report, "dmg-prefix") } else { scenario(case_seed, report, "dmg-prefix") };
        let mut rng = Rng::new(case_seed ^ 0xD);
        let cases = plan(&sc.run.arch, &mut rng, if thorough { 6 } else { 2 }, true);
        // ---- a stored file that CANNOT BE READ at the moment (an I/O or permission error from storage, the file
        // itself intact): for validation that is a file it could not check — it must say so, not report a healthy
        // archive.  Heads and index hunks for both modes, blocks for the full one.  (Real code + oracle.)
        if sidx < 2 {
            let files: Vec<String> = state_map(&sc.pre_state).into_iter().filter(|(k, v)| matches!(file_class(k), "hunk" | "head" | "block") && (v.starts_with("hunk:") || v.starts_with("head:") || v.starts_with("block:"))).map(|(k, _)| k).collect();
            for f in files.iter().take(if thorough { 40 } else { 12 }) {
                for kind in ["pd", "ot"] {
                    for quick in [false, true] {
                        if quick && file_class(f) == "block" {
                            continue;
                        }
                        // only files some complete or interrupted version actually needs
                        let v = real_validate(&sc.run.arch, quick, IceptConfig { faults: vec![fault_spec("read", f, 0, kind)], ..Default::default() });
                        let read_failed = v.trace.iter().any(|l| l.starts_with(&format!("op read {f} ")) && !l.ends_with(" ok"));
                        report.case(&format!("unreadable/{case_seed}/{f}/{kind}/{quick}"), read_failed);
                        if !read_failed {
                            continue;
                        }
                        report.hit(&format!("validate:read-fault:{}", file_class(f)));
                        if !reports_error(&v) {
                            report.oracle_fail("validate:silent-on-unreadable-file", json!({"scenario": case_id, "file": f, "read_fails_with": kind, "quick": quick}), "validation reported a healthy archive although reading one of its files failed", json!({"result": trunc(&v.result), "events": v.events.iter().take(3).collect::<Vec<_>>()}));
                        }
                    }
                }
            }
        }
        let mut session = Session::new();
        let mut pend = Vec::new();
        // interrupted versions (head, no tail): what they restore to BEFORE the damage
        let pre_map = state_map(&sc.pre_state);
        let complete: BTreeSet<u32> = complete_bands(&sc.pre_state).into_iter().collect();
        let mut open_baseline: BTreeMap<u32, (RunResult, Vec<Obs>)> = BTreeMap::new();
        for b in all_bands(&sc.pre_state) {
            let has_head = pre_map.get(&format!("{}/BANDHEAD", band_name(b))).map(|v| v.starts_with("head:")).unwrap_or(false);
            if !complete.contains(&b) && has_head {
                let a = fresh_copy(&sc, "base");
                let (rr, robs) = restore_observe(&a, sc.run.work.path(), &Sel::Band(b), &format!("base{b}"));
                remove_copy(&a);
                if !reports_error(&rr) {
                    report.hit("open-version-baseline");
                    open_baseline.insert(b, (rr, robs));
                }
            }
        }
        for dc in &cases {
            // removal of a BANDTAIL is the format's legal "incomplete" state
            if file_class(&dc.rel) == "tail" && dc.damage == Damage::Delete {
                continue;
            }
            // the property's damage classes: bit flips are promised to be detected in data blocks
            // only (an index hunk carries no checksum; a flip that leaves it decodable is not
            // "removed or made undecodable")
            if matches!(dc.damage, Damage::BitFlip(..)) && file_class(&dc.rel) != "block" {
                continue;
            }
            let (arch, out) = observe_damage(&sc, dc);
            let case = json!({"scenario": case_id, "file": dc.rel, "damage": dc.damage.text()});
            report.case(&format!("dmg/{case_seed}/{}/{}", dc.rel, dc.damage.text()), true);
            report.hit(&format!("damage:{}:{}", file_class(&dc.rel), dc.damage.class()));
            // does some version no longer restore exactly?
            let mut harmed: Vec<String> = Vec::new();
            for b in complete_bands(&sc.pre_state) {
                if trailing_hunk_of_countless_version(&pre_map, b, dc) {
                    report.hit("undetectable:trailing-hunk-of-tail-started-version");
                    continue;
                }
                if let Some(snap) = sc.run.snapshots.get(&b) {
                    match out.restores.get(&b) {
                        Some(Some((rr, robs))) => {
                            if reports_error(rr) || crate::c01::tree_diff(snap, robs).is_some() {
                                harmed.push(band_name(b));
                            }
                        }
                        _ => harmed.push(band_name(b)),
                    }
                }
            }
            // interrupted versions: harmed = restores differently from before the damage.  The one case
            // that cannot be detected (Props/C09 `open_band_trailing_hunk_loss_undetectable`): the LAST hunk
            // of a version without tail is removed or emptied — that is also the legal state of a killed backup.
            for (b, (_, base_obs)) in &open_baseline {
                let differs = match out.restores.get(b) {
                    Some(Some((rr, robs))) => reports_error(rr) || crate::c01::tree_diff(base_obs, robs).is_some(),
                    _ => true,
                };
                if differs {
                    let idx_prefix = format!("{}/i/", band_name(*b));
                    let last_hunk = pre_map.keys().filter(|k| k.starts_with(&idx_prefix) && file_class(k) == "hunk").max().cloned();
                    let trailing = last_hunk.as_deref() == Some(dc.rel.as_str()) && matches!(dc.damage, Damage::Delete | Damage::Truncate0);
                    if trailing {
                        report.hit("undetectable:trailing-hunk-of-open-version");
                    } else {
                        report.hit("damage-harms-an-open-version");
                        harmed.push(band_name(*b));
                    }
                }
            }
            let vf = out.validate_full.clone();
            let vq = out.validate_quick.clone();
            if !harmed.is_empty() {
                report.hit("damage-harms-a-version");
                match &vf {
                    Some(v) if reports_error(v) => {}
                    Some(v) => report.oracle_fail(&format!("validate:silent-on-{}-{}", file_class(&dc.rel), dc.damage.class()), case.clone(), "a version no longer restores exactly but full validation reports nothing", json!({"harmed": harmed, "validate": trunc(&v.result)})),
                    None => report.oracle_fail("validate:hang", case.clone(), "validate did not terminate", json!(null)),
                }
                if matches!(dc.damage, Damage::Delete) {
                    match &vq {
                        Some(v) if reports_error(v) => {}
                        Some(_) => report.oracle_fail(&format!("validate-quick:silent-on-missing-{}", file_class(&dc.rel)), case.clone(), "a file is missing and a version no longer restores, but quick validation reports nothing", json!({"harmed": harmed})),
                        None => {}
                    }
                }
            }
            // model: validate on the damaged abstract state
            session.load_store(&out.state);
            if let Some(v) = vf {
                let i = session.push("validate full".into());
                pend.push((case.clone(), v, i));
            }
            if let Some(v) = vq {
                let i = session.push("validate quick".into());
                pend.push((case.clone(), v, i));
            }
            remove_copy(&arch);
        }
        if sidx == 0 {
            report.sample(json!({"scenario": case_id, "damage_cases": cases.len(), "example": cases.first().map(|c| format!("{} {}", c.rel, c.damage.text()))}));
        }
        let answers = session.run();
        for (case, v, i) in &pend {
            compare_run(report, "validate-damaged", case, v, &parse_answer(&answers[*i]), &CmpOpts { errors_unordered: true, ..Default::default() });
        }
    }
}

// ---------------------------------------------------------------- C10

/// Directed, real code + oracle: damage in a BIG index — one version of 10030 one-entry hunks (two index
/// sub-directories); a hunk in the FULL first sub-directory is deleted, then another emptied: listing and
/// validation must report it and every other entry must still be listed.
/// Directed (C09): an INTERRUPTED version (head, no tail: nothing states its hunk count) of more than 10000 hunks
/// loses the LAST hunk of its first, full index sub-directory (`i/00000/000009999`).  The numbering then has a
/// gap (… 9998, 10000 …): validation must report it, in both modes.  Real code + oracle.
fn big_index_interrupted_lost_boundary_hunk(report: &mut Report) {
    let work = tempfile::tempdir().unwrap();
    let (src, arch) = (work.path().join("src"), work.path().join("arch"));
    std::fs::create_dir(&src).unwrap();
    let n = 10_012usize;
    for i in 0..n {
        std::fs::write(src.join(format!("e{i:05}")), b"").unwrap();
    }
    create_archive(&arch);
    let p = BackupParams { max_entries_per_hunk: 1, max_block_size: 64, small_file_cap: 16, owner: true, exclude: vec![] };
    let b = real_backup(&arch, &src, &p, IceptConfig::default());
    report.case("big-index-interrupted-lost-boundary-hunk", true);
    report.hit("directed:big-index-interrupted(10013 hunks)-lost-hunk-9999");
    if !b.result.starts_with("result ok") {
        return;
    }
    // without its tail the version is what an interrupted backup leaves (the format's legal 'incomplete' state)
    std::fs::remove_file(arch.join("b0000/BANDTAIL")).unwrap();
    let healthy = real_validate(&arch, true, IceptConfig::default());
    if reports_error(&healthy) {
        report.oracle_fail("validate:false-alarm", json!({"directed": "big interrupted index"}), "validate reported an error on an interrupted version of more than 10000 hunks", json!(healthy.events.iter().take(2).collect::<Vec<_>>()));
        return;
    }
    for k in [9999usize, 10000] {
        let hunk = arch.join(format!("b0000/i/{:05}/{:09}", k / 10000, k));
        let saved = std::fs::read(&hunk).unwrap();
        std::fs::remove_file(&hunk).unwrap();
        let case = json!({"directed": "interrupted version with 10013 index hunks", "damage": "delete", "hunk": k});
        for quick in [true, false] {
            let v = real_validate(&arch, quick, IceptConfig::default());
            if !reports_error(&v) {
                report.oracle_fail("validate:silent-on-hunk-delete-big-interrupted-index", case.clone(), "validation is silent although an index hunk in the MIDDLE of an interrupted version is missing (the entries after it come from nowhere)", json!({"quick": quick}));
            }
        }
        std::fs::write(&hunk, saved).unwrap();
    }
}

fn big_index_lost_hunk(report: &mut Report) {
    let work = tempfile::tempdir().unwrap();
    let (src, arch) = (work.path().join("src"), work.path().join("arch"));
    std::fs::create_dir(&src).unwrap();
    let n = 10_028usize;
    for i in 0..n {
        std::fs::write(src.join(format!("e{i:05}")), b"").unwrap();
    }
    create_archive(&arch);
    let p = BackupParams { max_entries_per_hunk: 1, max_block_size: 64, small_file_cap: 16, owner: true, exclude: vec![] };
    let b = real_backup(&arch, &src, &p, IceptConfig::default());
    report.case("big-index-lost-hunk", true);
    report.hit("directed:big-index(10029 hunks)-lost-hunk");
    if !b.result.starts_with("result ok") {
        return;
    }
    let list = |a: &std::path::Path| real_list(a, &Sel::Band(0), "/", &[], IceptConfig::default());
    let healthy = list(&arch);
    if healthy.lines.len() != n + 1 || reports_error(&healthy) {
        report.oracle_fail("damage:big-index-healthy-listing-wrong", json!({"directed": "big-index"}), "the undamaged big index does not list every entry cleanly", json!({"listed": healthy.lines.len(), "expected": n + 1}));
        return;
    }
    for (what, k) in [("delete", 5000usize), ("truncate-0", 7000)] {
        let hunk = arch.join(format!("b0000/i/{:05}/{:09}", k / 10000, k));
        let saved = std::fs::read(&hunk).unwrap();
        if what == "delete" { std::fs::remove_file(&hunk).unwrap(); } else { std::fs::write(&hunk, b"").unwrap(); }
        let case = json!({"directed": "big-index", "hunks": n + 1, "damage": what, "hunk": k});
        let l = list(&arch);
        let any_error = reports_error(&l);
        if l.result.starts_with("result panic") {
            report.oracle_fail(&format!("damage:panic:list:big-index-hunk-{what}"), case.clone(), "listing crashed on a big index with one damaged hunk", json!(trunc(&l.result)));
        } else if l.lines.len() < n && !any_error || l.lines.len() + 1 < n + 1 - 1 {
            // exactly one entry may be missing (the damaged hunk's); anything more is silent loss of untouched hunks
            report.oracle_fail(&format!("damage:untouched-entries-lost:big-index-hunk-{what}"), case.clone(), "after ONE index hunk was damaged, entries of untouched hunks are no longer listed", json!({"listed": l.lines.len(), "expected_at_least": n, "errors_reported": l.events.iter().filter(|e| e.starts_with("event error")).count()}));
        } else if !any_error {
            report.oracle_fail(&format!("damage:silently-dropped-or-altered:big-index-hunk-{what}"), case.clone(), "an entry whose hunk is missing or emptied was dropped from the listing without any error", json!({"listed": l.lines.len()}));
        }
        for quick in [true] {
            let v = real_validate(&arch, quick, IceptConfig::default());
            if !reports_error(&v) {
                report.oracle_fail(&format!("validate:silent-on-hunk-{what}-big-index"), case.clone(), "validation is silent although an index hunk of a complete version is missing or emptied", json!({"quick": quick}));
            }
        }
        std::fs::write(&hunk, saved).unwrap();
    }
}

pub fn run_c10(tier: &str, seed: u64, report: &mut Report) {
    let thorough = tier == "thorough";
    big_index_lost_hunk(report);
    let n_scen = if thorough { 10 } else { 3 };
    for sidx in 0..n_scen {
        let case_seed = seed.wrapping_mul(2971215073).wrapping_add(sidx as u64);
        let (sc, case_id) = if sidx == 1 { report.hit("directed:open-version-over-four-hunk-predecessor"); scenario_open_directed(report, "dmg-prefix") } else if sidx == 2 { report.hit("directed:tail-started-version"); scenario_tail_started(report, "dmg-prefix") } else if sidx % 2 == 1 { scenario_open(case_seed, report, "dmg-prefix") } else { scenario(case_seed, report, "dmg-prefix") };
        let mut rng = Rng::new(case_seed ^ 0x10);
        // interrupted versions (head, no tail): what they restore to BEFORE the damage
        let pre_map0 = state_map(&sc.pre_state);
        let complete0: BTreeSet<u32> = complete_bands(&sc.pre_state).into_iter().collect();
        let mut open_baseline: BTreeMap<u32, Vec<Obs>> = BTreeMap::new();
        for b in all_bands(&sc.pre_state) {
            let has_head = pre_map0.get(&format!("{}/BANDHEAD", band_name(b))).map(|v| v.starts_with("head:")).unwrap_or(false);
            if !complete0.contains(&b) && has_head {
                let a = fresh_copy(&sc, "base");
                let (rr, robs) = restore_observe(&a, sc.run.work.path(), &Sel::Band(b), &format!("base{b}"));
                remove_copy(&a);
                if !reports_error(&rr) {
                    report.hit("open-version-baseline");
                    open_baseline.insert(b, robs);
                }
            }
        }
        let cases = plan(&sc.run.arch, &mut rng, if thorough { 8 } else { 2 }, false);
        let mut session = Session::new();
        let mut pend: Vec<(Value, RunResult, usize, CmpOpts, &'static str)> = Vec::new();
        for dc in &cases {
            let (arch, out) = observe_damage(&sc, dc);
            let case = json!({"scenario": case_id, "file": dc.rel, "damage": dc.damage.text()});
            let fc = file_class(&dc.rel);
            report.case(&format!("dmg/{case_seed}/{}/{}", dc.rel, dc.damage.text()), true);
            report.hit(&format!("damage:{}:{}", fc, dc.damage.class()));
            let sigbase = format!("{}-{}", fc, dc.damage.class());
            // ---- never crash, never hang
            let mut ops: Vec<(&str, Option<&RunResult>)> = vec![("versions", out.versions.as_ref()), ("validate-full", out.validate_full.as_ref()), ("validate-quick", out.validate_quick.as_ref())];
            for (_, l) in &out.lists {
                ops.push(("list", l.as_ref()));
            }
            let rr: Vec<Option<&RunResult>> = out.restores.values().map(|x| x.as_ref().map(|p| &p.0)).collect();
            for r in &rr {
                ops.push(("restore", *r));
            }
            for (name, r) in &ops {
                match r {
                    None => report.oracle_fail(&format!("damage:hang:{name}:{sigbase}"), case.clone(), "an operation did not terminate on a damaged archive", json!(name)),
                    Some(r) if r.result.starts_with("result panic") => report.oracle_fail(&format!("damage:panic:{name}:{sigbase}"), case.clone(), "an operation crashed on a damaged archive", json!({"op": name, "panic": trunc(&r.result)})),
                    _ => {}
                }
            }
            // ---- containment: in every version that still opens, untouched files restore exactly,
            //      touched files are reported as errors rather than silently dropped or altered
            let touched = touched_files(&sc.pre_state, &dc.rel);
            // the promise about damaged files is for hunks/blocks that became MISSING or UNDECODABLE;
            // a flipped bit that leaves an index hunk decodable (no checksum there) is outside it
            let post_map = state_map(&out.state);
            let still_decodable_hunk = fc == "hunk" && post_map.get(&dc.rel).map(|v| v.starts_with("hunk:")).unwrap_or(false);
            for b in complete_bands(&sc.pre_state) {
                if trailing_hunk_of_countless_version(&pre_map0, b, dc) {
                    report.hit("undetectable:trailing-hunk-of-tail-started-version");
                    continue;
                }
                if still_decodable_hunk && dc.rel.starts_with(&band_name(b)) {
                    report.hit("damage:hunk-altered-but-decodable(no promise)");
                    continue;
                }
                let head_damaged = dc.rel == format!("{}/BANDHEAD", band_name(b));
                let Some(snap) = sc.run.snapshots.get(&b) else { continue };
                let Some(Some((rr, robs))) = out.restores.get(&b) else { continue };
                if head_damaged || rr.result.starts_with("result err") || rr.result.starts_with("result panic") {
                    continue; // the version does not open (reported as an error by construction)
                }
                let got: BTreeMap<&str, &Obs> = robs.iter().map(|o| (o.apath.as_str(), o)).collect();
                let has_error = rr.events.iter().any(|e| e.starts_with("event error"));
                for o in snap.iter().filter(|o| o.kind == 'f') {
                    let is_touched = touched.contains(&(b, o.apath.clone()));
                    let restored_ok = got.get(o.apath.as_str()).map(|g| g.content == o.content && g.kind == 'f').unwrap_or(false);
                    if !is_touched && !restored_ok {
                        // is an ancestor directory's own entry among the lost ones?  Then restore cannot
                        // create the file (it does not create parents) and reports an error for it.
                        let under_lost_dir = touched.iter().any(|(tb, tp)| *tb == b && o.apath.starts_with(&format!("{}/", tp.trim_end_matches('/'))) && tp != "/");
                        if under_lost_dir && has_error {
                            report.oracle_fail("damage:untouched-file-under-lost-directory", case.clone(), "a file whose own hunk and blocks are untouched is not restored because the entry of its parent directory was in the damaged hunk (restore does not create missing parents; an error IS reported)", json!({"band": band_name(b), "apath": o.apath}));
                        } else {
                            report.oracle_fail(&format!("damage:untouched-file-harmed:{sigbase}"), case.clone(), "a file whose hunk and blocks are untouched no longer restores exactly", json!({"band": band_name(b), "apath": o.apath}));
                        }
                        break;
                    }
                    // errors that name a file (`RestoreFileBlock { apath, .. }`) only count for that file
                    let mine = format!("event error restore-file-block:{}:", hex::encode(o.apath.as_bytes()));
                    let reported = rr.events.iter().any(|e| e.starts_with(&mine) || (e.starts_with("event error") && !e.starts_with("event error restore-file-block:")));
                    if is_touched && !restored_ok && !reported {
                        report.oracle_fail(&format!("damage:silently-dropped-or-altered:{sigbase}"), case.clone(), "a file whose hunk or block was damaged was dropped or altered without any error being reported", json!({"band": band_name(b), "apath": o.apath, "restored": got.contains_key(o.apath.as_str())}));
                        break;
                    }
                }
            }
            // ---- interrupted versions: whatever they restored before the damage is restored now, or an error is
            //      reported (never silently dropped or altered).  Not promised: the LAST own hunk of the version
            //      removed or emptied (indistinguishable from an earlier kill: C09 `open_band_trailing_hunk_loss_undetectable`),
            //      and an index hunk altered but still decodable.
            for (b, base_obs) in &open_baseline {
                let Some(Some((rr, robs))) = out.restores.get(b) else { continue };
                if rr.result.starts_with("result err") || rr.result.starts_with("result panic") || still_decodable_hunk {
                    continue;
                }
                let idx_prefix = format!("{}/i/", band_name(*b));
                let last_hunk = pre_map0.keys().filter(|k| k.starts_with(&idx_prefix) && file_class(k) == "hunk").max().cloned();
                if last_hunk.as_deref() == Some(dc.rel.as_str()) && matches!(dc.damage, Damage::Delete | Damage::Truncate0) {
                    report.hit("undetectable:trailing-hunk-of-open-version");
                    continue;
                }
                // "in every version that still opens, each file whose index hunk and blocks are untouched restores
                // exactly" — also in an interrupted version, whose entries come from its own hunks and, after its last
                // recorded path, from its predecessors': a file that NO band's damaged hunk or block touches (and that
                // does not lie below a directory whose entry was lost) must come back as before the damage, whatever
                // errors are reported about the damaged file; and when the damage is in another band, nothing the
                // version did not hold before may appear
                if fc == "hunk" || fc == "block" {
                    let got: BTreeMap<&str, &Obs> = robs.iter().map(|o| (o.apath.as_str(), o)).collect();
                    for o in base_obs.iter().filter(|o| o.kind == 'f') {
                        let touched_any = touched.iter().any(|(_, p)| *p == o.apath);
                        let below_lost = touched.iter().any(|(_, tp)| tp != "/" && o.apath.starts_with(&format!("{}/", tp.trim_end_matches('/'))));
                        if touched_any || below_lost {
                            continue;
                        }
                        let restored_ok = got.get(o.apath.as_str()).map(|g| g.content == o.content && g.kind == 'f' && g.mtime_ns == o.mtime_ns).unwrap_or(false);
                        if !restored_ok {
                            report.oracle_fail(&format!("damage:untouched-file-harmed-in-open-version:{sigbase}"), case.clone(), "in an interrupted version a file whose hunk and blocks are untouched (in every band) no longer restores as before the damage", json!({"band": band_name(*b), "apath": o.apath, "restored": got.get(o.apath.as_str()).map(|g| String::from_utf8_lossy(&g.content).chars().take(40).collect::<String>())}));
                            break;
                        }
                    }
                    if !dc.rel.starts_with(&format!("{}/", band_name(*b))) {
                        let before: BTreeSet<&str> = base_obs.iter().map(|o| o.apath.as_str()).collect();
                        if let Some(extra) = robs.iter().find(|o| !before.contains(o.apath.as_str())) {
                            report.oracle_fail(&format!("damage:entry-appears-in-open-version:{sigbase}"), case.clone(), "after damage to another version's file an interrupted version restores a path it did not hold before", json!({"band": band_name(*b), "apath": extra.apath}));
                        }
                    }
                }
                let any_error = rr.events.iter().any(|e| e.starts_with("event error"));
                if !any_error && crate::c01::tree_diff(base_obs, robs).is_some() {
                    report.oracle_fail(&format!("damage:open-version-silently-changed:{sigbase}"), case.clone(), "after the damage an interrupted version restores differently from before and no error at all is reported", json!({"band": band_name(*b), "diff": crate::c01::tree_diff(base_obs, robs)}));
                }
            }
            // ---- after a deleted or emptied file a new backup completes and restores exactly
            if matches!(dc.damage, Damage::Delete | Damage::Truncate0) {
                let a = arch.clone();
                let src = sc.run.src.clone();
                let r = with_timeout(60, move || real_backup(&a, &src, &BackupParams { max_entries_per_hunk: 3, max_block_size: 8, small_file_cap: 6, owner: true, exclude: vec![] }, IceptConfig::default()));
                match r {
                    None => report.oracle_fail(&format!("damage:hang:backup:{sigbase}"), case.clone(), "a new backup did not terminate", json!(null)),
                    Some(r) if r.result.starts_with("result panic") => report.oracle_fail(&format!("damage:panic:backup:{sigbase}"), case.clone(), "a new backup crashed on a damaged archive", json!(trunc(&r.result))),
                    Some(r) if !r.result.starts_with("result ok") => report.oracle_fail(&format!("damage:backup-refused:{sigbase}"), case.clone(), "a new backup after a deleted/emptied file does not complete", json!(trunc(&r.result))),
                    Some(_) => {
                        let (post, _) = abstract_archive(&arch);
                        if let Some(nb) = complete_bands(&post).into_iter().max() {
                            let (rr, robs) = restore_observe(&arch, sc.run.work.path(), &Sel::Band(nb), "dmgnew");
                            if reports_error(&rr) || crate::c01::tree_diff(&sc.src_obs, &robs).is_some() {
                                report.oracle_fail(&format!("damage:new-backup-not-exact:{sigbase}"), case.clone(), "the backup made after the damage does not restore the source exactly", json!({"result": trunc(&rr.result), "events": rr.events.iter().take(3).collect::<Vec<_>>()}));
                            }
                        }
                    }
                }
            }
            // ---- model on the damaged abstract state: list + restore of every band, validate
            session.load_store(&out.state);
            for (b, l) in &out.lists {
                if let Some(l) = l {
                    let i = session.push(format!("list {} s:2f 0", band_name(*b)));
                    pend.push((case.clone(), l.clone(), i, CmpOpts::default(), "damaged:list"));
                }
            }
            for (b, r) in &out.restores {
                if let Some((rr, robs)) = r {
                    let i = session.push(format!("restore {} s:2f 0", band_name(*b)));
                    // restored nodes are compared by content only for complete restores; here: errors + result
                    let mut r2 = rr.clone();
                    r2.lines = vec![];
                    let _ = robs;
                    pend.push((case.clone(), r2, i, CmpOpts::default(), "damaged:restore"));
                }
            }
            remove_copy(&arch);
        }
        if sidx == 0 {
            report.sample(json!({"scenario": case_id, "damage_cases": cases.len(), "example": cases.get(1).map(|c| format!("{} {}", c.rel, c.damage.text()))}));
        }
        let answers = session.run();
        for (case, real, i, o, sig) in &pend {
            let mut m = parse_answer(&answers[*i]);
            if *sig == "damaged:restore" {
                m.lines = vec![];
            }
            compare_run(report, sig, case, real, &m, o);
        }
    }
}

// ---------------------------------------------------------------- C10, malformed-but-decodable values

/// Rewrite one index hunk so that it still decodes but one entry carries an odd value — what a
/// few flipped bits can produce.  Own encoder: snap + serde_json::Value.
pub fn rewrite_hunk(path: &Path, f: impl Fn(&mut serde_json::Value)) -> bool {
    let Ok(bytes) = std::fs::read(path) else { return false };
    let Ok(raw) = snap::raw::Decoder::new().decompress_vec(&bytes) else { return false };
    let Ok(mut v) = serde_json::from_slice::<serde_json::Value>(&raw) else { return false };
    let Some(arr) = v.as_array_mut() else { return false };
    // prefer a file entry, else the last entry
    let idx = arr.iter().position(|e| e["kind"] == "File").unwrap_or(arr.len().saturating_sub(1));
    if arr.is_empty() {
        return false;
    }
    f(&mut arr[idx]);
    let out = snap::raw::Encoder::new().compress_vec(&serde_json::to_vec(&v).unwrap()).unwrap();
    std::fs::write(path, out).unwrap();
    true
}

pub fn run_c10_malformed(tier: &str, seed: u64, report: &mut Report) {
    let thorough = tier == "thorough";
    let n_scen = if thorough { 6 } else { 2 };
    type Edit = (&'static str, fn(&mut serde_json::Value));
    let edits: Vec<Edit> = vec![
        ("apath-double-slash", |e| { let a = e["apath"].as_str().unwrap_or("/x").to_string(); e["apath"] = json!(format!("{a}//y")); }),
        ("apath-trailing-slash", |e| { let a = e["apath"].as_str().unwrap_or("/x").to_string(); e["apath"] = json!(format!("{a}/")); }),
        ("apath-dotdot", |e| { e["apath"] = json!("/../escape"); }),
        ("apath-no-leading-slash", |e| { e["apath"] = json!("relative"); }),
        ("apath-empty", |e| { e["apath"] = json!(""); }),
        ("nanos-2^31", |e| { e["mtime_nanos"] = json!(2147483648u64); }),
        ("nanos-2e9", |e| { e["mtime_nanos"] = json!(2000000000u64); }),
        ("mtime-huge", |e| { e["mtime"] = json!(9_000_000_000_000_000_000i64); }),
        ("mtime-min", |e| { e["mtime"] = json!(i64::MIN); }),
        ("kind-unknown", |e| { e["kind"] = json!("Unknown"); }),
        ("symlink-without-target", |e| { e["kind"] = json!("Symlink"); e.as_object_mut().unwrap().remove("target"); }),
        ("dir-with-addrs", |e| { e["kind"] = json!("Dir"); }),
        ("addr-len-huge", |e| { if let Some(a) = e["addrs"].as_array_mut() { if let Some(x) = a.first_mut() { x["len"] = json!(1u64 << 40); } } }),
        ("addr-start-huge", |e| { if let Some(a) = e["addrs"].as_array_mut() { if let Some(x) = a.first_mut() { x["start"] = json!(u64::MAX - 1); } } }),
        ("mode-huge", |e| { e["unix_mode"] = json!(4294967295u64); }),
        ("user-nonexistent", |e| { e["user"] = json!("no-such-user-xyz"); e["group"] = json!("no-such-group-xyz"); }),
    ];
    for sidx in 0..n_scen {
        let case_seed = seed.wrapping_mul(32452843).wrapping_add(sidx as u64);
        let (sc, case_id) = scenario(case_seed, report, "dmg-prefix");
        let newest = all_bands(&sc.pre_state).into_iter().max().unwrap_or(0);
        let hunk_rel = format!("{}/i/00000/000000000", band_name(newest));
        let mut session = Session::new();
        let mut pend: Vec<(Value, RunResult, usize, &'static str)> = Vec::new();
        for (name, f) in &edits {
            let arch = fresh_copy(&sc, "mal");
            if !rewrite_hunk(&arch.join(&hunk_rel), f) {
                remove_copy(&arch);
                continue;
            }
            let case = json!({"scenario": case_id, "file": hunk_rel, "malformed": name});
            report.case(&format!("malformed/{case_seed}/{name}"), true);
            report.hit(&format!("malformed:{name}"));
            let (state, _) = abstract_archive(&arch);
            let undecodable = !state_map(&state).get(&hunk_rel).map(|v| v.starts_with("hunk:")).unwrap_or(false);
            if undecodable {
                report.hit("malformed:became-undecodable");
            }
            let a = arch.clone();
            let l = with_timeout(30, move || real_list(&a, &Sel::Band(newest), "/", &[], IceptConfig::default()));
            let a = arch.clone();
            let w = sc.run.work.path().to_path_buf();
            let r = with_timeout(30, move || restore_observe(&a, &w, &Sel::Band(newest), "mal").0);
            let a = arch.clone();
            let v = with_timeout(30, move || real_validate(&a, false, IceptConfig::default()));
            let a = arch.clone();
            let src = sc.run.src.clone();
            let b = with_timeout(60, move || real_backup(&a, &src, &BackupParams { max_entries_per_hunk: 3, max_block_size: 8, small_file_cap: 6, owner: true, exclude: vec![] }, IceptConfig::default()));
            for (op, res) in [("list", &l), ("restore", &r), ("validate-full", &v), ("backup", &b)] {
                match res {
                    None => report.oracle_fail(&format!("malformed:hang:{op}:{name}"), case.clone(), "an operation did not terminate on an archive with an odd but decodable index value", json!(op)),
                    Some(x) if x.result.starts_with("result panic") => report.oracle_fail(&format!("malformed:panic:{op}:{name}"), case.clone(), "an operation crashed on an archive with an odd but decodable index value", json!({"op": op, "panic": trunc(&x.result)})),
                    _ => {}
                }
            }
            // model on the same abstract state (list and validate; restore errors are compared store-level)
            session.load_store(&state);
            if let Some(l) = l {
                let i = session.push(format!("list {} s:2f 0", band_name(newest)));
                pend.push((case.clone(), l, i, "malformed:list"));
            }
            if let Some(v) = v {
                let i = session.push("validate full".into());
                pend.push((case.clone(), v, i, "malformed:validate"));
            }
            remove_copy(&arch);
        }
        let answers = session.run();
        for (case, real, i, sig) in &pend {
            compare_run(report, sig, case, real, &parse_answer(&answers[*i]), &CmpOpts { errors_unordered: true, ..Default::default() });
        }
    }
}
