//! C02: every completed version keeps restoring to its own snapshot, across histories of
//! source changes, backups, interrupted + resumed backups, deletes and gc.
use crate::hist::*;
use crate::icept::IceptConfig;
use crate::real::*;
use crate::treespec::observe;
use crate::report::Report;
use crate::treespec::{Node, NodeKind, Tree};
use crate::rng::Rng;
use crate::treespec::GenOpts;
use serde_json::json;

/// Directed: a LONG history (real code + the property's own oracle): 112 versions, then a gc, a delete of two
/// versions and one more backup; every surviving version still restores to the tree it was made from and
/// "latest" is the newest.
fn long_history(report: &mut Report) {
    let n = 112u32;
    let (work, arch, src, mut snaps) = crate::sweep::many_versions(n);
    report.case("long-history", true);
    report.hit("directed:long-history(112 versions)");
    let all: Vec<u32> = (0..n).collect();
    crate::sweep::many_versions_restore_all(report, "hist:restored-differs-long-history", "112 backups", work.path(), &arch, &snaps, &all);
    let _ = real_delete(&arch, &[], false, false, IceptConfig::default());
    crate::sweep::many_versions_restore_all(report, "hist:restored-differs-long-history", "gc", work.path(), &arch, &snaps, &all);
    let _ = real_delete(&arch, &[7, 50], false, false, IceptConfig::default());
    let keep: Vec<u32> = (0..n).filter(|b| *b != 7 && *b != 50).collect();
    crate::sweep::many_versions_restore_all(report, "hist:restored-differs-long-history", "delete b0007 b0050", work.path(), &arch, &snaps, &keep);
    std::fs::write(src.join("journal"), b"the last one").unwrap();
    let r = real_backup(&arch, &src, &BackupParams::default(), IceptConfig::default());
    if r.result.starts_with("result ok") {
        snaps.insert(n, observe(&src));
        let (rr, robs) = restore_observe(&arch, work.path(), &Sel::Closed, "latest-long");
        if !rr.result.starts_with("result ok") || !rr.events.is_empty() || crate::c01::tree_diff(&snaps[&n], &robs).is_some() {
            report.oracle_fail("hist:latest-wrong-version-long-history", json!({"directed": "long-history"}), "after 113 versions the latest complete version is not the newest one", json!(crate::compare::trunc(&rr.result)));
        }
    }
}

pub fn run(tier: &str, seed: u64, report: &mut Report) {
    let thorough = tier == "thorough";
    long_history(report);
    let n_hist = if thorough { 400 } else { 30 };
    let max_steps = if thorough { 24 } else { 12 };
    for h in 0..n_hist {
        let case_seed = seed.wrapping_mul(7919).wrapping_add(h as u64);
        let mut rng = Rng::new(case_seed);
        let go = GenOpts { max_nodes: 14, block: 16, cap: 8, ..Default::default() };
        let mut steps = gen_history(&mut rng, max_steps, &go, true, true);
        if h == 0 {
            // directed: names that differ only in letter case next to a symlink (`/Current` a link, `/current` a
            // directory with content; the same one level down), and a link whose name is a prefix of a directory's
            let mk = |name: &str, kind: NodeKind, m: i64| Node { comps: if name.is_empty() { vec![] } else { name.split('/').map(|x| x.to_string()).collect() }, kind: kind.clone(), mode: if matches!(kind, NodeKind::Dir) { 0o755 } else if matches!(kind, NodeKind::Symlink(_)) { 0o777 } else { 0o644 }, mtime_ns: 1_610_000_000_000_000_000 + m, uid: 0, gid: 0 };
            let mut t = Tree::default();
            t.nodes.insert("/".into(), mk("", NodeKind::Dir, 0));
            t.nodes.insert("/Current".into(), mk("Current", NodeKind::Symlink("releases/v2".into()), 1));
            for d in ["current", "current/sub", "releases", "releases/V2", "releases/v2x"] {
                t.nodes.insert(format!("/{d}"), mk(d, NodeKind::Dir, 2));
            }
            t.nodes.insert("/releases/v2".into(), mk("releases/v2", NodeKind::Symlink("../current".into()), 3));
            for (i, f) in ["current/notes.txt", "current/sub/deep.txt", "releases/V2/bin", "releases/v2x/bin"].iter().enumerate() {
                t.nodes.insert(format!("/{f}"), mk(f, NodeKind::File(format!("content of {f}").into_bytes()), 10 + i as i64));
            }
            let mut t2 = t.clone();
            t2.nodes.insert("/current/notes.txt".into(), mk("current/notes.txt", NodeKind::File(b"second edition of the notes".to_vec()), 1_000_000_000));
            let p = BackupParamsLite { hunk: 3, block: 16, cap: 8 };
            steps = vec![Step::SetTree(t), Step::Backup(p.clone()), Step::SetTree(t2), Step::Backup(p.clone()), Step::Delete(vec![], false), Step::Backup(p)];
            report.hit("directed:case-variant-names-beside-a-symlink");
        }
        let case_id = json!({"case_seed": case_seed, "steps": history_json(&steps)});
        let o = HistOpts { restore_each: true, raw: false, sig: "hist" };
        let run = run_history(&steps, &o, report, &case_id);
        let answers = run.session.run();
        compare_history(&run, &answers, 0, &o, report, &case_id);
        report.case(&serde_json::to_string(&case_id).unwrap(), steps.len() > 2);
        report.hit_n("restores-checked", run.restore_expect.len() as u64);
        if h < 2 {
            report.sample(json!({"case_seed": case_seed, "steps": steps.iter().map(|s| match s { Step::SetTree(t) => format!("set-tree({} nodes)", t.nodes.len()), other => step_json(other).to_string() }).collect::<Vec<_>>()}));
        }
    }
}
