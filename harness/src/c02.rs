//! C02: every completed version keeps restoring to its own snapshot, across histories of
//! source changes, backups, interrupted + resumed backups, deletes and gc.
use crate::hist::*;
use crate::report::Report;
use crate::rng::Rng;
use crate::treespec::GenOpts;
use serde_json::json;

pub fn run(tier: &str, seed: u64, report: &mut Report) {
    let thorough = tier == "thorough";
    let n_hist = if thorough { 400 } else { 30 };
    let max_steps = if thorough { 24 } else { 12 };
    for h in 0..n_hist {
        let case_seed = seed.wrapping_mul(7919).wrapping_add(h as u64);
        let mut rng = Rng::new(case_seed);
        let go = GenOpts { max_nodes: 14, block: 16, cap: 8, ..Default::default() };
        let steps = gen_history(&mut rng, max_steps, &go, true, true);
        let case_id = json!({"case_seed": case_seed, "steps": history_json(&steps)});
        let o = HistOpts { restore_each: true, raw: false, sig: "hist" };
        let run = run_history(&steps, &o, report, &case_id);
        let answers = run.session.run();
        compare_history(&run, &answers, 0, &o, report, &case_id);
        report.case(&serde_json::to_string(&case_id).unwrap(), steps.len() > 2);
        report.hit_n("restores-checked", run.restore_expect.len() as u64);
        if h < 2 {
            report.sample(json!({"case_seed": case_seed, "steps": steps.iter().map(|s| match s { Step::SetTree(t) => format!("set-tree({} nodes)", t.nodes.len()), other => step_json(other).to_string() }).collect::<Vec<_>>()}));
        }
    }
}
