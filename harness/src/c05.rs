//! C05: deleting versions and collecting garbage never harm what is kept.
//! All subsets of existing versions x {dry, real}; for real runs every crash point and every
//! single failing read/list operation; real vs model, plus the property's oracles.
use crate::absarch::abstract_archive;
use crate::compare::*;
use crate::hist::*;
use crate::icept::IceptConfig;
use crate::real::*;
use crate::report::Report;
use crate::rng::Rng;
use crate::sweep::*;
use crate::treespec::*;
use serde_json::{Value, json};
use std::collections::BTreeSet;

/// "strict" flag of the model's `referencedBlocks` (1 = hunk read errors abort the delete).
pub const MODEL_STRICT: u32 = 1;

struct Pending {
    case: Value,
    real: RunResult,
    i_req: usize,
    state: Vec<String>,
    i_dump: usize,
    crashed: bool,
}

fn referenced_of(state: &[String], bands: &[u32]) -> BTreeSet<String> {
    let st = state_map(state);
    let mut out = BTreeSet::new();
    for b in bands {
        for (_, e) in band_entries(&st, *b) {
            for (h, _, _) in e.addrs {
                out.insert(h);
            }
        }
    }
    out
}

fn present_blocks(state: &[String]) -> BTreeSet<String> {
    state.iter().filter_map(|l| {
        let mut it = l.split(' ');
        it.next();
        let p = it.next()?;
        let v = it.next()?;
        if p.starts_with("d/") && p.matches('/').count() == 2 && v != "empty" { Some(p.rsplit('/').next()?.to_string()) } else { None }
    }).collect()
}

/// Kept complete versions still restore to their snapshots.
fn kept_versions_restore(report: &mut Report, sig: &str, case: &Value, sc: &Scenario, arch: &std::path::Path, post: &[String], deleted: &[u32]) {
    for b in complete_bands(post) {
        if deleted.contains(&b) {
            continue;
        }
        if let Some(snap) = sc.run.snapshots.get(&b) {
            let (rr, robs) = restore_observe(arch, sc.run.work.path(), &Sel::Band(b), "c05");
            if !rr.result.starts_with("result ok") || !rr.events.is_empty() {
                report.oracle_fail(sig, case.clone(), "a kept complete version no longer restores cleanly", json!({"band": band_name(b), "result": trunc(&rr.result), "events": rr.events.iter().take(3).collect::<Vec<_>>()}));
            } else if let Some(d) = crate::c01::tree_diff(snap, &robs) {
                report.oracle_fail(sig, case.clone(), "a kept complete version restores differently than before", json!({"band": band_name(b), "diff": d}));
            }
        }
    }
}

/// Directed: delete one version out of MORE THAN A HUNDRED (real code + the property's own oracle).
fn many_versions_delete(report: &mut Report) {
    let n = 112u32;
    let (work, arch, _src, snaps) = many_versions(n);
    report.case("many-versions-delete", true);
    report.hit("directed:many-versions(112)");
    let dry = real_delete(&arch, &[3], true, false, IceptConfig::default());
    let real = real_delete(&arch, &[3], false, false, IceptConfig::default());
    let case = json!({"directed": "many-versions", "versions": n, "operation": "delete b0003 (dry run first)"});
    if !real.result.starts_with("result ok") {
        report.oracle_fail("delete:many-versions-failed", case, "deleting one of 112 versions failed", json!(trunc(&real.result)));
        return;
    }
    let count = |r: &RunResult, key: &str| r.result.split(' ').find_map(|t| t.strip_prefix(key)).and_then(|v| v.parse::<u64>().ok());
    if count(&real, "deleted_block_count=") != Some(1) || count(&dry, "unreferenced_block_count=") != count(&real, "unreferenced_block_count=") {
        report.oracle_fail("delete:many-versions-wrong-block-count", case.clone(), "deleting one version whose only private block is its journal must remove exactly one block, and the dry run must predict it", json!({"dry": trunc(&dry.result), "real": trunc(&real.result)}));
    }
    let keep: Vec<u32> = (0..n).filter(|b| *b != 3).collect();
    many_versions_restore_all(report, "delete:harmed-kept-version-many-versions", "delete b0003", work.path(), &arch, &snaps, &keep);
}


/// Directed (real code + the property's own oracles): two files stored as three blocks each that share their
/// FIRST and LAST block and differ in the middle (cloned images with a common header and common padding), next
/// to each other in path order, plus small files sharing a combined block; delete the older version and collect
/// garbage: every block the kept version refers to is still there and it restores exactly.
fn shared_ends_delete(report: &mut Report) {
    let work = tempfile::tempdir().unwrap();
    let (src, arch) = (work.path().join("src"), work.path().join("arch"));
    std::fs::create_dir(&src).unwrap();
    let block = 64usize;
    let part = |c: u8| vec![c; block];
    std::fs::write(src.join("disk1.img"), [part(b'H'), part(b'1'), part(b'Z')].concat()).unwrap();
    std::fs::write(src.join("disk2.img"), [part(b'H'), part(b'2'), part(b'Z')].concat()).unwrap();
    std::fs::write(src.join("disk3.img"), [part(b'H'), part(b'3'), part(b'3'), part(b'Z')].concat()).unwrap();
    std::fs::write(src.join("note-a"), b"small a").unwrap();
    std::fs::write(src.join("note-b"), b"small b").unwrap();
    create_archive(&arch);
    let p = BackupParams { max_entries_per_hunk: 1000, max_block_size: block, small_file_cap: 16, owner: true, exclude: vec![] };
    let b0 = real_backup(&arch, &src, &p, IceptConfig::default());
    std::fs::write(src.join("note-a"), b"small a, edited").unwrap();
    let b1 = real_backup(&arch, &src, &p, IceptConfig::default());
    let snap = observe(&src);
    report.case("shared-ends-delete", true);
    report.hit("directed:multi-block-files-sharing-first-and-last-block");
    let case = json!({"directed": "three-block files sharing first and last block, differing in the middle", "max_block_size": block});
    if !b0.result.starts_with("result ok") || !b1.result.starts_with("result ok") {
        return;
    }
    let dry = real_delete(&arch, &[0], true, false, IceptConfig::default());
    let real = real_delete(&arch, &[0], false, false, IceptConfig::default());
    let gc = real_delete(&arch, &[], false, false, IceptConfig::default());
    let (post, _) = abstract_archive(&arch);
    let referenced = referenced_of(&post, &all_bands(&post));
    let present = present_blocks(&post);
    if let Some(h) = referenced.difference(&present).next() {
        report.oracle_fail("delete:referenced-block-removed", case.clone(), "a block referenced by a remaining version is gone", json!({"block": h, "dry": trunc(&dry.result), "delete": trunc(&real.result), "gc": trunc(&gc.result)}));
    }
    let (rr, robs) = restore_observe(&arch, work.path(), &Sel::Band(1), "shared");
    if !rr.result.starts_with("result ok") || !rr.events.is_empty() || crate::c01::tree_diff(&snap, &robs).is_some() {
        report.oracle_fail("delete:kept-version-harmed", case.clone(), "the kept version no longer restores exactly after the older one was deleted", json!({"result": trunc(&rr.result), "events": rr.events.iter().take(3).collect::<Vec<_>>()}));
    }
}

pub fn run(tier: &str, seed: u64, report: &mut Report) {
    many_versions_delete(report);
    shared_ends_delete(report);
    let thorough = tier == "thorough";
    let n_scen = if thorough { 12 } else { 3 };
    for sidx in 0..n_scen {
        let case_seed = seed.wrapping_mul(15485863).wrapping_add(sidx as u64);
        let mut rng = Rng::new(case_seed);
        let go = GenOpts { max_nodes: 10, block: 8, cap: 6, max_depth: 3, ..Default::default() };
        // several versions, some garbage (an earlier delete or an interrupted run), newest complete
        let mut steps = gen_history(&mut rng, 9, &go, true, sidx % 2 == 0);
        steps.push(Step::Backup(gen_params(&mut rng)));
        let case_id = json!({"case_seed": case_seed, "prefix": history_json(&steps)});
        let sc = build_scenario(&steps, report, &case_id, "delete-prefix");
        let bands = all_bands(&sc.pre_state);
        let nb = bands.len().min(5);
        let bands: Vec<u32> = bands.into_iter().rev().take(nb).collect();
        let mut session = Session::new();
        let mut pend: Vec<Pending> = Vec::new();
        let n_subsets = 1usize << bands.len();
        for mask in 0..n_subsets {
            let del: Vec<u32> = bands.iter().enumerate().filter(|(i, _)| mask & (1 << i) != 0).map(|(_, b)| *b).collect();
            let names: Vec<String> = del.iter().map(|b| band_name(*b)).collect();
            for dry in [false, true] {
                let plan = json!({"delete": names, "dry_run": dry});
                let case = json!({"scenario": case_id, "plan": plan});
                let arch = fresh_copy(&sc, "del");
                let real = real_delete(&arch, &del, dry, false, IceptConfig::default());
                let (post, _) = abstract_archive(&arch);
                report.case(&format!("{case_seed}/{mask}/{dry}"), !del.is_empty() || present_blocks(&sc.pre_state).len() > referenced_of(&sc.pre_state, &all_bands(&sc.pre_state)).len());
                report.hit(if dry { "plan:dry-run" } else { "plan:real" });
                // ---- oracles
                if real.result.starts_with("result panic") {
                    report.oracle_fail("delete:panic", case.clone(), "delete crashed", json!(trunc(&real.result)));
                }
                if dry {
                    if post != sc.pre_state {
                        report.oracle_fail("delete:dry-run-changed", case.clone(), "a dry run changed the archive", first_diff(&sc.pre_state, &post));
                    }
                } else if real.result.starts_with("result ok") {
                    let before: BTreeSet<u32> = all_bands(&sc.pre_state).into_iter().collect();
                    let after: BTreeSet<u32> = all_bands(&post).into_iter().collect();
                    let expect: BTreeSet<u32> = before.iter().filter(|b| !del.contains(b)).cloned().collect();
                    if after != expect {
                        report.oracle_fail("delete:wrong-versions-gone", case.clone(), "not exactly the requested versions were removed", json!({"before": before, "after": after}));
                    }
                    let kept: Vec<u32> = after.iter().cloned().collect();
                    let referenced = referenced_of(&post, &kept);
                    let present = present_blocks(&post);
                    if let Some(h) = referenced.difference(&present).next() {
                        report.oracle_fail("delete:referenced-block-removed", case.clone(), "a block referenced by a remaining version is gone", json!(h));
                    }
                    if let Some(h) = present.difference(&referenced).next() {
                        report.oracle_fail("delete:unreferenced-block-left", case.clone(), "an unreferenced block remains after the delete", json!(h));
                    }
                    kept_versions_restore(report, "delete:kept-version-harmed", &case, &sc, &arch, &post, &del);
                } else {
                    report.hit("outcome:refused");
                    if post != sc.pre_state {
                        report.oracle_fail("delete:refused-but-changed", case.clone(), "delete returned an error but changed the archive", first_diff(&sc.pre_state, &post));
                    }
                }
                session.load_store(&sc.pre_state);
                let i_req = session.push(format!("delete {} 0 {} - {} {}", if dry { 1 } else { 0 }, MODEL_STRICT, names.len(), names.join(" ")).trim_end().to_string());
                let i_dump = session.push("dump".into());
                pend.push(Pending { case: case.clone(), real: real.clone(), i_req, state: post, i_dump, crashed: false });
                remove_copy(&arch);

                // ---- sweeps for real runs: crash points and single read/list faults
                let sweep_this = !dry && real.result.starts_with("result ok") && (mask == n_subsets - 1 || mask == 0 || mask == 1 || rng.chance(if thorough { 3 } else { 1 }, 6));
                if !sweep_this {
                    continue;
                }
                for k in 0..real.steps {
                    let arch = fresh_copy(&sc, "delc");
                    let r = real_delete(&arch, &del, false, false, IceptConfig { crash_at: Some(k), ..Default::default() });
                    let (post, _) = abstract_archive(&arch);
                    let case = json!({"scenario": case_id, "plan": plan, "crash_before_micro_step": k});
                    kept_versions_restore(report, "delete:crash-harmed-kept-version", &case, &sc, &arch, &post, &del);
                    session.load_store(&sc.pre_state);
                    let i_req = session.push(format!("delete 0 0 {} {} {} {}", MODEL_STRICT, k, names.len(), names.join(" ")).trim_end().to_string());
                    let i_dump = session.push("dump".into());
                    pend.push(Pending { case, real: r, i_req, state: post, i_dump, crashed: true });
                    report.case(&format!("{case_seed}/{mask}/crash{k}"), true);
                    report.hit("plan:crash");
                    remove_copy(&arch);
                }
                let kinds: &[&str] = if thorough { &["nf", "ae", "pd", "ot"] } else { &["nf", "ot"] };
                for i in 0..real.trace.len() {
                    let (verb, path, nth) = op_id_of(&real.trace, i).unwrap();
                    // every read-class operation: file reads, listings and stats ("a storage read fails while
                    // it is working out what is referenced")
                    if verb != "read" && verb != "list" && verb != "stat" {
                        continue;
                    }
                    for kind in kinds {
                        let arch = fresh_copy(&sc, "delf");
                        let f = fault_spec(&verb, &path, nth, kind);
                        let r = real_delete(&arch, &del, false, false, IceptConfig { faults: vec![f.clone()], ..Default::default() });
                        let (post, _) = abstract_archive(&arch);
                        let case = json!({"scenario": case_id, "plan": plan, "fault": {"verb": verb, "path": path, "nth": nth, "kind": kind}});
                        if r.result.starts_with("result panic") {
                            report.oracle_fail("delete:fault-panic", case.clone(), "a failing read crashed the delete", json!(trunc(&r.result)));
                        }
                        kept_versions_restore(report, "delete:read-fault-harmed-kept-version", &case, &sc, &arch, &post, &del);
                        session.load_store(&sc.pre_state);
                        let i_req = session.push(format!("delete 0 0 {} - {} {} {}", MODEL_STRICT, names.len(), names.join(" "), fault_token(&f)).replace("  ", " "));
                        let i_dump = session.push("dump".into());
                        pend.push(Pending { case, real: r, i_req, state: post, i_dump, crashed: false });
                        report.case(&format!("{case_seed}/{mask}/fault{i}{kind}"), true);
                        report.hit(&format!("plan:fault-{verb}"));
                        remove_copy(&arch);
                    }
                }
                // two RELATED failures: listing a kept version's index fails (not with not-found) and so does the stat of
                // one of its hunks — a fallback that probes hunks one by one must not take the second failure for the end
                let kept: Vec<u32> = all_bands(&sc.pre_state).into_iter().filter(|b| !del.contains(b)).collect();
                let pre_map = state_map(&sc.pre_state);
                for kb in kept.iter().take(2) {
                    let hunks: Vec<String> = pre_map.keys().filter(|k| k.starts_with(&format!("{}/i/", band_name(*kb))) && k.matches('/').count() == 3).cloned().collect();
                    for list_path in [format!("{}/i", band_name(*kb)), format!("{}/i/00000", band_name(*kb))] {
                        for h in hunks.iter().take(3) {
                            for (lk, sk) in [("pd", "ot"), ("ot", "pd")] {
                                let arch = fresh_copy(&sc, "del2f");
                                let faults = vec![fault_spec("list", &list_path, 0, lk), fault_spec("stat", h, 0, sk), fault_spec("read", h, 0, sk)];
                                let r = real_delete(&arch, &del, false, false, IceptConfig { faults: faults.clone(), ..Default::default() });
                                let (post, _) = abstract_archive(&arch);
                                let case = json!({"scenario": case_id, "plan": plan, "faults": [format!("list {list_path} fails ({lk})"), format!("stat/read {h} fails ({sk})")]});
                                if r.result.starts_with("result panic") {
                                    report.oracle_fail("delete:fault-panic", case.clone(), "failing reads crashed the delete", json!(trunc(&r.result)));
                                }
                                kept_versions_restore(report, "delete:read-fault-harmed-kept-version", &case, &sc, &arch, &post, &del);
                                report.case(&format!("{case_seed}/{mask}/2f/{list_path}/{h}/{lk}"), true);
                                report.hit("plan:two-related-read-faults");
                                remove_copy(&arch);
                            }
                        }
                    }
                }
            }
        }
        if sidx == 0 {
            report.sample(json!({"scenario": case_id, "bands": bands, "subsets": n_subsets}));
        }
        let answers = session.run();
        for p in &pend {
            let m = parse_answer(&answers[p.i_req]);
            compare_run(report, "delete", &p.case, &p.real, &m, &CmpOpts { crashed: p.crashed, blur_block_rm: p.crashed, ..Default::default() });
            if p.crashed {
                // a crash in the middle of the (hash-set ordered) block removals: same number removed
                compare_state(report, "delete", &p.case, &blur_blocks(&p.state), &blur_blocks(&answers[p.i_dump]));
            } else {
                compare_state(report, "delete", &p.case, &p.state, &answers[p.i_dump]);
            }
        }
    }
}
