//! Talk to the compiled Lean model driver (`cvmodel`) over its line protocol.
use std::io::{BufRead, BufReader, Write};
use std::process::{Command, Stdio};

pub fn model_path() -> String {
    std::env::var("CVMODEL").unwrap_or_else(|_| "/verif/lean/.lake/build/bin/cvmodel".to_string())
}

/// Send every request (one line each); return, per request, the answer lines.
pub fn run_model(requests: &[String]) -> Vec<Vec<String>> {
    let mut child = Command::new(model_path())
        .stdin(Stdio::piped())
        .stdout(Stdio::piped())
        .spawn()
        .expect("spawn cvmodel");
    let mut stdin = child.stdin.take().unwrap();
    let stdout = child.stdout.take().unwrap();
    let reqs: Vec<String> = requests.to_vec();
    let writer = std::thread::spawn(move || {
        let mut buf = Vec::with_capacity(1 << 20);
        for r in &reqs {
            debug_assert!(!r.contains('\n'));
            buf.extend_from_slice(r.as_bytes());
            buf.push(b'\n');
            if buf.len() > (1 << 20) {
                stdin.write_all(&buf).expect("write to cvmodel");
                buf.clear();
            }
        }
        stdin.write_all(&buf).expect("write to cvmodel");
        drop(stdin);
    });
    let mut answers = Vec::with_capacity(requests.len());
    let mut cur = Vec::new();
    for line in BufReader::new(stdout).lines() {
        let line = line.expect("read from cvmodel");
        if line == "." {
            answers.push(std::mem::take(&mut cur));
        } else {
            cur.push(line);
        }
    }
    writer.join().unwrap();
    let status = child.wait().unwrap();
    assert!(status.success(), "cvmodel failed: {status:?}");
    assert_eq!(answers.len(), requests.len(), "cvmodel answered {} of {} requests", answers.len(), requests.len());
    answers
}

/// Convenience for single-line answers.
pub fn run_model_1(requests: &[String]) -> Vec<String> {
    run_model(requests)
        .into_iter()
        .map(|mut a| if a.len() == 1 { a.pop().unwrap() } else { format!("<{} lines>", a.len()) })
        .collect()
}

pub fn s(bytes: &[u8]) -> String {
    format!("s:{}", hex::encode(bytes))
}
