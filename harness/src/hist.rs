//! Histories: sequences of source changes, backups (also interrupted), deletes and gc, run on
//! a real archive and on the model side by side, with per-step observations.
use crate::absarch::abstract_archive;
use crate::c01::{describe_tree, node_line, tree_diff};
use crate::compare::*;
use crate::icept::IceptConfig;
use crate::real::*;
use crate::report::Report;
use crate::rng::Rng;
use crate::treespec::*;
use serde_json::{Value, json};
use std::collections::BTreeMap;
use std::fs;
use std::path::{Path, PathBuf};

#[derive(Clone, Debug)]
pub enum Step {
    /// replace the source tree by this one
    SetTree(Tree),
    Backup(BackupParamsLite),
    /// interrupted backup: stop before mutating micro-step `num/den` of the fault-free run
    BackupCrash(BackupParamsLite, u32, u32),
    Delete(Vec<u32>, bool),
    Gc,
    /// the newest complete version's BANDTAIL is rewritten to the form conserve < 0.6.4 wrote (no hunk count)
    LegacyTail,
}

#[derive(Clone, Debug)]
pub struct BackupParamsLite {
    pub hunk: usize,
    pub block: usize,
    pub cap: u64,
}

impl BackupParamsLite {
    pub fn params(&self) -> BackupParams {
        BackupParams { max_entries_per_hunk: self.hunk, max_block_size: self.block, small_file_cap: self.cap, owner: true, exclude: vec![] }
    }
    pub fn json(&self) -> Value {
        json!({"max_entries_per_hunk": self.hunk, "max_block_size": self.block, "small_file_cap": self.cap})
    }
}

pub fn step_json(s: &Step) -> Value {
    match s {
        Step::SetTree(t) => json!({"set_tree": t.nodes.values().map(|n| json!({"apath": n.apath(), "kind": match &n.kind { NodeKind::File(c) => format!("file:{}", hex::encode(c)), NodeKind::Dir => "dir".into(), NodeKind::Symlink(t) => format!("symlink:{t}") }, "mode": format!("{:o}", n.mode), "mtime_ns": n.mtime_ns, "uid": n.uid, "gid": n.gid})).collect::<Vec<_>>()}),
        Step::Backup(p) => json!({"backup": p.json()}),
        Step::BackupCrash(p, a, b) => json!({"backup_crash": p.json(), "at": format!("{a}/{b}")}),
        Step::Delete(b, dry) => json!({"delete": b, "dry_run": dry}),
        Step::Gc => json!("gc"),
        Step::LegacyTail => json!("newest-complete-version-gets-a-pre-0.6.4-tail"),
    }
}

pub fn gen_params(rng: &mut Rng) -> BackupParamsLite {
    BackupParamsLite { hunk: *rng.pick(&[1usize, 2, 3, 5, 1000]), block: *rng.pick(&[2usize, 7, 16, 64, 1 << 20]), cap: *rng.pick(&[0u64, 1, 8, 1 << 20]) }
}

/// Mutate a tree so that every content change comes with a new mtime or size (the assumption the
/// unchanged-file heuristic makes).
pub fn mutate_tree(rng: &mut Rng, t: &Tree, go: &GenOpts, clock: &mut i64) -> Tree {
    let mut t = t.clone();
    let n_mut = 1 + rng.below(4);
    for _ in 0..n_mut {
        *clock += 1_000_000_007;
        let keys: Vec<String> = t.nodes.keys().filter(|k| *k != "/").cloned().collect();
        let dirs: Vec<Vec<String>> = t.nodes.values().filter(|n| n.kind == NodeKind::Dir && n.comps.len() < go.max_depth).map(|n| n.comps.clone()).collect();
        match rng.below(10) {
            0 | 1 => {
                // add something
                let parent = rng.pick(&dirs).clone();
                let mut comps = parent;
                comps.push(gen_name(rng));
                let ap = format!("/{}", comps.join("/"));
                let name = comps.last().unwrap();
                if name == "." || name == ".." || name.contains('/') || t.nodes.contains_key(&ap) {
                    continue;
                }
                let kind = match rng.below(6) {
                    0 => NodeKind::Dir,
                    1 => NodeKind::Symlink("tgt".into()),
                    _ => NodeKind::File(gen_content(rng, go)),
                };
                let (uid, gid) = *rng.pick(OWNERS);
                t.nodes.insert(ap, Node { comps, kind, mode: gen_mode(rng, go, false), mtime_ns: *clock, uid, gid });
            }
            2 | 3 | 4 if !keys.is_empty() => {
                // modify content (new mtime) of a file
                let k = rng.pick(&keys).clone();
                if let Some(n) = t.nodes.get_mut(&k) {
                    if let NodeKind::File(c) = &n.kind {
                        if !c.is_empty() && rng.chance(1, 3) {
                            // replaced by an OLDER copy of the same size (e.g. `cp -p` from elsewhere):
                            // content differs, size equal, mtime goes BACK (whole seconds or a fraction)
                            let mut c2 = c.clone();
                            let i = rng.below(c2.len());
                            c2[i] = if c2[i] == b'Z' { b'Y' } else { b'Z' };
                            n.kind = NodeKind::File(c2);
                            n.mtime_ns -= if rng.chance(1, 2) { 1 + rng.below(999_999_999) as i64 } else { 1_000_000_000 * (1 + rng.below(100_000) as i64) };
                        } else {
                            n.kind = NodeKind::File(gen_content(rng, go));
                            n.mtime_ns = *clock;
                        }
                    }
                }
            }
            5 if !keys.is_empty() => {
                // touch (mtime only) or chmod/chown (metadata only)
                let k = rng.pick(&keys).clone();
                if let Some(n) = t.nodes.get_mut(&k) {
                    match rng.below(3) {
                        0 => n.mtime_ns = *clock,
                        1 => n.mode = gen_mode(rng, go, n.kind == NodeKind::Dir),
                        _ => {
                            let (u, g) = *rng.pick(OWNERS);
                            n.uid = u;
                            n.gid = g;
                        }
                    }
                }
            }
            6 | 7 if !keys.is_empty() => {
                // remove a subtree
                let k = rng.pick(&keys).clone();
                let pref = format!("{k}/");
                t.nodes.retain(|p, _| p != &k && !p.starts_with(&pref));
            }
            8 if !keys.is_empty() => {
                // replace file by dir or dir (subtree) by file
                let k = rng.pick(&keys).clone();
                let pref = format!("{k}/");
                let was_dir = t.nodes.get(&k).map(|n| n.kind == NodeKind::Dir).unwrap_or(false);
                t.nodes.retain(|p, _| !p.starts_with(&pref));
                if let Some(n) = t.nodes.get_mut(&k) {
                    n.kind = if was_dir { NodeKind::File(gen_content(rng, go)) } else { NodeKind::Dir };
                    n.mtime_ns = *clock;
                }
            }
            9 if !keys.is_empty() => {
                // rename a leaf
                let k = rng.pick(&keys).clone();
                let has_children = t.nodes.keys().any(|p| p.starts_with(&format!("{k}/")));
                if !has_children {
                    if let Some(mut n) = t.nodes.remove(&k) {
                        let mut comps = n.comps.clone();
                        comps.pop();
                        comps.push(gen_name(rng));
                        let ap = format!("/{}", comps.join("/"));
                        let name = comps.last().unwrap().clone();
                        if name == "." || name == ".." || name.contains('/') || t.nodes.contains_key(&ap) {
                            t.nodes.insert(k, n);
                        } else {
                            n.comps = comps;
                            t.nodes.insert(ap, n);
                        }
                    }
                }
            }
            _ => {}
        }
    }
    t
}

pub fn gen_history(rng: &mut Rng, max_steps: usize, go: &GenOpts, with_crash: bool, with_delete: bool) -> Vec<Step> {
    let mut steps = Vec::new();
    let mut tree = gen_tree(rng, go);
    let mut clock: i64 = 1_600_000_000_000_000_000;
    steps.push(Step::SetTree(tree.clone()));
    steps.push(Step::Backup(gen_params(rng)));
    let n = 2 + rng.below(max_steps.saturating_sub(2).max(1));
    let mut bands: u32 = 1;
    while steps.len() < n {
        match rng.below(10) {
            0..=3 => {
                tree = mutate_tree(rng, &tree, go, &mut clock);
                steps.push(Step::SetTree(tree.clone()));
                steps.push(Step::Backup(gen_params(rng)));
                bands += 1;
            }
            4 => {
                // backup of an unchanged tree, possibly with other options
                steps.push(Step::Backup(gen_params(rng)));
                bands += 1;
            }
            5 | 6 if with_crash => {
                if rng.chance(1, 2) {
                    tree = mutate_tree(rng, &tree, go, &mut clock);
                    steps.push(Step::SetTree(tree.clone()));
                }
                // one in four: killed between the two micro-steps of the LAST write (the tail exists, zero-length),
                // after the entry that sorted last was removed from the tree
                let at = if rng.chance(1, 4) { 999 } else { rng.below(1000) as u32 };
                if at == 999 {
                    let mut keys: Vec<String> = tree.nodes.keys().filter(|k| *k != "/").cloned().collect();
                    keys.sort_by(|a, b| crate::c11::doc_cmp(a, b));
                    if let Some(last) = keys.last().cloned() {
                        tree.nodes.remove(&last);
                        steps.push(Step::SetTree(tree.clone()));
                    }
                }
                steps.push(Step::BackupCrash(gen_params(rng), at, 1000));
                bands += 1;
                // usually resume straight away
                if rng.chance(2, 3) {
                    steps.push(Step::Backup(gen_params(rng)));
                    bands += 1;
                }
            }
            7 | 8 if with_delete => {
                let mut d = Vec::new();
                for b in 0..bands {
                    if rng.chance(1, 3) {
                        d.push(b);
                    }
                }
                // the caller may name the versions in any order, and may name one that does not exist:
                // the delete then fails midway — what is gone by then must not depend on anything but the order given
                if d.len() >= 2 && rng.chance(1, 3) {
                    rng.shuffle(&mut d);
                }
                if !d.is_empty() && rng.chance(1, 4) {
                    let at = rng.below(d.len() + 1);
                    d.insert(at, bands + 5 + rng.below(3) as u32);
                }
                steps.push(Step::Delete(d, rng.chance(1, 5)));
            }
            9 if with_delete => {
                // archives live long: sometimes the newest complete version is one written before 0.6.4
                if rng.chance(1, 3) {
                    steps.push(Step::LegacyTail);
                }
                steps.push(Step::Gc)
            }
            _ => {}
        }
    }
    steps
}

/// Rewrite the BANDTAIL of the newest band that has a decodable one to `{"end_time":N}` (what conserve
/// 0.6.0–0.6.3 wrote: no `index_hunk_count`).  Returns that band.
pub fn legacy_tail(arch: &Path) -> Option<u32> {
    let mut bands: Vec<u32> = fs::read_dir(arch).ok()?.flatten().filter_map(|e| { let n = e.file_name().to_string_lossy().to_string(); if n.len() >= 5 && n.starts_with('b') { n[1..].parse().ok() } else { None } }).collect();
    bands.sort();
    for b in bands.into_iter().rev() {
        let p = arch.join(band_name(b)).join("BANDTAIL");
        if let Ok(bytes) = fs::read(&p) {
            if let Ok(v) = serde_json::from_slice::<serde_json::Value>(&bytes) {
                if let Some(t) = v.get("end_time") {
                    fs::write(&p, format!("{{\"end_time\":{t}}}\n")).unwrap();
                    return Some(b);
                }
            }
        }
    }
    None
}

pub fn copy_dir(from: &Path, to: &Path) {
    fs::create_dir_all(to).unwrap();
    for e in fs::read_dir(from).unwrap() {
        let e = e.unwrap();
        let p = e.path();
        let q = to.join(e.file_name());
        if e.file_type().unwrap().is_dir() {
            copy_dir(&p, &q);
        } else {
            fs::copy(&p, &q).unwrap();
        }
    }
}

/// Raw bytes of every file of the archive (for write-once checks).
pub fn raw_files(root: &Path) -> BTreeMap<String, Vec<u8>> {
    fn rec(root: &Path, rel: &Path, out: &mut BTreeMap<String, Vec<u8>>) {
        for e in fs::read_dir(root.join(rel)).unwrap() {
            let e = e.unwrap();
            let r = rel.join(e.file_name());
            if e.file_type().unwrap().is_dir() {
                rec(root, &r, out);
            } else {
                out.insert(r.to_str().unwrap().to_string(), fs::read(root.join(&r)).unwrap());
            }
        }
    }
    let mut out = BTreeMap::new();
    rec(root, Path::new(""), &mut out);
    out
}

pub fn complete_bands(state: &[String]) -> Vec<u32> {
    state.iter().filter_map(|l| {
        let p = l.split(' ').nth(1)?;
        let b = p.strip_suffix("/BANDTAIL")?;
        b[1..].parse().ok()
    }).collect()
}

pub fn all_bands(state: &[String]) -> Vec<u32> {
    state.iter().filter_map(|l| {
        let mut it = l.split(' ');
        it.next();
        let p = it.next()?;
        let v = it.next()?;
        if v == "dir" && p.starts_with('b') && !p.contains('/') { p[1..].parse().ok() } else { None }
    }).collect()
}

pub struct StepRecord {
    pub step: Value,
    pub real: Option<RunResult>,
    pub i_req: Option<usize>,
    pub state_before: Vec<String>,
    pub state_after: Vec<String>,
    pub i_dump: usize,
    pub raw_before: BTreeMap<String, Vec<u8>>,
    pub raw_after: BTreeMap<String, Vec<u8>>,
    pub crashed: bool,
    pub kind: &'static str,
    pub src_obs: Vec<Obs>,
    /// snapshots of the completed versions as known after this step
    pub snapshots_after: BTreeMap<u32, Vec<Obs>>,
}

pub struct HistOpts {
    pub restore_each: bool,
    pub raw: bool,
    pub sig: &'static str,
}

pub struct HistRun {
    pub work: tempfile::TempDir,
    pub src: PathBuf,
    pub arch: PathBuf,
    pub records: Vec<StepRecord>,
    /// band id -> what the source looked like when that band was completed
    pub snapshots: BTreeMap<u32, Vec<Obs>>,
    pub session: Session,
    /// (request index, expected restored nodes (sorted), case) for model-vs-real restore comparisons
    pub restore_expect: Vec<(usize, Vec<String>, RunResult, Value)>,
}

/// Restore one version into a fresh directory and observe it.
pub fn restore_observe(arch: &Path, work: &Path, sel: &Sel, tag: &str) -> (RunResult, Vec<Obs>) {
    let dest = work.join(format!("restore-{tag}"));
    if dest.exists() {
        fs::remove_dir_all(&dest).unwrap();
    }
    let r = real_restore(arch, &dest, &RestoreParams { sel: sel.clone(), subtree: None, exclude: vec![], overwrite: false }, IceptConfig::default());
    let obs = if dest.exists() { observe(&dest) } else { vec![] };
    let _ = fs::remove_dir_all(&dest);
    (r, obs)
}

pub fn run_history(steps: &[Step], o: &HistOpts, report: &mut Report, case_id: &Value) -> HistRun {
    let work = tempfile::tempdir().expect("tempdir");
    let src = work.path().join("src");
    let arch = work.path().join("arch");
    fs::create_dir_all(&src).unwrap();
    create_archive(&arch);
    let mut run = HistRun { work, src: src.clone(), arch: arch.clone(), records: vec![], snapshots: BTreeMap::new(), session: Session::new(), restore_expect: vec![] };
    let (state0, _) = abstract_archive(&arch);
    run.session.load_store(&state0);
    let mut obs: Vec<Obs> = vec![];
    let mut state = state0;
    for (si, step) in steps.iter().enumerate() {
        let raw_before = if o.raw { raw_files(&arch) } else { BTreeMap::new() };
        let state_before = state.clone();
        let case = json!({"history": case_id, "step_index": si, "step": step_json(step)});
        let mut rec = StepRecord { step: step_json(step), real: None, i_req: None, state_before, state_after: vec![], i_dump: 0, raw_before, raw_after: BTreeMap::new(), crashed: false, kind: "set-tree", src_obs: vec![], snapshots_after: BTreeMap::new() };
        match step {
            Step::SetTree(t) => {
                if src.exists() {
                    fs::remove_dir_all(&src).unwrap();
                }
                t.materialize(&src);
                obs = observe(&src);
                run.session.load_src(&src_lines(&obs));
            }
            Step::Backup(p) => {
                rec.kind = "backup";
                let params = p.params();
                rec.i_req = Some(run.session.push(format!("backup {} -", params.model_args())));
                let r = real_backup(&arch, &src, &params, IceptConfig::default());
                if r.result.starts_with("result ok") {
                    let (st, _) = abstract_archive(&arch);
                    if let Some(b) = complete_bands(&st).into_iter().max() {
                        run.snapshots.insert(b, obs.clone());
                    }
                }
                rec.real = Some(r);
            }
            Step::BackupCrash(p, num, den) => {
                rec.kind = "backup-crash";
                let params = p.params();
                // fault-free length on a scratch copy
                let scratch = run.work.path().join("scratch-arch");
                if scratch.exists() {
                    fs::remove_dir_all(&scratch).unwrap();
                }
                copy_dir(&arch, &scratch);
                let dry = real_backup(&scratch, &src, &params, IceptConfig::default());
                let _ = fs::remove_dir_all(&scratch);
                let n = dry.steps.max(1);
                // `den == 0`: `num` is the micro-step itself (directed histories)
                let k = if *den == 0 { (*num as usize).min(n - 1) } else { ((*num as usize) * n / (*den as usize)).min(n - 1) };
                rec.i_req = Some(run.session.push(format!("backup {} {}", params.model_args(), k)));
                let r = real_backup(&arch, &src, &params, IceptConfig { crash_at: Some(k), ..Default::default() });
                rec.crashed = true;
                rec.real = Some(r);
                // killed after the tail file was created (even still zero-length): every entry has been
                // recorded and the tool treats the version as complete — it must then restore to the source
                // (Lean: Gaps.interrupted_listing_tail_started)
                {
                    let (st, _) = abstract_archive(&arch);
                    let before: std::collections::BTreeSet<u32> = all_bands(&state).into_iter().collect();
                    if let Some(b) = complete_bands(&st).into_iter().max().filter(|b| !before.contains(b)) {
                        run.snapshots.insert(b, obs.clone());
                        report.hit("crash-state:tail-started-counts-as-complete");
                    }
                }
                report.hit(&format!("crash-at:{}", if k == 0 { "0".to_string() } else if k * 4 < n { "first-quarter".into() } else if k * 4 < 3 * n { "middle".into() } else { "last-quarter".into() }));
            }
            Step::Delete(bands, dry) => {
                rec.kind = "delete";
                let names: Vec<String> = bands.iter().map(|b| band_name(*b)).collect();
                rec.i_req = Some(run.session.push(format!("delete {} 0 {} - {} {}", if *dry { 1 } else { 0 }, crate::c05::MODEL_STRICT, names.len(), names.join(" ")).trim_end().to_string()));
                let r = real_delete(&arch, bands, *dry, false, IceptConfig::default());
                if r.result.starts_with("result ok") && !*dry {
                    for b in bands {
                        run.snapshots.remove(b);
                    }
                }
                rec.real = Some(r);
            }
            Step::LegacyTail => {
                rec.kind = "legacy-tail";
                if let Some(b) = legacy_tail(&arch) {
                    run.session.push(format!("put {}/BANDTAIL tail:-", band_name(b)));
                    report.hit("legacy-tail-applied");
                }
            }
            Step::Gc => {
                rec.kind = "gc";
                rec.i_req = Some(run.session.push(format!("delete 0 0 {} - 0", crate::c05::MODEL_STRICT)));
                rec.real = Some(real_delete(&arch, &[], false, false, IceptConfig::default()));
            }
        }
        let (st, notes) = abstract_archive(&arch);
        for n in notes {
            report.oracle_fail(&format!("{}:unexpected-file", o.sig), case.clone(), "something outside the documented layout appeared in the archive", json!(n));
        }
        state = st.clone();
        rec.state_after = st;
        rec.i_dump = run.session.push("dump".into());
        if o.raw {
            rec.raw_after = raw_files(&arch);
        }
        rec.src_obs = obs.clone();
        rec.snapshots_after = run.snapshots.clone();
        report.hit(&format!("step:{}", rec.kind));
        // ---- every surviving complete version restores to its own snapshot
        if o.restore_each && rec.kind != "set-tree" {
            let complete = complete_bands(&state);
            for b in &complete {
                if let Some(snap) = run.snapshots.get(b) {
                    let (rr, robs) = restore_observe(&arch, run.work.path(), &Sel::Band(*b), "band");
                    let case_b = json!({"history": case_id, "after_step": si, "restore": band_name(*b)});
                    if !rr.result.starts_with("result ok") || !rr.events.is_empty() {
                        report.oracle_fail(&format!("{}:restore-not-clean", o.sig), case_b.clone(), "restoring a completed version failed or reported errors", json!({"result": trunc(&rr.result), "events": rr.events.iter().take(3).collect::<Vec<_>>()}));
                    } else if let Some(d) = tree_diff(snap, &robs) {
                        report.oracle_fail(&format!("{}:restored-differs", o.sig), case_b.clone(), "a completed version no longer restores to the tree it was made from", d);
                    }
                    // and the model agrees on what restore produces
                    let i = run.session.push(format!("restore {} s:2f 0", band_name(*b)));
                    let mut nodes: Vec<String> = robs.iter().map(node_line).collect();
                    nodes.sort();
                    run.restore_expect.push((i, nodes, rr, case_b));
                }
            }
            // latest complete selects the newest of them
            if let Some(newest) = complete.iter().max() {
                if let Some(snap) = run.snapshots.get(newest) {
                    let (rr, robs) = restore_observe(&arch, run.work.path(), &Sel::Closed, "latest");
                    let case_b = json!({"history": case_id, "after_step": si, "restore": "latest-complete", "expected_band": band_name(*newest)});
                    if !rr.result.starts_with("result ok") || !rr.events.is_empty() {
                        report.oracle_fail(&format!("{}:latest-not-clean", o.sig), case_b.clone(), "restoring the latest complete version failed", json!({"result": trunc(&rr.result), "events": rr.events.iter().take(3).collect::<Vec<_>>()}));
                    } else if let Some(d) = tree_diff(snap, &robs) {
                        report.oracle_fail(&format!("{}:latest-wrong-version", o.sig), case_b.clone(), "the latest complete version is not the newest completed snapshot", d);
                    }
                    let i = run.session.push("restore closed s:2f 0".to_string());
                    let mut nodes: Vec<String> = robs.iter().map(node_line).collect();
                    nodes.sort();
                    run.restore_expect.push((i, nodes, rr, case_b));
                }
            }
        }
        run.records.push(rec);
    }
    run
}

/// After the model session ran: compare every step's trace/result/state and every restore.
pub fn compare_history(run: &HistRun, answers: &[Vec<String>], base: usize, o: &HistOpts, report: &mut Report, case_id: &Value) {
    for (si, rec) in run.records.iter().enumerate() {
        let case = json!({"history": case_id, "step_index": si, "step": rec.step});
        if let (Some(real), Some(i)) = (&rec.real, rec.i_req) {
            let m = parse_answer(&answers[base + i]);
            compare_run(report, &format!("{}:{}", o.sig, rec.kind), &case, real, &m, &CmpOpts { crashed: rec.crashed, ..Default::default() });
        }
        compare_state(report, &format!("{}:{}", o.sig, rec.kind), &case, &rec.state_after, &answers[base + rec.i_dump]);
    }
    for (i, nodes, rr, case) in &run.restore_expect {
        let m = parse_answer(&answers[base + *i]);
        let mut mn = m.lines.clone();
        mn.sort();
        let mut r2 = rr.clone();
        r2.lines = nodes.clone();
        let mut m2 = m.clone();
        m2.lines = mn;
        compare_run(report, &format!("{}:restore", o.sig), case, &r2, &m2, &CmpOpts::default());
    }
}

pub fn history_json(steps: &[Step]) -> Value {
    json!(steps.iter().map(step_json).collect::<Vec<_>>())
}

#[allow(dead_code)]
pub fn describe(obs: &[Obs]) -> Value {
    describe_tree(obs)
}
