//! Independent reader of the documented archive format: raw bytes -> abstract values in the
//! model's text form.  Uses snap, serde_json, blake2 and semver, none of conserve's own code.
use serde::Deserialize;
use std::fs;
use std::path::Path;

#[derive(Deserialize, Debug, Clone)]
pub struct HAddr {
    pub hash: String,
    #[serde(default)]
    pub start: u64,
    pub len: u64,
}

#[derive(Deserialize, Debug, Clone, Copy, PartialEq, Eq)]
pub enum HKind {
    File,
    Dir,
    Symlink,
    Unknown,
}

#[derive(Deserialize, Debug, Clone)]
pub struct HEntry {
    pub apath: String,
    pub kind: HKind,
    #[serde(default)]
    pub mtime: i64,
    #[serde(default)]
    pub unix_mode: Option<u32>,
    #[serde(default)]
    pub user: Option<String>,
    #[serde(default)]
    pub group: Option<String>,
    #[serde(default)]
    pub mtime_nanos: u32,
    #[serde(default)]
    pub addrs: Vec<HAddr>,
    #[serde(default)]
    pub target: Option<String>,
}

#[derive(Deserialize)]
struct HHead {
    #[allow(dead_code)]
    start_time: i64,
    band_format_version: Option<String>,
    #[serde(default)]
    format_flags: Vec<String>,
}

#[derive(Deserialize)]
struct HTail {
    #[allow(dead_code)]
    end_time: i64,
    index_hunk_count: Option<u64>,
}

#[derive(Deserialize)]
struct HHeader {
    conserve_archive_version: String,
}

fn xhex(s: &Option<String>) -> String {
    match s {
        Some(s) => format!("x{}", hex::encode(s.as_bytes())),
        None => "-".into(),
    }
}

pub fn kind_char(k: HKind) -> char {
    match k {
        HKind::File => 'f',
        HKind::Dir => 'd',
        HKind::Symlink => 'l',
        HKind::Unknown => 'u',
    }
}

pub fn entry_text(e: &HEntry) -> String {
    let addrs = if e.addrs.is_empty() {
        "-".to_string()
    } else {
        e.addrs.iter().map(|a| format!("{}:{}:{}", a.hash, a.start, a.len)).collect::<Vec<_>>().join("+")
    };
    format!(
        "{},{},{},{},{},{},{},{},{}",
        hex::encode(e.apath.as_bytes()),
        kind_char(e.kind),
        e.mtime,
        e.mtime_nanos,
        e.unix_mode.map(|m| m.to_string()).unwrap_or("-".into()),
        xhex(&e.user),
        xhex(&e.group),
        xhex(&e.target),
        addrs
    )
}

fn junk(bytes: &[u8]) -> String {
    format!("junk:{}", crate::report::fnv(&hex::encode(bytes)) % 1_000_000_000)
}

fn is_hash_name(s: &str) -> bool {
    s.len() == 128 && s.bytes().all(|b| b.is_ascii_hexdigit())
}

pub fn decode_hunk(bytes: &[u8]) -> Option<Vec<HEntry>> {
    let raw = snap::raw::Decoder::new().decompress_vec(bytes).ok()?;
    let es: Vec<HEntry> = serde_json::from_slice(&raw).ok()?;
    if es.iter().any(|e| e.addrs.iter().any(|a| !is_hash_name(&a.hash))) {
        return None;
    }
    // a block hash is parsed from hex in either case and always printed in lower case
    let mut es = es;
    for e in es.iter_mut() {
        for a in e.addrs.iter_mut() {
            a.hash = a.hash.to_ascii_lowercase();
        }
    }
    Some(es)
}

pub fn version_class(v: &Option<String>) -> &'static str {
    match v {
        None => "absent",
        Some(s) => match semver::Version::parse(s) {
            Err(_) => "invalid",
            Ok(ver) => {
                let ours = semver::Version::parse(conserve::version()).expect("crate version");
                if ver <= ours { "ok" } else { "toonew" }
            }
        },
    }
}

#[derive(Debug, Clone, PartialEq, Eq)]
pub enum Class {
    Header,
    GcLock,
    Head,
    Tail,
    Hunk,
    Block,
    Other,
}

/// Which kind of file lives at this archive-relative path, by the documented layout.
pub fn classify(path: &str) -> Class {
    let parts: Vec<&str> = path.split('/').collect();
    let is_band = |s: &str| s.len() >= 5 && s.starts_with('b') && s[1..].bytes().all(|b| b.is_ascii_digit()) && s == format!("b{:04}", s[1..].parse::<u64>().unwrap_or(u64::MAX));
    match parts.as_slice() {
        ["CONSERVE"] => Class::Header,
        ["GC_LOCK"] => Class::GcLock,
        [b, "BANDHEAD"] if is_band(b) => Class::Head,
        [b, "BANDTAIL"] if is_band(b) => Class::Tail,
        [b, "i", d, n] if is_band(b) && d.len() == 5 && n.len() == 9 && d.bytes().all(|c| c.is_ascii_digit()) && n.bytes().all(|c| c.is_ascii_digit()) && n.parse::<u64>().unwrap() / 10000 == d.parse::<u64>().unwrap() => Class::Hunk,
        ["d", sub, name] if sub.len() == 3 && name.starts_with(sub) && is_hash_name(name) => Class::Block,
        _ => Class::Other,
    }
}

/// Is this directory path one the documented layout has?
pub fn dir_is_expected(path: &str) -> bool {
    let parts: Vec<&str> = path.split('/').collect();
    let is_band = |s: &str| classify(&format!("{s}/BANDHEAD")) == Class::Head;
    match parts.as_slice() {
        ["."] | ["d"] => true,
        ["d", sub] => sub.len() == 3,
        [b] => is_band(b),
        [b, "i"] => is_band(b),
        [b, "i", d] => is_band(b) && d.len() == 5 && d.bytes().all(|c| c.is_ascii_digit()),
        _ => false,
    }
}

/// Abstract value (model text form) of a file's bytes at a given path.
pub fn abstract_file(path: &str, bytes: &[u8]) -> String {
    if bytes.is_empty() {
        return "empty".into();
    }
    match classify(path) {
        Class::Header => match serde_json::from_slice::<HHeader>(bytes) {
            Ok(h) => format!("header:{}", hex::encode(h.conserve_archive_version.as_bytes())),
            Err(_) => junk(bytes),
        },
        Class::GcLock => "lock".into(),
        Class::Head => match serde_json::from_slice::<HHead>(bytes) {
            Ok(h) => format!("head:{}:{}", version_class(&h.band_format_version), h.format_flags.iter().map(|f| hex::encode(f.as_bytes())).collect::<Vec<_>>().join(",")),
            Err(_) => junk(bytes),
        },
        Class::Tail => match serde_json::from_slice::<HTail>(bytes) {
            Ok(t) => format!("tail:{}", t.index_hunk_count.map(|n| n.to_string()).unwrap_or("-".into())),
            Err(_) => junk(bytes),
        },
        Class::Hunk => match decode_hunk(bytes) {
            Some(es) => format!("hunk:{}", es.iter().map(entry_text).collect::<Vec<_>>().join(";")),
            None => junk(bytes),
        },
        Class::Block => match snap::raw::Decoder::new().decompress_vec(bytes) {
            Ok(c) => format!("block:{}", hex::encode(c)),
            Err(_) => junk(bytes),
        },
        Class::Other => junk(bytes),
    }
}

/// `state <path> <value>` lines for a whole archive directory, sorted; plus notes about
/// things outside the documented layout.
pub fn abstract_archive(root: &Path) -> (Vec<String>, Vec<String>) {
    let mut lines = Vec::new();
    let mut notes = Vec::new();
    fn rec(root: &Path, rel: &str, lines: &mut Vec<String>, notes: &mut Vec<String>) {
        let p = if rel == "." { root.to_path_buf() } else { root.join(rel) };
        let md = match fs::symlink_metadata(&p) {
            Ok(m) => m,
            Err(_) => return,
        };
        if md.is_dir() {
            if dir_is_expected(rel) {
                lines.push(format!("state {rel} dir"));
            } else if !rel.contains('/') {
                lines.push(format!("state other:{} dir", hex::encode(rel.as_bytes())));
                notes.push(format!("unexpected directory {rel}"));
            } else {
                notes.push(format!("unexpected directory {rel}"));
            }
            let mut names: Vec<String> = fs::read_dir(&p).unwrap().map(|e| e.unwrap().file_name().to_string_lossy().to_string()).collect();
            names.sort();
            for n in names {
                let child = if rel == "." { n } else { format!("{rel}/{n}") };
                rec(root, &child, lines, notes);
            }
        } else {
            let bytes = fs::read(&p).unwrap_or_default();
            if classify(rel) == Class::Other {
                notes.push(format!("unexpected file {rel}"));
                if !rel.contains('/') {
                    lines.push(format!("state other:{} {}", hex::encode(rel.as_bytes()), abstract_file(rel, &bytes)));
                }
            } else {
                lines.push(format!("state {rel} {}", abstract_file(rel, &bytes)));
            }
        }
    }
    rec(root, ".", &mut lines, &mut notes);
    lines.sort();
    (lines, notes)
}

/// BLAKE2b-512 hex of a byte string, for the naming clause of the format.
pub fn blake_hex(data: &[u8]) -> String {
    hex::encode(blake2_rfc::blake2b::blake2b(64, &[], data).as_bytes())
}
