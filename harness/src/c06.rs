//! C06: a garbage collection (or delete) and a backup running together never lose data.
//!
//! One backup (actor A) and one gc / delete (actor B) on the same archive, advanced one storage
//! operation at a time under a schedule.  The archive contains a GARBAGE block whose content
//! reappears in the new source.  Per schedule:
//!  * oracle (no model): every complete version decodes (independent reader) without dangling /
//!    short / corrupt references and restores without error;
//!  * the full Lean model (`runSched` of the backup and delete programs) replays the same
//!    interleaving: traces, results, final state.  The model's backup reads its basis index in
//!    another order than the code (read drift, tolerated everywhere else), so the n-th operation of
//!    the real backup is not always the n-th of the model's: when the operation sequences differ the
//!    real interleaving is translated into a model schedule through a heaviest-common-subsequence
//!    alignment of the traces (see `aligned_schedule`);
//!  * the run is projected onto the events of the protocol skeleton (ConserveModel/Protocol.lean)
//!    and compared with the skeleton's prediction (who refused, which versions dangle, final
//!    bands / blocks, event sequences).
//!
//! The code under test contains the repair of defect D7 ("backup looks for the gc lock again after
//! creating its band"): the skeleton is asked with `proto` (= `recheck = true`); the oracle
//! signature `gc-race:dangling-in-new-version` is the finding that the repair removes and stays as
//! an oracle: it must never fire.
use crate::absarch::{abstract_archive, blake_hex};
use crate::compare::*;
use crate::conc::*;
use crate::hist::*;
use crate::icept::IceptConfig;
use crate::model::run_model;
use crate::real::*;
use crate::report::Report;
use crate::rng::Rng;
use crate::sweep::*;
use crate::treespec::*;
use serde_json::{Value, json};
use std::collections::{BTreeMap, BTreeSet};
use std::path::Path;
use std::time::Instant;

const HUNK: usize = 2;
const BLOCK: usize = 64;
const CAP: u64 = 4;

/// Content for a file: `<tag>-<seed>-<ctr>`, the counter chosen so that the block's hash starts
/// with `prefix` (all blocks then live in one `d/xxx` directory, which makes the order of the
/// listing operations of both the code and the model the same single operation).
fn content_with_prefix(tag: &str, seed: u64, prefix: Option<&str>) -> Vec<u8> {
    for ctr in 0u32.. {
        let c = format!("{tag}-content-{seed:x}-{ctr:06}").into_bytes();
        debug_assert!(c.len() as u64 > CAP && c.len() <= BLOCK);
        match prefix {
            None => return c,
            Some(p) if blake_hex(&c).starts_with(p) => return c,
            _ => {}
        }
    }
    unreachable!()
}

fn file_node(name: &str, content: &[u8], mtime_ns: i64) -> Node {
    Node { comps: vec![name.to_string()], kind: NodeKind::File(content.to_vec()), mode: 0o644, mtime_ns, uid: 0, gid: 0 }
}

fn tree_of(files: &[(&str, &Vec<u8>, i64)]) -> Tree {
    let mut t = Tree::default();
    t.nodes.insert("/".into(), Node { comps: vec![], kind: NodeKind::Dir, mode: 0o755, mtime_ns: 1_600_000_000_000_000_000, uid: 0, gid: 0 });
    for (n, c, m) in files {
        let node = file_node(n, c, *m);
        t.nodes.insert(node.apath(), node);
    }
    t
}

/// Write a block file directly, with our own encoder (snappy-raw of the content under its
/// BLAKE2b-512 name).
fn plant_block(arch: &Path, content: &[u8]) -> String {
    let h = blake_hex(content);
    let dir = arch.join("d").join(&h[..3]);
    std::fs::create_dir_all(&dir).unwrap();
    let comp = snap::raw::Encoder::new().compress_vec(content).unwrap();
    std::fs::write(dir.join(&h), comp).unwrap();
    h
}

fn parts(l: &str) -> Vec<&str> {
    l.split(' ').collect()
}

/// Global order of the operations of one run, reconstructed from the schedule (each turn of an
/// unfinished actor is exactly one operation; afterwards A runs to its end, then B).
fn global_order(sched: &[bool], na: usize, nb: usize) -> Vec<(bool, usize)> {
    let (mut ia, mut ib) = (0, 0);
    let mut out = Vec::with_capacity(na + nb);
    for t in sched {
        if !*t && ia < na {
            out.push((false, ia));
            ia += 1;
        } else if *t && ib < nb {
            out.push((true, ib));
            ib += 1;
        }
    }
    while ia < na {
        out.push((false, ia));
        ia += 1;
    }
    while ib < nb {
        out.push((true, ib));
        ib += 1;
    }
    out
}

struct Ids {
    of: BTreeMap<String, usize>,
}
impl Ids {
    fn id(&self, h: &str) -> usize {
        *self.of.get(h).unwrap_or(&999_999)
    }
    fn list(&self, hs: impl IntoIterator<Item = String>) -> String {
        let v: Vec<String> = hs.into_iter().map(|h| self.id(&h).to_string()).collect();
        if v.is_empty() { "-".into() } else { v.join(",") }
    }
}

fn block_hashes(state: &[String]) -> BTreeSet<String> {
    state.iter().filter_map(|l| {
        let mut it = l.split(' ');
        it.next();
        let p = it.next()?;
        let v = it.next()?;
        if p.starts_with("d/") && p.matches('/').count() == 2 && v != "empty" { Some(p.rsplit('/').next()?.to_string()) } else { None }
    }).collect()
}

/// Hashes a band's own hunks name, in hunk order, without duplicates.
fn band_refs(st: &BTreeMap<String, String>, b: u32) -> Vec<String> {
    let mut out: Vec<String> = Vec::new();
    for (_, e) in band_entries(st, b) {
        for (h, _, _) in e.addrs {
            if !out.contains(&h) {
                out.push(h);
            }
        }
    }
    out
}

/// `<id>:<c|i>:<refs>` tokens of an abstract state, sorted by id; refs sorted.
fn skeleton_bands(state: &[String], ids: &Ids) -> Vec<String> {
    let st = state_map(state);
    let complete = complete_bands(state);
    let mut bands = all_bands(state);
    bands.sort();
    bands.iter().map(|b| {
        let mut r: Vec<usize> = band_refs(&st, *b).iter().map(|h| ids.id(h)).collect();
        r.sort();
        let r: Vec<String> = r.iter().map(|x| x.to_string()).collect();
        let has_head = st.contains_key(&format!("{}/BANDHEAD", band_name(*b)));
        format!("{}:{}:{}", b, if complete.contains(b) { "c" } else if has_head { "i" } else { "n" }, if r.is_empty() { "-".into() } else { r.join(",") })
    }).collect()
}

fn norm_band_tokens(line: &str) -> Vec<String> {
    let mut v: Vec<(u64, String)> = line.split(' ').skip(1).filter(|t| !t.is_empty()).map(|t| {
        let p: Vec<&str> = t.split(':').collect();
        let mut r: Vec<u64> = if p[2] == "-" { vec![] } else { p[2].split(',').map(|x| x.parse().unwrap()).collect() };
        r.sort();
        r.dedup();
        let r: Vec<String> = r.iter().map(|x| x.to_string()).collect();
        (p[0].parse().unwrap(), format!("{}:{}:{}", p[0], p[1], if r.is_empty() { "-".into() } else { r.join(",") }))
    }).collect();
    v.sort();
    v.into_iter().map(|x| x.1).collect()
}

/// Skeleton events of the backup's operations (`None` = internal to an event).
fn label_backup(trace: &[String], g_prefix: &str, ids: &Ids) -> Vec<Vec<String>> {
    let mut out: Vec<Vec<String>> = vec![vec![]; trace.len()];
    let mut root_lists = 0;
    let last_hunk = trace.iter().rposition(|l| { let p = parts(l); p[1] == "write" && p[2].contains("/i/") });
    let sub = format!("d/{g_prefix}");
    let lb = trace.iter().position(|l| { let p = parts(l); p[1] == "list" && p[2] == sub }).or_else(|| trace.iter().position(|l| { let p = parts(l); p[1] == "list" && p[2] == "d" }));
    // The second lock check (src/backup.rs `backup`, right after `Band::create`): the first listing
    // of the archive directory that comes after the band's `mkdir bNNNN` / `write bNNNN/BANDHEAD`
    // (and before the listing of the blocks, when the backup gets that far).  The root listings
    // before the `mkdir` are the basis lookup and the id allocation of `Band::create`.
    let head_at = trace.iter().position(|l| { let p = parts(l); p[1] == "write" && p[2].ends_with("/BANDHEAD") });
    let recheck_at = head_at.and_then(|h| trace.iter().enumerate().skip(h + 1).find(|(i, l)| { let p = parts(l); p[1] == "list" && p[2] == "." && lb.map(|b| *i < b).unwrap_or(true) }).map(|x| x.0));
    for (i, l) in trace.iter().enumerate() {
        let p = parts(l);
        let (verb, path) = (p[1], p[2]);
        let is_band = path.starts_with('b') && !path.contains('/');
        let ev = match verb {
            "stat" if path == "GC_LOCK" => Some("B.lockCheck".to_string()),
            "list" if Some(i) == recheck_at => Some("B.lockCheck2".into()),
            "list" if path == "." => {
                root_lists += 1;
                if root_lists == 1 { Some("B.listBasis".into()) } else { Some("B.listId".into()) }
            }
            "mkdir" if is_band => Some("B.mkdir".into()),
            "write" if path.ends_with("/BANDHEAD") => Some("B.head".into()),
            "list" if Some(i) == lb => Some("B.listBlocks".into()),
            "write" if path.starts_with("d/") => Some(format!("B.block:{}:w", ids.id(path.rsplit('/').next().unwrap()))),
            "write" if Some(i) == last_hunk => Some("B.hunk".into()),
            "write" if path.ends_with("/BANDTAIL") => Some("B.tail".into()),
            _ => None,
        };
        if let Some(e) = ev {
            out[i].push(e);
        }
    }
    out
}

/// Skeleton events of gc's operations.  The reference scan (`referenced_blocks`: head, hunk
/// listings and hunks of every kept band) is one atomic event in the skeleton; it is placed at
/// the scan's last operation (at the listing of the bands when the scan has no operation).
fn label_gc(trace: &[String], ids: &Ids) -> Vec<Vec<String>> {
    let mut out: Vec<Vec<String>> = vec![vec![]; trace.len()];
    let mut root_lists = 0;
    let keep_at = trace.iter().enumerate().filter(|(_, l)| parts(l)[1] == "list" && parts(l)[2] == ".").nth(1).map(|x| x.0);
    let scan_last = keep_at.map(|k| {
        let mut last = k;
        for (i, l) in trace.iter().enumerate().skip(k + 1) {
            let p = parts(l);
            if p[2].starts_with('b') && (p[1] == "read" || p[1] == "list") { last = i } else { break }
        }
        last
    });
    for (i, l) in trace.iter().enumerate() {
        let p = parts(l);
        let (verb, path) = (p[1], p[2]);
        let evs: Vec<String> = match verb {
            "list" if path == "." => {
                root_lists += 1;
                match root_lists {
                    1 => vec!["G.last".into()],
                    2 => vec!["G.listKeep".into()],
                    _ => vec!["G.check".into()],
                }
            }
            "stat" if path.ends_with("/BANDTAIL") => vec!["G.tailCheck".into()],
            "stat" if path == "GC_LOCK" => vec!["G.lockCheck".into()],
            "write" if path == "GC_LOCK" => vec!["G.lockWrite".into()],
            "list" if path == "d" => vec!["G.listBlocks".into()],
            "stat" if path.starts_with("d/") => vec![format!("G.stat:{}", ids.id(path.rsplit('/').next().unwrap()))],
            "rmtree" => vec![format!("G.rmBand:{}", path[1..].parse::<u32>().unwrap_or(9999))],
            "rm" if path.starts_with("d/") => vec![format!("G.rmBlock:{}", ids.id(path.rsplit('/').next().unwrap()))],
            "rm" if path == "GC_LOCK" => vec!["G.unlock".into()],
            _ => vec![],
        };
        out[i] = evs;
        if Some(i) == scan_last {
            out[i].push("G.readRefs".into());
        }
    }
    out
}

/// Heaviest common subsequence of two traces (a common mutating operation weighs more than any
/// number of reads, so mutating operations are matched first): for every element of `a` the index
/// of its partner in `b`.
fn lcs_match(a: &[String], b: &[String]) -> Vec<Option<usize>> {
    // operations are identified by verb and path (their outcome depends on the interleaving)
    let key = |l: &String| -> String { let p = parts(l); format!("{} {}", p[1], p[2]) };
    let a: Vec<String> = a.iter().map(key).collect();
    let b: Vec<String> = b.iter().map(key).collect();
    let (n, m) = (a.len(), b.len());
    let w = |l: &String| -> usize { let v = l.split(' ').next().unwrap_or(""); if v == "mkdir" || v == "write" || v == "rm" || v == "rmtree" { 1000 } else { 1 } };
    let mut t = vec![vec![0usize; m + 1]; n + 1];
    for i in (0..n).rev() {
        for j in (0..m).rev() {
            let skip = t[i + 1][j].max(t[i][j + 1]);
            t[i][j] = if a[i] == b[j] { skip.max(t[i + 1][j + 1] + w(&a[i])) } else { skip };
        }
    }
    let mut out = vec![None; n];
    let (mut i, mut j) = (0, 0);
    while i < n && j < m {
        if a[i] == b[j] && t[i][j] == t[i + 1][j + 1] + w(&a[i]) {
            out[i] = Some(j);
            i += 1;
            j += 1;
        } else if t[i][j] == t[i + 1][j] {
            i += 1;
        } else {
            j += 1;
        }
    }
    out
}

/// The model's backup reads its basis index in another order than the code (eagerly, without the
/// second listing and the tail read of `Stitch`): the n-th operation of the real actor is then not
/// the n-th operation of the model's actor.  Translate the real interleaving into a schedule for
/// the model through the longest common subsequence of the two traces; operations without a partner
/// are reads of the basis version, which the other actor does not touch in these scenarios.
fn aligned_schedule(order: &[(bool, usize)], ra: &[String], ma: &[String], rb: &[String], mb: &[String]) -> Vec<bool> {
    let (xa, xb) = (lcs_match(ra, ma), lcs_match(rb, mb));
    let (mut na, mut nb) = (0usize, 0usize);
    let mut out = Vec::new();
    for (is_b, idx) in order {
        let (x, next) = if *is_b { (&xb, &mut nb) } else { (&xa, &mut na) };
        if let Some(m) = x[*idx] {
            if m >= *next {
                for _ in *next..=m {
                    out.push(*is_b);
                }
                *next = m + 1;
            }
        }
    }
    out
}

struct ScenarioSpec {
    name: &'static str,
    versions: usize,
    delete: Vec<u32>,
}

struct Pend {
    case: Value,
    ra: RunResult,
    rb: RunResult,
    post: Vec<String>,
    i_req: usize,
    i_dump: usize,
    i_proto: usize,
    real_a_events: Vec<String>,
    real_b_events: Vec<String>,
    real_dangling: Vec<u32>,
    order: Vec<(bool, usize)>,
}

fn bits(s: &[bool]) -> String {
    if s.is_empty() { "-".into() } else { s.iter().map(|b| if *b { '1' } else { '0' }).collect() }
}

/// Interceptor for `late_removal_probe`: parks the FIRST removal of a block file (for at most `hold`), and
/// notes whether `GC_LOCK` is removed while that removal is still parked.
struct LateRemoval {
    state: std::sync::Mutex<(bool, bool, bool)>, // (a block removal is parked, it has been released, the lock went while parked)
    cv: std::sync::Condvar,
    hold: std::time::Duration,
    seen_first: std::sync::atomic::AtomicBool,
}

impl conserve::transport::verif_hooks::Interceptor for LateRemoval {
    fn before(&self, op: &conserve::transport::verif_hooks::OpInfo) -> conserve::transport::verif_hooks::Decision {
        use conserve::transport::verif_hooks::{Decision, Verb};
        use std::sync::atomic::Ordering;
        let path = op.path.trim_start_matches("./");
        if op.verb == Verb::RemoveFile && (path.starts_with("d/") || op.path.contains("/d/") || path.len() == 128) && !self.seen_first.swap(true, Ordering::SeqCst) {
            let mut st = self.state.lock().unwrap();
            st.0 = true;
            let deadline = std::time::Instant::now() + self.hold;
            while !st.1 {
                let left = deadline.saturating_duration_since(std::time::Instant::now());
                if left.is_zero() {
                    break;
                }
                st = self.cv.wait_timeout(st, left).unwrap().0;
            }
            st.0 = false;
        } else if op.verb == Verb::RemoveFile && path.ends_with("GC_LOCK") {
            let mut st = self.state.lock().unwrap();
            if st.0 {
                st.2 = true;
            }
            st.1 = true;
            self.cv.notify_all();
        }
        Decision::Proceed
    }
    fn after(&self, _op: &conserve::transport::verif_hooks::OpInfo, _outcome: &conserve::transport::verif_hooks::Outcome) {}
}

/// Directed: a delete that has MORE THAN A THOUSAND unreferenced blocks to remove, on a multi-thread runtime.
/// The collector may remove blocks only while it holds the lock: if the lock file goes while a block removal
/// is still outstanding, a backup starting then can reuse a block that is about to disappear.  Real code only.
fn late_removal_probe(report: &mut Report) {
    use conserve::{Archive, BandId, DeleteOptions};
    let work = tempfile::tempdir().unwrap();
    let (src, arch) = (work.path().join("src"), work.path().join("arch"));
    std::fs::create_dir(&src).unwrap();
    for i in 0..1100u32 {
        std::fs::write(src.join(format!("g{i:04}")), format!("garbage-to-be number {i}")).unwrap();
    }
    create_archive(&arch);
    let p = BackupParams { max_entries_per_hunk: 100_000, max_block_size: 1 << 16, small_file_cap: 0, owner: true, exclude: vec![] };
    let b0 = real_backup(&arch, &src, &p, IceptConfig::default());
    std::fs::remove_dir_all(&src).unwrap();
    std::fs::create_dir(&src).unwrap();
    std::fs::write(src.join("keep"), b"the only file of the newer version").unwrap();
    let b1 = real_backup(&arch, &src, &p, IceptConfig::default());
    report.case("late-removal-probe", true);
    if !b0.result.starts_with("result ok") || !b1.result.starts_with("result ok") {
        return;
    }
    report.hit("directed:gc-with-more-than-1000-unreferenced-blocks");
    let ic = std::sync::Arc::new(LateRemoval { state: std::sync::Mutex::new((false, false, false)), cv: std::sync::Condvar::new(), hold: std::time::Duration::from_millis(700), seen_first: std::sync::atomic::AtomicBool::new(false) });
    let rt = tokio::runtime::Builder::new_multi_thread().worker_threads(4).enable_all().build().unwrap();
    let ic2 = ic.clone();
    let a2 = arch.clone();
    let r = rt.block_on(async move {
        let transport = conserve::transport::Transport::local(&a2).with_interceptor(ic2);
        let archive = Archive::open(transport).await?;
        archive.delete_bands(&[BandId::from(0)], &DeleteOptions { dry_run: false, break_lock: false }, conserve::monitor::test::TestMonitor::arc()).await
    });
    // give detached work (if any) a moment, then shut the runtime down
    std::thread::sleep(std::time::Duration::from_millis(50));
    drop(rt);
    let lock_went_while_parked = ic.state.lock().unwrap().2;
    let case = json!({"directed": "gc-with-1100-unreferenced-blocks", "runtime": "multi-thread(4)", "delete": "b0000", "result": r.as_ref().map(|_| "ok".to_string()).unwrap_or_else(|e| err_text(e))});
    if lock_went_while_parked {
        report.oracle_fail("gc-race:block-removal-outlives-lock", case, "the collector removed GC_LOCK while the removal of an unreferenced block was still outstanding: a backup starting at that moment sees no lock, lists that block as present and deduplicates against it", json!({"first_block_removal_parked_ms": 700}));
    }
}


/// Directed (real code + the property's oracle): the collector runs with `--break-lock` — with and without a stale
/// lock lying in the archive — while a backup of a source that needs the garbage block again starts.  Schedules
/// "gc j operations, backup k operations, gc to the end, backup to the end" for every j up to past its lock write and
/// every k up to past the backup's block listing (and the mirror image, backup first).  Whatever the interleaving:
/// every version that is complete afterwards decodes and restores.
fn break_lock_race(seed: u64, report: &mut Report) {
    let case_seed = seed.wrapping_mul(1_000_003) ^ 0xB4EA;
    let ca = content_with_prefix("a", case_seed, None);
    let prefix = blake_hex(&ca)[..3].to_string();
    let cb = content_with_prefix("b", case_seed, Some(&prefix));
    let cg = content_with_prefix("garbage", case_seed, Some(&prefix));
    let t0 = 1_600_000_000_000_000_000i64;
    let t1 = tree_of(&[("a", &ca, t0 + 1), ("b", &cb, t0 + 2)]);
    let t3 = tree_of(&[("a", &ca, t0 + 1), ("b", &cb, t0 + 2), ("n", &cg, t0 + 9)]);
    let pl = BackupParamsLite { hunk: HUNK, block: BLOCK, cap: CAP };
    let steps = vec![Step::SetTree(t1), Step::Backup(pl), Step::SetTree(t3)];
    for stale_lock in [false, true] {
        let case_id = json!({"directed": "gc --break-lock racing a backup", "stale_lock_present": stale_lock, "garbage_block_content": String::from_utf8_lossy(&cg)});
        let mut sc = build_scenario(&steps, report, &case_id, "gc-race-prefix");
        let _ = plant_block(&sc.run.arch, &cg);
        if stale_lock {
            std::fs::write(sc.run.arch.join("GC_LOCK"), b"{}\n").unwrap();
        }
        sc.pre_state = abstract_archive(&sc.run.arch).0;
        let a = ActorSpec::Backup { params: BackupParamsOwned { hunk: HUNK, block: BLOCK, cap: CAP }, source: sc.run.src.clone(), slot: 0 };
        let b = ActorSpec::DeleteBreakLock { bands: vec![] };
        // solo runs for the lengths
        let arch = fresh_copy(&sc, "blsolo");
        let (sa, _) = run_schedule(&arch, &a, &b, &[]);
        remove_copy(&arch);
        let arch = fresh_copy(&sc, "blsolo");
        let (_, sb) = run_schedule(&arch, &a, &b, &vec![true; 400]);
        remove_copy(&arch);
        let a_listed = sa.trace.iter().rposition(|l| { let p = parts(l); p[1] == "list" && p[2].starts_with("d") }).unwrap_or(sa.trace.len().saturating_sub(1));
        let b_lock = sb.trace.iter().position(|l| { let p = parts(l); p[1] == "write" && p[2] == "GC_LOCK" }).unwrap_or(4);
        let mut schedules: Vec<Vec<bool>> = Vec::new();
        for j in 0..=(b_lock + 3) {
            for k in 0..=(a_listed + 2) {
                let mut s = vec![true; j];
                s.extend(vec![false; k]);
                s.extend(vec![true; 400]);
                schedules.push(s);
            }
        }
        for i in 0..=(a_listed + 2) {
            for j in 0..=(b_lock + 3) {
                let mut s = vec![false; i];
                s.extend(vec![true; j]);
                schedules.push(s); // then A to the end, then B
            }
        }
        for sched in &schedules {
            let arch = fresh_copy(&sc, "blrace");
            let (ra, rb) = run_schedule(&arch, &a, &b, sched);
            let (post, _) = abstract_archive(&arch);
            let post_map = state_map(&post);
            let case = json!({"scenario": case_id, "schedule": bits(&sched[..sched.len().min(80)]), "actors": ["A = backup of the new source", "B = gc with break_lock"]});
            report.case(&format!("blrace/{stale_lock}/{}", bits(&sched[..sched.len().min(80)])), true);
            report.hit("gc-break-lock-race-schedule");
            report.hit(&format!("break-lock-outcome:backup-{}:gc-{}", if ra.result.starts_with("result ok") { "ok" } else { "refused" }, if rb.result.starts_with("result ok") { "ok" } else { "refused" }));
            if ra.result.starts_with("result panic") || rb.result.starts_with("result panic") {
                report.oracle_fail("gc-race:panic", case.clone(), "an actor crashed", json!({"a": trunc(&ra.result), "b": trunc(&rb.result)}));
            }
            for cband in complete_bands(&post) {
                let mut problems: Vec<String> = Vec::new();
                for (_, e) in band_entries(&post_map, cband) {
                    if let Err(why) = entry_content(&post_map, &e) {
                        problems.push(format!("{}: {}", e.apath, why));
                    }
                }
                let (rr, _) = restore_observe(&arch, sc.run.work.path(), &Sel::Band(cband), "blrace");
                if !problems.is_empty() || !rr.result.starts_with("result ok") || !rr.events.is_empty() {
                    report.oracle_fail("gc-race:dangling-with-break-lock", case.clone(), "a version that is complete after a gc --break-lock raced a backup refers to a block the collector removed", json!({"band": band_name(cband), "references": problems.iter().take(3).collect::<Vec<_>>(), "restore": trunc(&rr.result), "backup_result": trunc(&ra.result), "gc_result": trunc(&rb.result)}));
                }
            }
            remove_copy(&arch);
        }
    }
}


/// Directed (real code + the property's oracle): the race window of D7 again — the backup creates its band
/// between the collector's look at the versions and its `GC_LOCK` write — while the COLLECTOR suffers two
/// consecutive storage failures at its last look ("has a version appeared?"): the listing of the archive directory
/// fails and so does the stat of the next version's head.  A collector that cannot tell must not delete.
fn check_under_two_faults(seed: u64, report: &mut Report) {
    let case_seed = seed.wrapping_mul(1_000_003) ^ 0x2FA7;
    let ca = content_with_prefix("a", case_seed, None);
    let prefix = blake_hex(&ca)[..3].to_string();
    let cb = content_with_prefix("b", case_seed, Some(&prefix));
    let cg = content_with_prefix("garbage", case_seed, Some(&prefix));
    let t0 = 1_600_000_000_000_000_000i64;
    let t1 = tree_of(&[("a", &ca, t0 + 1), ("b", &cb, t0 + 2)]);
    let t3 = tree_of(&[("a", &ca, t0 + 1), ("b", &cb, t0 + 2), ("n", &cg, t0 + 9)]);
    let pl = BackupParamsLite { hunk: HUNK, block: BLOCK, cap: CAP };
    let steps = vec![Step::SetTree(t1), Step::Backup(pl), Step::SetTree(t3)];
    let case_id = json!({"directed": "gc racing a backup while the collector's last look fails twice", "garbage_block_content": String::from_utf8_lossy(&cg)});
    let mut sc = build_scenario(&steps, report, &case_id, "gc-race-prefix");
    let _ = plant_block(&sc.run.arch, &cg);
    sc.pre_state = abstract_archive(&sc.run.arch).0;
    let a = ActorSpec::Backup { params: BackupParamsOwned { hunk: HUNK, block: BLOCK, cap: CAP }, source: sc.run.src.clone(), slot: 0 };
    let b = ActorSpec::Delete { bands: vec![], dry_run: false };
    let arch = fresh_copy(&sc, "cfsolo");
    let (sa, _) = run_schedule(&arch, &a, &b, &[]);
    remove_copy(&arch);
    let arch = fresh_copy(&sc, "cfsolo");
    let (_, sb) = run_schedule(&arch, &a, &b, &vec![true; 400]);
    remove_copy(&arch);
    let a_listed = sa.trace.iter().rposition(|l| { let p = parts(l); p[1] == "list" && p[2].starts_with("d") }).unwrap_or(sa.trace.len().saturating_sub(1));
    let b_lock = sb.trace.iter().position(|l| { let p = parts(l); p[1] == "write" && p[2] == "GC_LOCK" }).unwrap_or(4);
    let first_rm = sb.trace.iter().position(|l| parts(l)[1] == "rm" && parts(l)[2].starts_with("d/")).unwrap_or(sb.trace.len());
    let lists_before_rm = sb.trace[..first_rm].iter().filter(|l| { let p = parts(l); p[1] == "list" && p[2] == "." }).count();
    if lists_before_rm == 0 {
        return;
    }
    for kind in ["ot", "pd"] {
        let faults_b = || vec![fault_spec("list", ".", lists_before_rm - 1, kind), fault_spec("stat", "b0001/BANDHEAD", 0, kind), fault_spec("stat", "b0002/BANDHEAD", 0, kind)];
        for j in 0..=(b_lock + 1) {
            for k in 0..=(a_listed + 2) {
                let mut sched = vec![true; j];
                sched.extend(vec![false; k]);
                sched.extend(vec![true; 400]);
                let arch = fresh_copy(&sc, "cfrace");
                let (ra, rb) = run_schedule_with_faults(&arch, &a, &b, &sched, vec![], faults_b());
                let (post, _) = abstract_archive(&arch);
                let post_map = state_map(&post);
                let case = json!({"scenario": case_id, "schedule": format!("gc {j} operations, backup {k}, gc to the end, backup to the end"), "collector_faults": format!("its last listing of the archive directory and the stat of the next version's head both fail ({kind})")});
                report.case(&format!("cfrace/{kind}/{j}/{k}"), true);
                report.hit("gc-race-with-two-collector-faults");
                for cband in complete_bands(&post) {
                    let mut problems: Vec<String> = Vec::new();
                    for (_, e) in band_entries(&post_map, cband) {
                        if let Err(why) = entry_content(&post_map, &e) {
                            problems.push(format!("{}: {}", e.apath, why));
                        }
                    }
                    let (rr, _) = restore_observe(&arch, sc.run.work.path(), &Sel::Band(cband), "cfrace");
                    if !problems.is_empty() || !rr.result.starts_with("result ok") || !rr.events.is_empty() {
                        report.oracle_fail("gc-race:dangling-after-collector-faults", case.clone(), "a version that is complete after the race refers to a block the collector removed although its last look for a new version had failed", json!({"band": band_name(cband), "references": problems.iter().take(3).collect::<Vec<_>>(), "restore": trunc(&rr.result), "backup_result": trunc(&ra.result), "gc_result": trunc(&rb.result)}));
                    }
                }
                remove_copy(&arch);
            }
        }
    }
}

pub fn run(tier: &str, seed: u64, report: &mut Report) {
    late_removal_probe(report);
    break_lock_race(seed, report);
    check_under_two_faults(seed, report);
    let thorough = tier == "thorough";
    let started = Instant::now();
    let budget_s = if thorough { 270 } else { 50 };
    let mut specs = vec![
        ScenarioSpec { name: "gc, one version", versions: 1, delete: vec![] },
        ScenarioSpec { name: "gc, two versions", versions: 2, delete: vec![] },
        ScenarioSpec { name: "delete oldest of two versions", versions: 2, delete: vec![0] },
    ];
    if thorough || std::env::var("C06_EXTRA").is_ok() {
        // the band the backup takes as its basis is deleted under it; when the delete finishes before
        // the backup allocates its id, the backup reuses the id of the deleted band.  (Two
        // unreferenced blocks: the order of their removal is the iteration order of a hash set.)
        specs.push(ScenarioSpec { name: "delete newest of two versions (the basis)", versions: 2, delete: vec![1] });
    }
    let rounds = if thorough { 3 } else { 1 };
    let mut minimal: Option<(usize, Value)> = None;
    let mut n_known = 0u64;
    for round in 0..rounds {
        for (spi, spec) in specs.iter().enumerate() {
            let case_seed = seed.wrapping_mul(1_000_003).wrapping_add((round * 10 + spi) as u64);
            let mut rng = Rng::new(case_seed);
            // ---- contents: every block in the same d/xxx directory
            let ca = content_with_prefix("a", case_seed, None);
            let prefix = blake_hex(&ca)[..3].to_string();
            let cb = content_with_prefix("b", case_seed, Some(&prefix));
            let cc = content_with_prefix("c", case_seed, Some(&prefix));
            let cg = content_with_prefix("garbage", case_seed, Some(&prefix));
            let cu = content_with_prefix("unrelated-garbage", case_seed, Some(&prefix));
            let t0 = 1_600_000_000_000_000_000i64;
            let t1 = tree_of(&[("a", &ca, t0 + 1), ("b", &cb, t0 + 2)]);
            let t2 = tree_of(&[("a", &ca, t0 + 1), ("b", &cb, t0 + 2), ("c", &cc, t0 + 3)]);
            let pl = BackupParamsLite { hunk: HUNK, block: BLOCK, cap: CAP };
            let mut steps = vec![Step::SetTree(t1.clone()), Step::Backup(pl.clone())];
            let mut last_files: Vec<(&str, &Vec<u8>, i64)> = vec![("a", &ca, t0 + 1), ("b", &cb, t0 + 2)];
            if spec.versions == 2 {
                steps.push(Step::SetTree(t2.clone()));
                steps.push(Step::Backup(pl.clone()));
                last_files.push(("c", &cc, t0 + 3));
            }
            // the new source: everything unchanged plus a file whose content equals the garbage block
            last_files.push(("n", &cg, t0 + 9));
            let t3 = tree_of(&last_files);
            steps.push(Step::SetTree(t3.clone()));
            let case_id = json!({"case_seed": case_seed, "scenario": spec.name, "prefix": history_json(&steps), "garbage_block_content": String::from_utf8_lossy(&cg), "options": pl.json()});
            let mut sc = build_scenario(&steps, report, &case_id, "gc-race-prefix");
            // ---- plant the garbage (content of /n) and, in some scenarios, unrelated garbage … no:
            // exactly one unreferenced block, so that the order of hash-set iteration cannot matter
            let g_hash = plant_block(&sc.run.arch, &cg);
            let _ = &cu;
            let (pre, notes) = abstract_archive(&sc.run.arch);
            assert!(notes.is_empty(), "planted block not in the documented layout: {notes:?}");
            sc.pre_state = pre;
            let pre_map = state_map(&sc.pre_state);
            // ---- skeleton abstraction of the pre-state
            let needed_hashes: Vec<String> = last_files.iter().map(|(_, c, _)| blake_hex(c)).collect();
            let mut all_hashes: BTreeSet<String> = block_hashes(&sc.pre_state);
            all_hashes.extend(needed_hashes.iter().cloned());
            for b in all_bands(&sc.pre_state) {
                all_hashes.extend(band_refs(&pre_map, b));
            }
            let ids = Ids { of: all_hashes.iter().enumerate().map(|(i, h)| (h.clone(), i)).collect() };
            let proto_cfg = format!(
                "0 {} {} {} {}",
                if spec.delete.is_empty() { "-".to_string() } else { spec.delete.iter().map(|b| b.to_string()).collect::<Vec<_>>().join(",") },
                ids.list(needed_hashes.iter().cloned()),
                ids.list(block_hashes(&sc.pre_state)),
                skeleton_bands(&sc.pre_state, &ids).join(" ")
            );
            let pa = BackupParamsOwned { hunk: HUNK, block: BLOCK, cap: CAP };
            let a = ActorSpec::Backup { params: pa, source: sc.run.src.clone(), slot: 0 };
            let b = ActorSpec::Delete { bands: spec.delete.clone(), dry_run: false };
            let obs_a = sc.src_obs.clone();
            // ---- solo reference runs: where the window is
            let solo = |sched: &[bool]| {
                let arch = fresh_copy(&sc, "solo");
                let r = run_schedule(&arch, &a, &b, sched);
                remove_copy(&arch);
                r
            };
            let (sa, sb) = solo(&[]); // backup entirely, then gc
            let na = sa.trace.len();
            let a_mkdir = sa.trace.iter().position(|l| { let p = parts(l); p[1] == "mkdir" && p[2].starts_with('b') && !p[2].contains('/') }).expect("backup mkdir");
            let a_listed = sa.trace.iter().rposition(|l| { let p = parts(l); p[1] == "list" && p[2].starts_with("d") }).expect("backup list d");
            let (_, sb2) = solo(&vec![true; 400]); // gc entirely, then backup
            let nb = sb2.trace.len();
            let b_check = sb2.trace.iter().position(|l| parts(l)[1] == "rmtree" || (parts(l)[1] == "rm" && parts(l)[2].starts_with("d/"))).map(|i| i - 1).expect("gc removes something");
            let _ = sb;
            report.notes.push(format!("{}: backup has {na} operations (mkdir is #{a_mkdir}, block listing ends at #{a_listed}); gc has {nb} (check is #{b_check})", spec.name));
            // ---- schedules: A runs i, B runs j, A runs k, B runs l, then A to the end, then B
            let mut schedules: Vec<Vec<bool>> = Vec::new();
            let mk = |i: usize, j: usize, k: usize, l: usize| {
                let mut s = vec![false; i];
                s.extend(vec![true; j]);
                s.extend(vec![false; k]);
                s.extend(vec![true; l]);
                s
            };
            // the window, exhaustively: every i up to past the mkdir, every j around the check
            let i_max = (a_mkdir + 3).min(na);
            for i in 0..=i_max {
                let j_lo = b_check.saturating_sub(if thorough { b_check } else { 3 });
                for j in j_lo..=(nb.min(b_check + 4)) {
                    schedules.push(mk(i, j, 0, 0));
                }
                for j in [0usize, 2, 4, 5, 6] {
                    if j < j_lo {
                        schedules.push(mk(i, j, 0, 0));
                    }
                }
            }
            // two more switches: A up to / past its block listing, B some more
            let mut extra: Vec<Vec<bool>> = Vec::new();
            for i in [0usize, 1, 2, 3, a_mkdir, a_mkdir + 1] {
                for j in [b_check.saturating_sub(1), b_check, b_check + 1, b_check + 2] {
                    for k in [1usize, a_listed.saturating_sub(i), a_listed + 1 - i.min(a_listed + 1), a_listed + 3 - i.min(a_listed + 3), na] {
                        for l in [0usize, 1, 2, 3, nb] {
                            extra.push(mk(i, j, k, l));
                        }
                    }
                }
            }
            // B first
            for j in 0..=(if thorough { nb } else { 8 }) {
                for i in [1usize, 2, 3, a_mkdir + 1, a_listed + 1] {
                    extra.push({
                        let mut s = vec![true; j];
                        s.extend(vec![false; i]);
                        s.extend(vec![true; b_check + 2 - j.min(b_check + 2)]);
                        s
                    });
                }
            }
            rng.shuffle(&mut extra);
            extra.truncate(if thorough { 200 } else { 50 });
            schedules.extend(extra);
            for _ in 0..(if thorough { 80 } else { 25 }) {
                let n = 10 + rng.below(na + nb);
                let bias = 1 + rng.below(3) as u32;
                schedules.push((0..n).map(|_| rng.chance(bias, 4)).collect());
            }
            let mut seen = BTreeSet::new();
            schedules.retain(|s| seen.insert(s.clone()));
            if let Ok(only) = std::env::var("C06_ONLY") {
                schedules = vec![only.chars().filter(|c| *c == '0' || *c == '1').map(|c| c == '1').collect()];
            }

            let mut session = Session::new();
            let mut protos: Vec<String> = Vec::new();
            let mut pend: Vec<Pend> = Vec::new();
            let pre_bands = all_bands(&sc.pre_state);
            let pre_complete = complete_bands(&sc.pre_state);
            for (qi, sched) in schedules.iter().enumerate() {
                if started.elapsed().as_secs() > budget_s * ((round * specs.len() + spi + 1) as u64) / ((rounds * specs.len()) as u64) {
                    report.hit("schedule-skipped-for-time");
                    continue;
                }
                let arch = fresh_copy(&sc, "gcrace");
                let (ra, rb) = run_schedule(&arch, &a, &b, sched);
                let (post, _) = abstract_archive(&arch);
                let post_map = state_map(&post);
                let sched_text = bits(sched);
                let order = global_order(sched, ra.trace.len(), rb.trace.len());
                let pos_of = |actor_b: bool, idx: usize| order.iter().position(|x| *x == (actor_b, idx));
                let a_mk = ra.trace.iter().position(|l| { let p = parts(l); p[1] == "mkdir" && p[2].starts_with('b') && !p[2].contains('/') });
                let new_band: Option<u32> = a_mk.and_then(|i| parts(&ra.trace[i])[2][1..].parse().ok());
                let b_ck = rb.trace.iter().position(|l| parts(l)[1] == "rmtree" || (parts(l)[1] == "rm" && parts(l)[2].starts_with("d/"))).and_then(|i| rb.trace[..i].iter().rposition(|l| parts(l)[1] == "list" && parts(l)[2] == "."));
                let check_before_mkdir = match (b_ck.and_then(|i| pos_of(true, i)), a_mk.and_then(|i| pos_of(false, i))) {
                    (Some(c), Some(m)) => c < m,
                    _ => false,
                };
                let case = json!({"scenario": case_id, "schedule": sched_text, "actors": ["A = backup of the new source", format!("B = delete_bands({:?})", spec.delete)],
                    "global_positions": {"gc_check": b_ck.and_then(|i| pos_of(true, i)), "backup_mkdir": a_mk.and_then(|i| pos_of(false, i))}});
                let both = sched.iter().any(|x| *x) && sched.iter().any(|x| !*x);
                report.case(&format!("gcrace/{case_seed}/{qi}/{sched_text}"), both);
                report.hit("gc-race-schedule");
                report.hit(&format!("outcome:backup-{}:gc-{}", if ra.result.starts_with("result ok") { "ok" } else { "refused" }, if rb.result.starts_with("result ok") { "ok" } else { "refused" }));
                if check_before_mkdir {
                    report.hit("window:gc-check-before-backup-mkdir");
                }
                if ra.result.starts_with("result panic") || rb.result.starts_with("result panic") {
                    report.oracle_fail("gc-race:panic", case.clone(), "an actor crashed", json!({"a": trunc(&ra.result), "b": trunc(&rb.result)}));
                }
                // ---- oracle: every complete version decodes and restores
                let mut real_dangling: Vec<u32> = Vec::new();
                for cb in complete_bands(&post) {
                    let mut problems: Vec<String> = Vec::new();
                    for (_, e) in band_entries(&post_map, cb) {
                        if let Err(why) = entry_content(&post_map, &e) {
                            problems.push(format!("{}: {}", e.apath, why));
                        }
                    }
                    let (rr, _) = restore_observe(&arch, sc.run.work.path(), &Sel::Band(cb), "gcrace");
                    let restore_bad = !rr.result.starts_with("result ok") || !rr.events.is_empty();
                    if !problems.is_empty() {
                        real_dangling.push(cb);
                    }
                    if problems.is_empty() && !restore_bad {
                        continue;
                    }
                    let observed = json!({"band": band_name(cb), "references": problems.iter().take(3).collect::<Vec<_>>(), "restore": trunc(&rr.result), "restore_errors": rr.events.iter().take(3).collect::<Vec<_>>(),
                        "backup_result": trunc(&ra.result), "gc_result": trunc(&rb.result)});
                    if Some(cb) == new_band && check_before_mkdir {
                        n_known += 1;
                        report.hit("D7-violation");
                        let better = minimal.as_ref().map(|(n, _)| sched.len() < *n).unwrap_or(true);
                        if better {
                            minimal = Some((sched.len(), json!({"schedule": sched_text, "scenario": spec.name, "case_seed": case_seed, "observed": observed.clone(),
                                "backup_ops_before_switch": ra.trace.iter().take(sched.iter().take_while(|x| !**x).count()).collect::<Vec<_>>()})));
                        }
                        report.oracle_fail("gc-race:dangling-in-new-version", case.clone(), "the version the backup just completed refers to a block the collector removed (gc's check() passed before the backup created its band directory)", observed);
                    } else if Some(cb) != new_band {
                        report.oracle_fail("gc-race:old-version-damaged", case.clone(), "a version that was complete before the race no longer decodes / restores", observed);
                    } else {
                        report.oracle_fail("gc-race:dangling-other-order", case.clone(), "the new version dangles although gc's check() did not precede the backup's mkdir", observed);
                    }
                }
                // kept old complete versions are still there, unchanged
                for ob in &pre_complete {
                    let deleted_ok = spec.delete.contains(ob) && rb.result.starts_with("result ok");
                    if !deleted_ok && !(spec.delete.contains(ob)) {
                        let before: Vec<String> = sc.pre_state.iter().filter(|l| l.starts_with(&format!("state {}/", band_name(*ob)))).cloned().collect();
                        let after: Vec<String> = post.iter().filter(|l| l.starts_with(&format!("state {}/", band_name(*ob)))).cloned().collect();
                        if before != after {
                            report.oracle_fail("gc-race:old-version-damaged", case.clone(), "a kept version's files changed or disappeared", json!({"band": band_name(*ob), "diff": first_diff(&before, &after)}));
                        }
                    }
                }
                let _ = &pre_bands;
                // ---- projection onto the skeleton
                let la = label_backup(&ra.trace, &g_hash[..3], &ids);
                let lb = label_gc(&rb.trace, &ids);
                let mut proj: Vec<bool> = Vec::new();
                for (is_b, idx) in &order {
                    let n = if *is_b { lb[*idx].len() } else { la[*idx].len() };
                    for _ in 0..n {
                        proj.push(*is_b);
                    }
                }
                let real_a_events: Vec<String> = la.iter().flatten().cloned().collect();
                let real_b_events: Vec<String> = lb.iter().flatten().cloned().collect();
                protos.push(format!("proto {} {}", bits(&proj), proto_cfg));
                let i_proto = protos.len() - 1;
                remove_copy(&arch);
                // ---- full model
                session.load_store(&sc.pre_state);
                session.load_src(&src_lines(&obs_a));
                session.push("src-save 0".into());
                let i_req = session.push(format!("sched {} {} {}", sched_text, a.model_token(1), b.model_token(1)));
                let i_dump = session.push("dump".into());
                pend.push(Pend { case, ra, rb, post, i_req, i_dump, i_proto, real_a_events, real_b_events, real_dangling, order });
            }
            if spi == 0 && round == 0 {
                report.sample(json!({"kind": "gc-race", "scenario": spec.name, "schedules": schedules.len(), "example": bits(&schedules[schedules.len() / 2])}));
            }
            let answers = session.run();
            let panswers = run_model(&protos);
            let split = |lines: &Vec<String>| {
                let ma = parse_answer(&lines.iter().filter_map(|l| l.strip_prefix("A ").map(|s| s.to_string())).collect::<Vec<_>>());
                let mb = parse_answer(&lines.iter().filter_map(|l| l.strip_prefix("B ").map(|s| s.to_string())).collect::<Vec<_>>());
                (ma, mb)
            };
            // second pass for runs whose operation sequences differ between code and model (reads
            // only — mutating operations are compared below): replay the translated interleaving
            let mut session2 = Session::new();
            let mut second: BTreeMap<usize, (usize, usize)> = BTreeMap::new();
            for (pi, p) in pend.iter().enumerate() {
                let (ma, mb) = split(&answers[p.i_req]);
                if p.ra.trace != ma.trace || p.rb.trace != mb.trace {
                    let al = aligned_schedule(&p.order, &p.ra.trace, &ma.trace, &p.rb.trace, &mb.trace);
                    if std::env::var("C06_DEBUG").is_ok() {
                        eprintln!("---- {} -> {}", p.case["schedule"], bits(&al));
                        eprintln!("order {:?}", p.order);
                        for (x, y) in [(&p.ra.trace, &ma.trace), (&p.rb.trace, &mb.trace)] {
                            for i in 0..x.len().max(y.len()) {
                                let a = x.get(i).map(|s| trunc(s)).unwrap_or_default();
                                let b = y.get(i).map(|s| trunc(s)).unwrap_or_default();
                                eprintln!("{:2} {} {:<60} | {}", i, if a == b { " " } else { "*" }, &a[..a.len().min(60)], &b[..b.len().min(60)]);
                            }
                            eprintln!();
                        }
                    }
                    session2.load_store(&sc.pre_state);
                    session2.load_src(&src_lines(&obs_a));
                    session2.push("src-save 0".into());
                    let i_req = session2.push(format!("sched {} {} {}", bits(&al), a.model_token(1), b.model_token(1)));
                    let i_dump = session2.push("dump".into());
                    second.insert(pi, (i_req, i_dump));
                    report.hit("full-model-schedule-translated");
                }
            }
            let answers2 = if second.is_empty() { vec![] } else { session2.run() };
            for (pi, p) in pend.iter().enumerate() {
                let (lines, dump) = match second.get(&pi) {
                    Some((i_req, i_dump)) => (&answers2[*i_req], &answers2[*i_dump]),
                    None => (&answers[p.i_req], &answers[p.i_dump]),
                };
                let (ma, mb) = split(lines);
                compare_run(report, "gc-race:A", &p.case, &p.ra, &ma, &CmpOpts::default());
                compare_run(report, "gc-race:B", &p.case, &p.rb, &mb, &CmpOpts::default());
                compare_state(report, "gc-race", &p.case, &p.post, dump);
                // ---- skeleton
                let pa = &panswers[p.i_proto];
                let get = |k: &str| pa.iter().find(|l| l.starts_with(k)).cloned().unwrap_or_default();
                // deduplications have no storage operation; how many G.stat there are depends on where
                // inside the multi-operation reference scan a concurrent hunk write falls (the run
                // is refused by check() in all those cases), so they are not compared
                // blocks are removed in the iteration order of a hash set: every run of consecutive
                // G.rmBlock events is compared as a set
                let strip = |evs: Vec<String>| -> Vec<String> {
                    let mut v: Vec<String> = evs.into_iter().filter(|e| !(e.starts_with("B.block:") && e.ends_with(":d"))).filter(|e| !e.starts_with("G.stat:")).collect();
                    let mut i = 0;
                    while i < v.len() {
                        let mut j = i;
                        while j < v.len() && v[j].starts_with("G.rmBlock:") {
                            j += 1;
                        }
                        if j > i {
                            v[i..j].sort();
                            i = j;
                        } else {
                            i += 1;
                        }
                    }
                    v
                };
                let sk_a = strip(get("A").split(' ').skip(1).map(|s| s.to_string()).collect());
                let sk_b = strip(get("B ").split(' ').skip(1).map(|s| s.to_string()).collect());
                let real_a = strip(p.real_a_events.clone());
                let real_b = strip(p.real_b_events.clone());
                let real_summary = json!({
                    "backup": if p.ra.result.starts_with("result ok") { "ok" } else { "not-ok" },
                    "gc": if p.rb.result.starts_with("result ok") { "ok" } else { "not-ok" },
                    "dangling": p.real_dangling,
                    "bands": skeleton_bands(&p.post, &ids),
                    "present": block_hashes(&p.post).iter().map(|h| ids.id(h)).collect::<BTreeSet<_>>(),
                    "A": real_a, "B": real_b,
                });
                let sk_dangling: Vec<u32> = { let d = get("dangling "); let d = d.trim_start_matches("dangling ").trim(); if d == "-" || d.is_empty() { vec![] } else { d.split(',').map(|x| x.parse().unwrap()).collect() } };
                let sk_present: BTreeSet<usize> = { let d = get("present "); let d = d.trim_start_matches("present ").trim(); if d == "-" || d.is_empty() { BTreeSet::new() } else { d.split(',').map(|x| x.parse().unwrap()).collect() } };
                let sk_summary = json!({
                    "backup": if get("backup ") == "backup ok" { "ok" } else { "not-ok" },
                    "gc": if get("gc ") == "gc ok" { "ok" } else { "not-ok" },
                    "dangling": sk_dangling,
                    "bands": norm_band_tokens(&get("bands")),
                    "present": sk_present,
                    "A": sk_a, "B": sk_b,
                });
                if pa.iter().any(|l| l == "bad-op") || real_summary != sk_summary {
                    report.disagree("gc-race:skeleton", p.case.clone(), real_summary, json!({"skeleton": sk_summary, "raw": pa}));
                } else {
                    report.hit("skeleton-agrees");
                }
            }
        }
    }
    report.notes.push(format!("D7 (known finding) reproduced by {n_known} schedule(s)"));
    if let Some((_, m)) = minimal {
        report.notes.push(format!("shortest violating schedule: {m}"));
        report.sample(json!({"kind": "D7-minimal-violating-schedule", "detail": m}));
    }
}
